(* C16 — Reported exposure equals the true worst case.  Statements only. *)
From Coq Require Import ZArith List Bool Permutation.
From V Require Import Model.Num Model.Status Model.Exposure Model.ExposureSpec Gen.StatusC
  Proofs.ExposureP Proofs.ExposureMarketP Model.C16Cases.
Open Scope Z_scope.

(* 1. selection figures: within one penny (two roundings of half a penny) of the worst case over
      EVERY combination of which open orders fill; for every tie-break function of round() *)
Theorem C16_selection : forall tb pending orders excl new,
  forallb wf_o (orders ++ match new with Some n => [n] | None => [] end) = true ->
  let e := get_exposures tb pending orders excl new in
  let pos := position pending excl orders new in
  Z.abs (100 * e_win e - worst true pos) <= 100 /\ Z.abs (100 * e_lose e - worst false pos) <= 100.
Proof. exact selection_within_a_penny. Qed.
Print Assumptions C16_selection.

Theorem C16_selection_exact : forall tb pending orders excl new,
  forallb wf_o (orders ++ match new with Some n => [n] | None => [] end) = true ->
  let a := fold_left (add_order pending excl) (orders ++ match new with Some n => [n] | None => [] end) acc0 in
  (matched_win_raw a) mod 100 = 0 -> (unmatched_win_raw a) mod 100 = 0 ->
  (matched_lose_raw a) mod 100 = 0 -> (unmatched_lose_raw a) mod 100 = 0 ->
  let e := get_exposures tb pending orders excl new in
  let pos := position pending excl orders new in
  100 * e_win e = worst true pos /\ 100 * e_lose e = worst false pos.
Proof. exact selection_exact_on_grid. Qed.
Print Assumptions C16_selection_exact.

Theorem C16_worst_is_sum : forall win pos, worst win pos = sumZ (map (contrib win) pos).
Proof. exact worst_is_sum. Qed.
Print Assumptions C16_worst_is_sum.

(* 2. market figure = worst over every admissible set of k winners *)
Theorem C16_market : forall tb pending orders active k excl new,
  0 <= k ->
  let sels := dedup (map o_sel orders ++ match new with Some n => [o_sel n] | None => [] end) in
  let exps := map (fun s => get_exposures tb pending (filter (fun o => o_sel o =? s) orders) excl
                   (match new with Some n => if o_sel n =? s then Some n else None | None => None end)) sels in
  let loses := map e_lose exps in
  let diffs := map (fun e => e_win e - e_lose e) exps ++ repeat 0 (Z.to_nat (active - Z.of_nat (length sels))) in
  (forall W rest, Permutation diffs (W ++ rest) -> length W = Z.to_nat k ->
      market_exposure tb pending orders active k excl new <= sumZ loses + sumZ W) /\
  (exists W rest, Permutation diffs (W ++ rest) /\ length W = Nat.min (Z.to_nat k) (length diffs) /\
      market_exposure tb pending orders active k excl new = sumZ loses + sumZ W).
Proof. exact market_exposure_is_worst. Qed.
Print Assumptions C16_market.

(* 3. refused / unacknowledged orders are left out (PENDING_STATUS is regenerated from the source) *)
Theorem C16_pending_left_out : forall tb orders excl new o,
  status_in (o_status o) PENDING_STATUS = true ->
  get_exposures tb PENDING_STATUS (o :: orders) excl new = get_exposures tb PENDING_STATUS orders excl new.
Proof. intros tb. exact (pending_orders_left_out tb PENDING_STATUS). Qed.
Print Assumptions C16_pending_left_out.
Theorem C16_pending_status_is : PENDING_STATUS = [SPending; SViolation; SExpired].
Proof. reflexivity. Qed.

(* 4. exclusion / prospective order handled as if removed / added (for distinct orders) *)
Theorem C16_exclusion_new : forall tb pending orders e n, e <> o_id n ->
  get_exposures tb pending orders (Some e) (Some n) =
  get_exposures tb pending (filter (fun o => negb (e =? o_id o)) orders ++ [n]) None None.
Proof. exact exclusion_and_new_as_if. Qed.
Print Assumptions C16_exclusion_new.

(* 4'. REFUTED instance (finding F-C01-1, shared with C01): when the exclusion and the new order
   are the same object - what StrategyExposure passes for REPLACE - the order is not counted at all *)
Theorem C16_exclusion_equals_new_refuted : forall tb pending orders n,
  get_exposures tb pending orders (Some (o_id n)) (Some n) =
  get_exposures tb pending (filter (fun o => negb (o_id n =? o_id o)) orders) None None.
Proof. exact exclusion_equals_new_drops_it. Qed.
Print Assumptions C16_exclusion_equals_new_refuted.

(* 5. selection_exposure = max(0, -min(win, lose)) *)
Theorem C16_selection_exposure : forall tb pending orders,
  let e := get_exposures tb pending orders None None in
  selection_exposure tb pending orders = Z.max 0 (- Z.min (e_win e) (e_lose e)).
Proof. exact selection_exposure_spec. Qed.
Print Assumptions C16_selection_exposure.

(* non-vacuity: a position with matched, resting, complete and starting-price orders *)
Example C16_nonvacuous :
  let os := [mk 1 7 Back (KLimit false) SExecutable false 300 250 200 240 0;
             mk 2 7 Lay (KLimit false) SExecComplete true 500 310 0 300 0;
             mk 3 7 Lay KSP SExecutable false 0 0 0 0 1000;
             mk 4 7 Back (KLimit false) SPending false 0 0 500 200 0] in
  forallb wf_o os = true /\
  exp6 (get_exposures tb_up PENDING_STATUS os None None) = [-600; 200; 0; -200; -1600; 0] /\
  worst true (position PENDING_STATUS None os None) = -160000 /\
  worst false (position PENDING_STATUS None os None) = 0 /\
  market_exposure tb_up PENDING_STATUS os 3 1 None None = -1600.
Proof. vm_compute. repeat split; reflexivity. Qed.

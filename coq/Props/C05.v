(* C05 — Fills never breach the order's limit; fill-or-kill is all-or-nothing.  Statements only. *)
From Coq Require Import ZArith List Bool.
From V Require Import Model.Num Model.Status Model.Sim Model.SimLoop Model.SimGuard Model.Examples Proofs.SimPlaceP Proofs.SimPlaceP2 Proofs.SimRunP Proofs.SimLimitRunP Proofs.SimStaticP.
Open Scope Z_scope.

(* an ordinary limit order on arrival: the new fragments are a prefix of the opposing ladder, all at the
   limit or better, each at the level's price and no larger than the level, in total <= the order size;
   for any book (any number of levels, gaps, empty sides) *)
Theorem C05_arrival_fills : forall tb c ms b mv o r,
  fresh o -> (so_fok o && negb (so_repl o)) = false -> c_full c = false -> find_runner b (so_sel o) = Some r ->
  wf_ladder (r_atb r) -> wf_ladder (r_atl r) ->
  let o' := fst (sim_place tb c ms b mv o) in
  let avail := match so_side o with Back => r_atb r | Lay => r_atl r end in
  exists fs, so_frags o' = map (fun ps => {| f_pt := b_pt b; f_price := fst ps; f_size := snd ps |}) fs /\
    Forall (fun ps => match so_side o with Back => so_price o <= fst ps | Lay => fst ps <= so_price o end) fs /\
    Forall2 (fun f lv => fst f = fst lv /\ 0 < snd f <= snd lv) fs (firstn (length fs) avail) /\
    0 <= sumZ (map snd fs) <= so_size o.
Proof. exact place_fills_from_book. Qed.
Print Assumptions C05_arrival_fills.

(* fill-or-kill: nothing remains, and the matched size is 0 or at least the minimum fill *)
Theorem C05_fok_all_or_nothing : forall tb c ms b mv o r,
  fresh o -> so_fok o = true -> so_repl o = false -> find_runner b (so_sel o) = Some r ->
  wf_ladder (r_atb r) -> wf_ladder (r_atl r) ->
  let o' := fst (sim_place tb c ms b mv o) in
  remaining o' = 0 /\ (so_matched o' = 0 \/ minfill_of o <= so_matched o').
Proof. exact fok_all_or_nothing. Qed.
Print Assumptions C05_fok_all_or_nothing.

(* fill-or-kill priced through the best price: the reported (2 dp) volume-weighted average of what is
   kept satisfies the limit; the exact statement carries the exchange's own 2 dp reporting *)
Theorem C05_fok_vwap : forall tb pt sd price size avail minfill o, fresh o ->
  let o' := vwap_matched tb pt sd price size avail minfill o in
  (so_frags o' = [] /\ so_matched o' = 0) \/
  (minfill <= so_matched o' /\ match sd with Back => price <= so_avg o' | Lay => so_avg o' <= price end).
Proof. exact vwap_all_or_nothing. Qed.
Print Assumptions C05_fok_vwap.

Theorem C05_bpe_off_lapses : forall tb c ms b mv o r,
  fresh o -> c_bpe c = false -> b_status b = MOpen ->
  (match mv with Some v => negb (v =? 0) && negb (v =? b_version b) | None => false end) = false ->
  find_runner b (so_sel o) = Some r -> r_status r = RActive ->
  (so_fok o && negb (so_repl o) && (so_size o <? minfill_of o)) = false ->
  (match so_side o with Back => so_price o < first_price (r_atb r) 10100 | Lay => first_price (r_atl r) 10000000 < so_price o end) ->
  let res := sim_place tb c ms b mv o in
  snd res = false /\ so_frags (fst res) = [] /\ so_matched (fst res) = 0 /\ so_lapsed (fst res) = so_size o /\ remaining (fst res) = 0.
Proof. exact bpe_off_lapses. Qed.
Print Assumptions C05_bpe_off_lapses.

(* resting case: whatever traded, a passive fill is at the order's own limit price *)
Theorem C05_passive_at_limit : forall tb pt ts o,
  let o' := fst (calc_traded tb pt ts o) in
  exists ext, so_frags o' = so_frags o ++ ext /\ Forall (fun f => f_price f = so_price o /\ f_pt f = pt) ext.
Proof. exact passive_fill_at_limit. Qed.
Print Assumptions C05_passive_at_limit.

Definition ex_order (sd : side) (p s : Z) (fok : bool) (mf : option Z) : sorder :=
  {| so_name := 1; so_strat := 0; so_market := 0; so_sel := 1; so_side := sd; so_type := TLimit; so_price := p; so_size := s;
     so_liab_n := 0; so_liab_d := 1; so_persist := PLapse; so_fok := fok; so_minfill := mf; so_repl := false;
     so_status := SPending; so_log := [SPending]; so_complete := false; so_bet := None; so_red := None; so_newprice := None;
     so_frags := []; so_matched := 0; so_avg := 0; so_cancelled := 0; so_lapsed := 0; so_voided := 0;
     so_mver := None; so_piq2 := 0; so_bsp := false; so_created := 0; so_placed := None; so_stat_t := 0; so_done_t := None; so_in_live := true |}.
Definition ex_book : book :=
  {| b_pt := 5; b_status := MOpen; b_version := 1; b_inplay := false; b_bsp_rec := false; b_delay := 0;
     b_runners := [{| r_sel := 1; r_status := RActive; r_adj := None; r_atb := [(30000, 200); (25000, 500); (20000, 1000)];
                      r_atl := [(31000, 300)]; r_trd := []; r_sp := None |}] |}.
(* ===================== whole runs ===================== *)
(* placement of an order that has no fragments yet: on EVERY path of SimulatedOrder.place (market not open, stale version, removed runner,
   best-price execution off, match on arrival down the ladder, rest in the queue, full-match clients) an ordinary limit order only receives
   fragments at its limit or better; a fill-or-kill order is outside (bounded on its average: C05_fok_vwap) *)
Theorem C05_placement_respects_limit_on_every_path : forall tb c ms b mv o, so_frags o = [] -> limI (fst (sim_place tb c ms b mv o)).
Proof. exact sim_place_limI. Qed.
Print Assumptions C05_placement_respects_limit_on_every_path.

(* WHOLE RUNS (same hypotheses as C04_run_conserves: books without removed runners and reconciled starting prices, every placement package
   finds its order as created - booleans evaluated by the harness on every scenario): after every prefix of the run, every fragment of every
   ordinary limit order of every market - matched on arrival, passively from traded volume at any later update, by a full-match client,
   on a replacement order - is at the order's limit price or better *)
Theorem C05_run_respects_limits : forall tb cf n sc es s m o f,
  (forall m0, In m0 (s_markets s) -> mk_orders m0 = []) ->
  forallb (event_b sc n) es = true -> run_guard_b tb cf n sc es s = true ->
  In m (s_markets (fold_left (step tb cf n sc) es s)) -> In o (mk_orders m) -> so_type o = TLimit -> so_fok o = false -> In f (so_frags o) ->
  match so_side o with Back => so_price o <= f_price f | Lay => f_price f <= so_price o end.
Proof. exact run_respects_limits. Qed.
Print Assumptions C05_run_respects_limits.

(* with static hypotheses only (see C04_run_conserves_static): configuration, initial state, books and script names *)
Theorem C05_run_respects_limits_static : forall tb cf n sc es s,
  cfg_ok_b cf = true -> initial_b s = true -> forallb (event_b2 sc n) es = true -> keys_ok_b sc n es = true ->
  forall m o f, In m (s_markets (fold_left (step tb cf n sc) es s)) -> In o (mk_orders m) -> so_type o = TLimit -> so_fok o = false -> In f (so_frags o) ->
  match so_side o with Back => so_price o <= f_price f | Lay => f_price f <= so_price o end.
Proof. exact run_respects_limits_static. Qed.
Print Assumptions C05_run_respects_limits_static.

(* non-vacuity: a run satisfying both boolean hypotheses in which a BACK order at 2.00 is matched on arrival at 2.00 and later passively at 2.00 *)
Definition c05_bk (pt : Z) (trd : list (Z * Z)) : book :=
  xbook pt MOpen 1 [xrunner 1 RActive None [(20000, 300)] [(21000, 500)] trd; xrunner 2 RActive None [(30000, 500)] [(32000, 500)] []].
Definition c05_script : script := script_of [(0, 1, 0, [APlace 1 1 Back (OLimit 20000 1000 PLapse false None) None])].
Definition c05_events : list event :=
  [{| ev_market := 1; ev_idx := 0; ev_book := c05_bk 1000 [] |}; {| ev_market := 1; ev_idx := 1; ev_book := c05_bk 1200 [] |};
   {| ev_market := 1; ev_idx := 2; ev_book := c05_bk 1400 [(20000, 300)] |}; {| ev_market := 1; ev_idx := 3; ev_book := c05_bk 1800 [(20000, 900)] |}].
Example C05_run_respects_limits_example :
  forallb (event_b c05_script 1) c05_events = true /\
  run_guard_b tb_up std_cfg 1 c05_script c05_events (sim0 [mkmarket 1 std_static]) = true /\
  map (fun m => map (fun o => (so_price o, map f_price (so_frags o))) (mk_orders m))
      (s_markets (fold_left (step tb_up std_cfg 1 c05_script) c05_events (sim0 [mkmarket 1 std_static]))) = [[(20000, [20000; 20000; 20000])]].
Proof. vm_compute. repeat split; reflexivity. Qed.

Example C05_nonvacuous :
  let c := {| c_bpe := true; c_full := false; c_min_bsp := 1000 |} in
  let ms := {| ms_bsp := true; ms_persist := true; ms_type := MWin |} in
  fresh (ex_order Back 25000 600 false None) /\
  map (fun f => (f_price f, f_size f)) (so_frags (fst (sim_place tb_up c ms ex_book None (ex_order Back 25000 600 false None)))) = [(30000, 200); (25000, 400)] /\
  so_matched (fst (sim_place tb_up c ms ex_book None (ex_order Back 25000 600 true (Some 800)))) = 0 /\
  so_matched (fst (sim_place tb_up c ms ex_book None (ex_order Back 22000 700 true (Some 600)))) = 700 /\
  so_avg (fst (sim_place tb_up c ms ex_book None (ex_order Back 22000 700 true (Some 600)))) = 26400.
Proof. vm_compute. repeat split; reflexivity. Qed.

(* C05 — Fills never breach the order's limit; fill-or-kill is all-or-nothing.  Statements only. *)
From Coq Require Import ZArith List Bool.
From V Require Import Model.Num Model.Status Model.Sim Proofs.SimPlaceP Proofs.SimPlaceP2.
Open Scope Z_scope.

(* an ordinary limit order on arrival: the new fragments are a prefix of the opposing ladder, all at the
   limit or better, each at the level's price and no larger than the level, in total <= the order size;
   for any book (any number of levels, gaps, empty sides) *)
Theorem C05_arrival_fills : forall tb c ms b mv o r,
  fresh o -> (so_fok o && negb (so_repl o)) = false -> c_full c = false -> find_runner b (so_sel o) = Some r ->
  wf_ladder (r_atb r) -> wf_ladder (r_atl r) ->
  let o' := fst (sim_place tb c ms b mv o) in
  let avail := match so_side o with Back => r_atb r | Lay => r_atl r end in
  exists fs, so_frags o' = map (fun ps => {| f_pt := b_pt b; f_price := fst ps; f_size := snd ps |}) fs /\
    Forall (fun ps => match so_side o with Back => so_price o <= fst ps | Lay => fst ps <= so_price o end) fs /\
    Forall2 (fun f lv => fst f = fst lv /\ 0 < snd f <= snd lv) fs (firstn (length fs) avail) /\
    0 <= sumZ (map snd fs) <= so_size o.
Proof. exact place_fills_from_book. Qed.
Print Assumptions C05_arrival_fills.

(* fill-or-kill: nothing remains, and the matched size is 0 or at least the minimum fill *)
Theorem C05_fok_all_or_nothing : forall tb c ms b mv o r,
  fresh o -> so_fok o = true -> so_repl o = false -> find_runner b (so_sel o) = Some r ->
  wf_ladder (r_atb r) -> wf_ladder (r_atl r) ->
  let o' := fst (sim_place tb c ms b mv o) in
  remaining o' = 0 /\ (so_matched o' = 0 \/ minfill_of o <= so_matched o').
Proof. exact fok_all_or_nothing. Qed.
Print Assumptions C05_fok_all_or_nothing.

(* fill-or-kill priced through the best price: the reported (2 dp) volume-weighted average of what is
   kept satisfies the limit; the exact statement carries the exchange's own 2 dp reporting *)
Theorem C05_fok_vwap : forall tb pt sd price size avail minfill o, fresh o ->
  let o' := vwap_matched tb pt sd price size avail minfill o in
  (so_frags o' = [] /\ so_matched o' = 0) \/
  (minfill <= so_matched o' /\ match sd with Back => price <= so_avg o' | Lay => so_avg o' <= price end).
Proof. exact vwap_all_or_nothing. Qed.
Print Assumptions C05_fok_vwap.

Theorem C05_bpe_off_lapses : forall tb c ms b mv o r,
  fresh o -> c_bpe c = false -> b_status b = MOpen ->
  (match mv with Some v => negb (v =? 0) && negb (v =? b_version b) | None => false end) = false ->
  find_runner b (so_sel o) = Some r -> r_status r = RActive ->
  (so_fok o && negb (so_repl o) && (so_size o <? minfill_of o)) = false ->
  (match so_side o with Back => so_price o < first_price (r_atb r) 10100 | Lay => first_price (r_atl r) 10000000 < so_price o end) ->
  let res := sim_place tb c ms b mv o in
  snd res = false /\ so_frags (fst res) = [] /\ so_matched (fst res) = 0 /\ so_lapsed (fst res) = so_size o /\ remaining (fst res) = 0.
Proof. exact bpe_off_lapses. Qed.
Print Assumptions C05_bpe_off_lapses.

(* resting case: whatever traded, a passive fill is at the order's own limit price *)
Theorem C05_passive_at_limit : forall tb pt ts o,
  let o' := fst (calc_traded tb pt ts o) in
  exists ext, so_frags o' = so_frags o ++ ext /\ Forall (fun f => f_price f = so_price o /\ f_pt f = pt) ext.
Proof. exact passive_fill_at_limit. Qed.
Print Assumptions C05_passive_at_limit.

Definition ex_order (sd : side) (p s : Z) (fok : bool) (mf : option Z) : sorder :=
  {| so_name := 1; so_strat := 0; so_market := 0; so_sel := 1; so_side := sd; so_type := TLimit; so_price := p; so_size := s;
     so_liab_n := 0; so_liab_d := 1; so_persist := PLapse; so_fok := fok; so_minfill := mf; so_repl := false;
     so_status := SPending; so_log := [SPending]; so_complete := false; so_bet := None; so_red := None; so_newprice := None;
     so_frags := []; so_matched := 0; so_avg := 0; so_cancelled := 0; so_lapsed := 0; so_voided := 0;
     so_mver := None; so_piq2 := 0; so_bsp := false; so_created := 0; so_placed := None; so_stat_t := 0; so_done_t := None; so_in_live := true |}.
Definition ex_book : book :=
  {| b_pt := 5; b_status := MOpen; b_version := 1; b_inplay := false; b_bsp_rec := false; b_delay := 0;
     b_runners := [{| r_sel := 1; r_status := RActive; r_adj := None; r_atb := [(30000, 200); (25000, 500); (20000, 1000)];
                      r_atl := [(31000, 300)]; r_trd := []; r_sp := None |}] |}.
Example C05_nonvacuous :
  let c := {| c_bpe := true; c_full := false; c_min_bsp := 1000 |} in
  let ms := {| ms_bsp := true; ms_persist := true; ms_type := MWin |} in
  fresh (ex_order Back 25000 600 false None) /\
  map (fun f => (f_price f, f_size f)) (so_frags (fst (sim_place tb_up c ms ex_book None (ex_order Back 25000 600 false None)))) = [(30000, 200); (25000, 400)] /\
  so_matched (fst (sim_place tb_up c ms ex_book None (ex_order Back 25000 600 true (Some 800)))) = 0 /\
  so_matched (fst (sim_place tb_up c ms ex_book None (ex_order Back 22000 700 true (Some 600)))) = 700 /\
  so_avg (fst (sim_place tb_up c ms ex_book None (ex_order Back 22000 700 true (Some 600)))) = 26400.
Proof. vm_compute. repeat split; reflexivity. Qed.

(* C18 — The transaction-limit control counts exactly and blocks when exceeded.  Statements only. *)
From Coq Require Import ZArith List Bool Permutation.
From V Require Import Model.Num Model.TxCount Proofs.TxCountP.
Open Scope Z_scope.

Theorem C18_totals : forall limit es s, tot_total (fst (run limit s es)) = tot_total s + adds_sum es.
Proof. exact totals_exact. Qed.
Print Assumptions C18_totals.

(* schedules at handler granularity: a batch of concurrently finishing executions, in any order *)
Theorem C18_concurrent_adds : forall limit s a b,
  Permutation a b -> only_adds a -> fst (run limit s a) = fst (run limit s b).
Proof. exact concurrent_adds_any_order. Qed.
Print Assumptions C18_concurrent_adds.

Theorem C18_restart : forall s now,
  let s' := check_hour s now in
  next_hour s' = Some (hour_of now + 1) /\
  ((next_hour s = Some (hour_of now + 1) /\ s' = s) \/
   (next_hour s <> Some (hour_of now + 1) /\ cur s' = 0 /\ cur_failed s' = 0 /\ tot s' = tot s /\ tot_failed s' = tot_failed s)).
Proof. exact restart_iff_new_clock_hour. Qed.
Print Assumptions C18_restart.

Theorem C18_hourly : forall limit s now es,
  in_hour (hour_of now) es ->
  let s0 := check_hour s now in
  let s' := fst (run limit s0 es) in
  cur_total s' = cur_total s0 + adds_sum es.
Proof. exact hourly_counts_since_restart. Qed.
Print Assumptions C18_hourly.

Theorem C18_block : forall limit l h es s,
  limit = Some l -> next_hour s = Some (h + 1) -> l < cur_total s -> in_hour h es -> adds_ok es ->
  Forall (fun o => match o with Some true => False | _ => True end)
         (map (fun eo => match fst eo with Req _ true => None | _ => snd eo end) (combine es (snd (run limit s es)))).
Proof. exact blocked_until_new_hour. Qed.
Print Assumptions C18_block.

Theorem C18_unblock : forall l s now, 0 <= l -> next_hour s <> Some (hour_of now + 1) ->
  let '(s', ok) := validate (Some l) s now in ok = true /\ cur_total s' = 0.
Proof. exact new_hour_unblocks. Qed.
Print Assumptions C18_unblock.

Theorem C18_no_limit : forall s now, snd (validate None s now) = true.
Proof. exact no_limit_never_blocks. Qed.
Theorem C18_forced : forall limit s now, step limit s (Req now true) = (s, Some true).
Proof. exact forced_bypasses. Qed.

Theorem C18_count_sites : forall k len nfail s limit, 0 <= nfail ->
  tot_total (fst (run limit s (charges k len nfail))) =
  tot_total s + match k with PPlace => len | PCancel | PUpdate => nfail | PReplace => len + nfail end.
Proof. exact charges_total. Qed.
Print Assumptions C18_count_sites.

Example C18_nonvacuous :
  let es := [Req 1000 false; Add 3 false; Add 2 true; Req 2000 false; Req 3000 true; Req 3599999 false; Req 3600000 false] in
  snd (run (Some 4) tx0 es) = [Some true; None; None; Some false; Some true; Some false; Some true] /\
  cur_total (fst (run (Some 4) tx0 es)) = 0 /\ tot_total (fst (run (Some 4) tx0 es)) = 5.
Proof. vm_compute. repeat split; reflexivity. Qed.

(* C03 — Order lifecycle: one operation in flight, legal transitions, finality (live half: BetfairOrder guards, BetfairExecution
   handlers, process_current_orders; simulated half: whole runs of the simulation loop, Proofs/SimLifeP.v).  Statements only.  The simulated
   half is also checked on the simulation model by correspondence and an independent transition checker (harness/propcheck.py c03). *)
From Coq Require Import ZArith List Bool.
From V Require Import Model.Num Model.Status Model.Live Gen.StatusC Proofs.LiveP.
From V Require Model.Sim Model.SimLoop Model.SimGuard Model.SimCases Model.Examples Proofs.SimResetP Proofs.SimLinkP Proofs.SimAwaitP Proofs.SimLifeP Proofs.SimFrozenP Model.Betdaq Proofs.BetdaqP.
From V Require Import Model.Guards Proofs.GuardsP.
Open Scope Z_scope.

(* guards of BOTH order classes (BetfairOrder, BetdaqOrder) and all three order types, as a decision table compared exhaustively with the
   real objects (class x type x every status x bet id known or not x request): a request is accepted only on an order resting Executable with a
   known bet id and a compatible type, and moves it to the matching transient status; everything else is rejected *)
Theorem C03_guard_accepts : forall c t st bet r st', guard c t st bet r = Some st' ->
  st = SExecutable /\ bet = true /\
  (match r with GCancel | GCancelReduce _ => st' = SCancelling /\ t = TyLimit
              | GUpdate _ => st' = SUpdating /\ t = TyLimit
              | GReplace _ => st' = SReplacing /\ (t = TyLimit \/ t = TyLoc) /\ c = OBetfair end).
Proof. exact guard_accepts. Qed.
Theorem C03_guard_rejects_in_flight_or_complete : forall c t st bet r, st <> SExecutable -> guard c t st bet r = None.
Proof. exact guard_rejects_unless_executable. Qed.
Theorem C03_guard_rejects_without_bet_id : forall c t st r, guard c t st false r = None.
Proof. exact guard_rejects_without_bet. Qed.
Print Assumptions C03_guard_accepts.

(* live model: a cancel / update / replace is accepted only on an order resting Executable with a known bet id; otherwise the state is
   untouched (the Python raises OrderUpdateError) - hence no second operation while one is in flight *)
Theorem C03_request_rejected_without_side_effects : forall s n k p o,
  oget n (ls_orders s) = Some o -> (lo_status o <> SExecutable \/ lo_bet o = None) -> req_other s n k p = s.
Proof. exact req_other_guard. Qed.
Theorem C03_request_on_unknown_order : forall s n k p, oget n (ls_orders s) = None -> req_other s n k p = s.
Proof. exact req_other_unknown. Qed.
Theorem C03_request_accepted : forall s n k p o b, oget n (ls_orders s) = Some o -> lo_status o = SExecutable -> lo_bet o = Some b ->
  ostat (req_other s n k p) n = Some (if k =? 0 then SCancelling else if k =? 1 then SUpdating else SReplacing) /\
  (forall m, m <> n -> ostat (req_other s n k p) m = ostat s m).
Proof. exact req_other_accepts. Qed.
Print Assumptions C03_request_accepted.

(* transitions: every status written by a response (any outcome), by exhausted retries or by the order stream is Executable or
   Execution complete, for every order (each order either keeps its status or gets one of the two); from any live status that is a
   documented transition *)
Theorem C03_answers_write_only_final : forall s e, is_answer e = true -> wrote_final s (lstep s e).
Proof. exact answers_write_only_final. Qed.
Print Assumptions C03_answers_write_only_final.
Theorem C03_final_write_is_legal : forall a b, live_status a = true -> In (Some b) final2 -> legal a b = true \/ (a = SExecutable /\ b = SExecutable).
Proof. exact final_write_is_legal. Qed.

(* finality with respect to the order stream: a row acts on Pending and Executable orders only; a complete order keeps its status *)
Theorem C03_stream_never_reopens : forall s n r o k,
  oget n (ls_orders s) = Some o -> lo_status o <> SPending -> lo_status o <> SExecutable -> ostat (apply_row s n r) k = ostat s k.
Proof. exact apply_row_keeps_status_of_complete. Qed.
Print Assumptions C03_stream_never_reopens.

(* finality with respect to responses does NOT hold in the model, whose exchange is unconstrained: a response that arrives for an order
   the stream has completed re-opens it (F-C03-2).  Against an exchange double that answers consistently with its own bet table the
   situation did not arise (an async placement is answered PENDING; the stream does not touch orders with a request in flight). *)
Theorem C03_finality_refuted_for_late_responses :
  exists es n, let o := oget n (ls_orders (lrun (lstate0 COMPLETE_STATUS) es)) in
    option_map lo_log o = Some [SPending; SExecComplete; SExecutable].
Proof.
  exists [LPlace 0 0 0 101 500 200 true;
          LSnapshot [{| sr_name := 0; sr_strategy := Some 0; sr_sel := 101; sr_row := {| rw_bet := 7001; rw_complete := true; rw_matched := 500; rw_remaining := 0; rw_cancelled := 0 |}; sr_size := 500; sr_price := 200 |}];
          LResponsePlace [0] [PSuccess 0 (Some 7001) 0]], 0.
  vm_compute. reflexivity.
Qed.
(* a control refusing a request leaves the placed order alone (since the repair of F-C02-1, fix: commit 2b78b6a) *)
Theorem C03_refusal_leaves_order : forall s n, lstep s (LRefused n) = s.
Proof. reflexivity. Qed.

(* simulation (Model/SimLoop.v exec_pkg): the answer to a cancel / update / replace - SUCCESS or FAILURE, and the failed placement leg of
   a replace - goes through reset_order, which leaves an order that completed during the latency window as it is.  On the pinned tree
   these branches called order.executable() unconditionally (findings F-C03-1, F-C03-3); repaired in /repo. *)
Theorem C03_sim_answer_never_reopens : forall cs now o, Sim.so_status o = SExecComplete -> SimLoop.reset_order cs now o = o.
Proof. exact SimResetP.reset_order_keeps_complete. Qed.
Theorem C03_sim_answer_log : forall cs now o,
  Sim.so_log (SimLoop.reset_order cs now o) = Sim.so_log o \/
  (Sim.so_status o <> SExecComplete /\ Sim.so_log (SimLoop.reset_order cs now o) = Sim.so_log o ++ [SExecutable]).
Proof. exact SimResetP.reset_order_log. Qed.
Print Assumptions C03_sim_answer_log.

(* ---- simulation, WHOLE RUNS (Proofs/SimLifeP.v; induction over arbitrary event lists, any number of markets, strategies, orders) ----
   Hypotheses, all decidable from the scenario alone (Model/SimGuard.v; evaluated on the generated scenarios of harness/c03.py): the configuration
   matches no Pending / Execution complete order (cfg_ok_b), the run starts from markets without orders (initial_b), books are in the domain of
   the whole-run development (event_b2: no starting-price reconciliation, no removed runner, non-negative bet delay; requests well-formed),
   sizes are the ones the order validation control accepts (event_b3: strictly positive), each (market, name) is placed once (keys_ok_b).
   (1) every status an order has passed through follows the documented lifecycle and its status is the last entry of the log *)
Theorem C03_sim_run_lifecycle_legal : forall tb cf n sc es s,
  SimGuard.cfg_ok_b cf = true -> SimGuard.initial_b s = true -> forallb (SimGuard.event_b2 sc n) es = true -> forallb (SimGuard.event_b3 sc n) es = true ->
  SimGuard.keys_ok_b sc n es = true -> forall m o,
  In m (SimLoop.s_markets (fold_left (SimLoop.step tb cf n sc) es s)) -> In o (SimLoop.mk_orders m) ->
  SimGuard.lifecycle_path SNone (Sim.so_log o) = true /\ last (Sim.so_log o) SNone = Sim.so_status o.
Proof. exact SimLifeP.run_lifecycle_legal_static. Qed.
Print Assumptions C03_sim_run_lifecycle_legal.
(* (2) finality: whatever follows Execution complete in a status log is Execution complete, and the order is complete now *)
Theorem C03_sim_run_complete_is_final : forall tb cf n sc es s,
  SimGuard.cfg_ok_b cf = true -> SimGuard.initial_b s = true -> forallb (SimGuard.event_b2 sc n) es = true -> forallb (SimGuard.event_b3 sc n) es = true ->
  SimGuard.keys_ok_b sc n es = true -> forall m o l1 l2,
  In m (SimLoop.s_markets (fold_left (SimLoop.step tb cf n sc) es s)) -> In o (SimLoop.mk_orders m) -> Sim.so_log o = l1 ++ SExecComplete :: l2 ->
  Forall (eq SExecComplete) l2 /\ Sim.so_status o = SExecComplete.
Proof. exact SimLifeP.run_complete_is_final_static. Qed.
Print Assumptions C03_sim_run_complete_is_final.
(* (3) at most one operation per order is outstanding: no two packages of the queue name the same order *)
Theorem C03_sim_run_one_operation_outstanding : forall tb cf n sc es s,
  SimGuard.cfg_ok_b cf = true -> SimGuard.initial_b s = true -> forallb (SimGuard.event_b2 sc n) es = true -> forallb (SimGuard.event_b3 sc n) es = true ->
  SimGuard.keys_ok_b sc n es = true ->
  NoDup (map SimLinkP.pkey (SimLoop.s_queue (fold_left (SimLoop.step tb cf n sc) es s))).
Proof. exact SimLifeP.run_one_operation_outstanding_static. Qed.
Print Assumptions C03_sim_run_one_operation_outstanding.
(* (4) a cancel / update / replace in flight names an order that rests at the exchange with a known bet id and is in exactly that transient
   status - or has completed while the request was in flight *)
Theorem C03_sim_run_request_in_flight : forall tb cf n sc es s,
  SimGuard.cfg_ok_b cf = true -> SimGuard.initial_b s = true -> forallb (SimGuard.event_b2 sc n) es = true -> forallb (SimGuard.event_b3 sc n) es = true ->
  SimGuard.keys_ok_b sc n es = true -> forall p m o,
  let sf := fold_left (SimLoop.step tb cf n sc) es s in
  In p (SimLoop.s_queue sf) -> SimLoop.pk_kind p <> SimLoop.KPlace -> In m (SimLoop.s_markets sf) -> SimLoop.mk_id m = SimLoop.pk_market p ->
  In o (SimLoop.mk_orders m) -> Sim.so_name o = SimLoop.pk_order p ->
  Sim.so_bet o <> None /\ (SimAwaitP.awaits (Sim.so_status o) (SimLoop.pk_kind p) \/ Sim.so_status o = SExecComplete).
Proof. exact SimLifeP.run_request_in_flight_static. Qed.
Print Assumptions C03_sim_run_request_in_flight.
(* (0) in the simulation too a cancel / update / replace of an order that does not rest Executable with a known bet id - or that the market does
   not hold - leaves the whole state (orders, queue, counters) exactly as it was *)
Theorem C03_sim_request_rejected_without_side_effects : forall cf now st mid s a name m o,
  SimLifeP.manages a = Some name -> SimLoop.get_market mid (SimLoop.s_markets s) = Some m -> SimLoop.get_order name (SimLoop.mk_orders m) = Some o ->
  Sim.so_status o <> SExecutable \/ Sim.so_bet o = None -> SimLoop.request0 cf now st mid s a = s.
Proof. exact SimLifeP.request0_rejected_is_identity. Qed.
Theorem C03_sim_request_on_unknown_order : forall cf now st mid s a name m,
  SimLifeP.manages a = Some name -> SimLoop.get_market mid (SimLoop.s_markets s) = Some m -> SimLoop.get_order name (SimLoop.mk_orders m) = None ->
  SimLoop.request0 cf now st mid s a = s.
Proof. exact SimLifeP.request0_unknown_is_identity. Qed.
Print Assumptions C03_sim_request_rejected_without_side_effects.
(* (5) finality of the sizes: an order that is complete after a prefix of a run has the same status, matched size and fragments after the whole run *)
Theorem C03_sim_run_matched_frozen_after_completion : forall tb cf n sc es1 es2 s,
  SimGuard.cfg_ok_b cf = true -> SimGuard.initial_b s = true -> forallb (SimGuard.event_b2 sc n) (es1 ++ es2) = true ->
  forallb (SimGuard.event_b3 sc n) (es1 ++ es2) = true -> SimGuard.keys_ok_b sc n (es1 ++ es2) = true -> forall m o,
  In m (SimLoop.s_markets (fold_left (SimLoop.step tb cf n sc) es1 s)) -> In o (SimLoop.mk_orders m) -> Sim.so_status o = SExecComplete ->
  exists m' o', In m' (SimLoop.s_markets (fold_left (SimLoop.step tb cf n sc) (es1 ++ es2) s)) /\ SimLoop.mk_id m' = SimLoop.mk_id m /\
                In o' (SimLoop.mk_orders m') /\ Sim.so_name o' = Sim.so_name o /\
                Sim.so_status o' = SExecComplete /\ Sim.so_matched o' = Sim.so_matched o /\ Sim.so_frags o' = Sim.so_frags o.
Proof. exact SimFrozenP.run_matched_frozen_after_completion_static. Qed.
Print Assumptions C03_sim_run_matched_frozen_after_completion.
(* non-vacuity: a run that satisfies the five hypotheses, with a cancel in flight after four updates and completed after five *)
Definition c03_bk (pt : Z) : Sim.book := Examples.xbook pt Sim.MOpen 1 [Examples.xrunner 1 Sim.RActive None [(20000, 300)] [(21000, 500)] []].
Definition c03_script : SimLoop.script :=
  SimCases.script_of [(0, 1, 0, [SimLoop.APlace 1 1 Back (SimLoop.OLimit 20600 1000 Sim.PLapse false None) None]);
                      (0, 1, 2, [SimLoop.ACancel 1 None]); (0, 1, 3, [SimLoop.AUpdate 1 Sim.PPersist])].
Definition c03_ev (i pt : Z) : SimLoop.event := {| SimLoop.ev_market := 1; SimLoop.ev_idx := i; SimLoop.ev_book := c03_bk pt |}.
Definition c03_init : SimLoop.sim := SimCases.sim0 [SimCases.mkmarket 1 Examples.std_static].
Definition c03_es := [c03_ev 0 1000; c03_ev 1 1200; c03_ev 2 1400; c03_ev 3 1500; c03_ev 4 1600].
Example C03_sim_run_example :
  let view s := (map (fun m => map (fun o => (Sim.so_name o, Sim.so_status o, Sim.so_log o)) (SimLoop.mk_orders m)) (SimLoop.s_markets s), map SimLoop.pk_kind (SimLoop.s_queue s)) in
  SimGuard.cfg_ok_b Examples.std_cfg = true /\ SimGuard.initial_b c03_init = true /\ forallb (SimGuard.event_b2 c03_script 1) c03_es = true /\
  forallb (SimGuard.event_b3 c03_script 1) c03_es = true /\ SimGuard.keys_ok_b c03_script 1 c03_es = true /\
  view (fold_left (SimLoop.step tb_up Examples.std_cfg 1 c03_script) (firstn 4 c03_es) c03_init) = ([[(1, SCancelling, [SPending; SExecutable; SCancelling])]], [SimLoop.KCancel]) /\
  view (fold_left (SimLoop.step tb_up Examples.std_cfg 1 c03_script) c03_es c03_init) = ([[(1, SExecComplete, [SPending; SExecutable; SCancelling; SExecComplete])]], []).
Proof. vm_compute. repeat split; reflexivity. Qed.

(* ---- the BETDAQ order class (Model/Betdaq.v: BetdaqExecution handlers, process_betdaq_current_order, BetdaqOrder guards; the exchange unconstrained:
   receipts, error codes, failed calls, poll rows of any content at any time; an answer is an event only while its request is outstanding).
   Tied to the code by harness/impl/betdaqlib.py, which records the events in the order the real handlers process them.
   (1) every status log follows the documented lifecycle and ends in the order's status *)
Theorem C03_betdaq_lifecycle_legal : forall es,
  SimGuard.lifecycle_path SNone (Betdaq.bo_log (Betdaq.brun es)) = true /\ last (Betdaq.bo_log (Betdaq.brun es)) SNone = Betdaq.bo_status (Betdaq.brun es).
Proof. exact BetdaqP.betdaq_lifecycle_legal. Qed.
Print Assumptions C03_betdaq_lifecycle_legal.
(* (2) an order reported complete stays complete whatever arrives later - also the late answer to a request that was in flight (after the repair of
   F-C03-4: the handlers' reset goes through _reset_order) *)
Theorem C03_betdaq_complete_is_final : forall es1 es2,
  Betdaq.bo_status (Betdaq.brun es1) = SExecComplete -> Betdaq.bo_status (Betdaq.brun (es1 ++ es2)) = SExecComplete.
Proof. exact BetdaqP.betdaq_complete_is_final. Qed.
Print Assumptions C03_betdaq_complete_is_final.
(* (3) a request on an order that does not rest Executable with a known id changes nothing *)
Theorem C03_betdaq_request_rejected : forall o, Betdaq.bo_status o <> SExecutable \/ Betdaq.bo_bet o = false ->
  Betdaq.bstep o Betdaq.BReqUpdate = o /\ Betdaq.bstep o Betdaq.BReqCancel = o.
Proof. exact BetdaqP.betdaq_request_rejected. Qed.
Print Assumptions C03_betdaq_request_rejected.
(* (4) ... and a request that changes anything was made on an order resting Executable with an id: it moves the order to exactly the requested status
   and registers exactly one more outstanding call of its own kind *)
Theorem C03_betdaq_request_accepted : forall o,
  (Betdaq.bstep o Betdaq.BReqUpdate <> o -> Betdaq.bo_status o = SExecutable /\ Betdaq.bo_bet o = true /\ Betdaq.bo_status (Betdaq.bstep o Betdaq.BReqUpdate) = SUpdating /\
     Betdaq.bo_upd_out (Betdaq.bstep o Betdaq.BReqUpdate) = S (Betdaq.bo_upd_out o) /\ Betdaq.bo_can_out (Betdaq.bstep o Betdaq.BReqUpdate) = Betdaq.bo_can_out o) /\
  (Betdaq.bstep o Betdaq.BReqCancel <> o -> Betdaq.bo_status o = SExecutable /\ Betdaq.bo_bet o = true /\ Betdaq.bo_status (Betdaq.bstep o Betdaq.BReqCancel) = SCancelling /\
     Betdaq.bo_can_out (Betdaq.bstep o Betdaq.BReqCancel) = S (Betdaq.bo_can_out o) /\ Betdaq.bo_upd_out (Betdaq.bstep o Betdaq.BReqCancel) = Betdaq.bo_upd_out o).
Proof. exact BetdaqP.betdaq_request_accepted. Qed.
Print Assumptions C03_betdaq_request_accepted.
(* (5) the status log is a history: whatever arrives later only appends to it (at most one entry per event), nothing already logged is rewritten *)
Theorem C03_betdaq_log_append_only : forall es1 es2,
  exists l, Betdaq.bo_log (Betdaq.brun (es1 ++ es2)) = Betdaq.bo_log (Betdaq.brun es1) ++ l /\ (length l <= length es2)%nat.
Proof. exact BetdaqP.betdaq_log_append_only. Qed.
Print Assumptions C03_betdaq_log_append_only.
(* (6) while the placement is unanswered the order rests Pending, without an id, with nothing else in flight - in every reachable state *)
Theorem C03_betdaq_unanswered_placement_is_pending : forall es, Betdaq.bo_place_out (Betdaq.brun es) = true ->
  Betdaq.bo_status (Betdaq.brun es) = SPending /\ Betdaq.bo_bet (Betdaq.brun es) = false /\ Betdaq.bo_upd_out (Betdaq.brun es) = O /\ Betdaq.bo_can_out (Betdaq.brun es) = O.
Proof. exact BetdaqP.betdaq_unanswered_placement_is_pending. Qed.
Print Assumptions C03_betdaq_unanswered_placement_is_pending.
(* (7) the id the exchange gave the order is never lost again *)
Theorem C03_betdaq_bet_id_kept : forall es1 es2, Betdaq.bo_bet (Betdaq.brun es1) = true -> Betdaq.bo_bet (Betdaq.brun (es1 ++ es2)) = true.
Proof. exact BetdaqP.betdaq_bet_id_kept. Qed.
Print Assumptions C03_betdaq_bet_id_kept.
Example C03_betdaq_example2 :
  let o := Betdaq.brun [Betdaq.BPoll false true; Betdaq.BReqCancel] in Betdaq.bo_place_out o = true /\ Betdaq.bo_log o = [SPending] /\
  Betdaq.bstep (Betdaq.brun [Betdaq.BReceipt true]) Betdaq.BReqCancel <> Betdaq.brun [Betdaq.BReceipt true] /\ Betdaq.bo_bet (Betdaq.brun [Betdaq.BReceipt true]) = true.
Proof. cbn. repeat split; try reflexivity. discriminate. Qed.
Example C03_betdaq_example :
  Betdaq.bo_log (Betdaq.brun [Betdaq.BReceipt true; Betdaq.BReqUpdate; Betdaq.BPoll true true; Betdaq.BUpdateAnswer true; Betdaq.BReqCancel]) = [SPending; SExecutable; SUpdating; SExecComplete].
Proof. reflexivity. Qed.

(* non-vacuity *)
Example C03_example : let s := lrun (lstate0 COMPLETE_STATUS) [LPlace 0 0 0 101 500 200 false; LResponsePlace [0] [PSuccess 0 (Some 7001) 0]; LReq 0 0 0] in
  ostat s 0 = Some SCancelling /\ req_other s 0 2 300 = s /\ ostat (lstep s (LResponseCancel [0] [(7001, CSuccess 500)])) 0 = Some SExecComplete.
Proof. vm_compute. repeat split. Qed.

(* C06 — Passive liquidity is never double counted; queue position is honoured.  Statements only. *)
From Coq Require Import ZArith List Bool Permutation.
From V Require Import Model.Num Model.Status Model.Sim Model.SimLoop Gen.StatusC
  Proofs.SimPlaceP Proofs.SimTradedP Proofs.SimSortP.
Open Scope Z_scope.

(* 1. a lone resting order, over ANY sequence of traded amounts at prices at or through its limit
      (across prices and updates), queue of piq2/2 ahead of it at arrival:
      exact when the halved amounts are whole pennies ... *)
Theorem C06_lone_exact : forall tb tss piq2 rem,
  0 <= rem -> 0 <= piq2 -> Z.even piq2 = true -> Forall (fun ts => 0 <= ts /\ Z.even ts = true) tss ->
  let '(q, rm, tot) := lone_run tb piq2 rem tss in
  tot = Z.min rem (Z.max 0 ((sumZ tss - piq2) / 2)) /\ rm = rem - tot /\ q = Z.max 0 (piq2 - sumZ tss).
Proof. exact lone_order_exact. Qed.
Print Assumptions C06_lone_exact.
(*    ... and within half a penny per fill otherwise, for every tie-break; nothing before the queue has traded *)
Theorem C06_lone_bounds : forall tb tss piq2 rem,
  0 <= rem -> 0 <= piq2 -> Forall (fun ts => 0 <= ts) tss ->
  let '(q, rm, tot) := lone_run tb piq2 rem tss in
  0 <= tot <= rem /\ rm = rem - tot /\ 2 * tot <= Z.max 0 (sumZ tss - piq2) + Z.of_nat (length tss) /\
  (sumZ tss <= piq2 -> tot = 0).
Proof. exact lone_order_bounds. Qed.
Print Assumptions C06_lone_bounds.

(* the model's order-level step IS that abstract step (refinement) *)
Theorem C06_calc_traded_refines : forall tb pt ts o, frags_ok o -> 0 <= remaining o -> 0 <= so_piq2 o ->
  let '(o', m) := calc_traded tb pt ts o in
  frags_ok o' /\ so_piq2 o' = piq_after (so_piq2 o) ts /\ m = returned tb (so_piq2 o) (remaining o) ts /\
  so_matched o' = so_matched o + fill_of tb (so_piq2 o) (remaining o) ts /\
  remaining o' = remaining o - fill_of tb (so_piq2 o) (remaining o) ts /\
  so_price o' = so_price o /\ so_side o' = so_side o.
Proof. exact calc_traded_abs. Qed.
Print Assumptions C06_calc_traded_refines.

(* 2. one order against the traded volume of one update: only eligible prices are consumed, nothing
      goes negative, and twice the fill is covered by what it consumed (+ half a penny per price) *)
Theorem C06_one_order : forall tb pt tr o, frags_ok o -> 0 <= remaining o -> 0 <= so_piq2 o ->
  Forall (fun e => 0 <= snd e) tr ->
  let '(o', tr') := process_traded tb pt tr o in
  frags_ok o' /\ 0 <= remaining o' /\ 0 <= so_piq2 o' /\ so_price o' = so_price o /\ so_side o' = so_side o /\
  map fst tr' = map fst tr /\ Forall (fun e => 0 <= snd e) tr' /\
  Forall2 (fun e e' => snd e' <= snd e /\ (eligible o (fst e) = false -> snd e' = snd e)) tr tr' /\
  so_matched o <= so_matched o' /\
  2 * (so_matched o' - so_matched o) <= (sumZ (map snd tr) - sumZ (map snd tr')) + Z.of_nat (length tr) /\
  remaining o' = remaining o - (so_matched o' - so_matched o).
Proof. exact process_traded_spec. Qed.
Print Assumptions C06_one_order.

(*    any number of orders sharing ONE copy of the traded volume (one strategy; all strategies when
      isolation is off): the total filled never exceeds half the traded volume of the update *)
Theorem C06_no_double_counting : forall tb pt os tr,
  Forall (fun o => frags_ok o /\ 0 <= remaining o /\ 0 <= so_piq2 o) os -> Forall (fun e => 0 <= snd e) tr ->
  let '(os', tr') := many_orders tb pt tr os in
  Forall (fun e => 0 <= snd e) tr' /\ length os' = length os /\
  2 * (total_matched os' - total_matched os) <= (sumZ (map snd tr) - sumZ (map snd tr')) + Z.of_nat (length tr * length os) /\
  2 * (total_matched os' - total_matched os) <= sumZ (map snd tr) + Z.of_nat (length tr * length os).
Proof. exact no_double_counting. Qed.
Print Assumptions C06_no_double_counting.

(* 3. priority: the better price for the other side is served first *)
Theorem C06_priority : forall l,
  Permutation (sort_orders l) l /\
  exists lays backs mocs, sort_orders l = lays ++ backs ++ mocs /\
    key_sorted (fun o => - so_price o) lays /\ key_sorted so_price backs /\
    Forall (fun o => so_side o = Lay /\ is_moc o = false) lays /\
    Forall (fun o => so_side o = Back /\ is_moc o = false) backs /\ Forall (fun o => is_moc o = true) mocs.
Proof. exact sort_orders_spec. Qed.
Print Assumptions C06_priority.

(* 4. only after arrival: an order still awaiting its acknowledgement is never handed to the matcher (the
      middleware's live statuses are regenerated from the source), and a runner seen for the first time
      reports no traded increment *)
Theorem C06_pending_not_matched : status_in SPending MW_LIVE_STATUS = false.
Proof. reflexivity. Qed.
Theorem C06_first_sight_no_increment : forall r, an_traded (analytics_step r None) = [].
Proof. reflexivity. Qed.

Example C06_nonvacuous :
  lone_run tb_up 400 1000 [200; 100; 300; 600] = (0, 600, 400) /\
  lone_run tb_up 0 1000 [5] = (0, 997, 3) /\ lone_run tb_down 0 1000 [5] = (0, 998, 2).
Proof. vm_compute. repeat split; reflexivity. Qed.

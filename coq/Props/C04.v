(* C04 — Simulated order sizes are conserved.  Statements only.
   In the code as in the model, size_remaining is DEFINED as size - matched - cancelled - lapsed - voided, so
   the identity itself is definitional; the content of the property is that matched and remaining stay
   non-negative, that every primitive only moves size between the buckets, and that completeness follows
   "nothing remains".  [good] packages exactly that. *)
From Coq Require Import ZArith List Bool.
From V Require Import Model.Num Model.Status Model.Sim Model.SimLoop Model.Examples
  Proofs.SimPlaceP Proofs.SimPlaceP2 Proofs.SimTradedP Proofs.SimBucketsP Proofs.SimLiftP Model.SimGuard Proofs.SimRunP Proofs.SimStaticP.
Open Scope Z_scope.

Theorem C04_good_is_conserved : forall o, good o ->
  so_size o = so_matched o + remaining o + so_cancelled o + so_lapsed o + so_voided o /\ 0 <= so_matched o /\ 0 <= remaining o.
Proof. exact good_conserved. Qed.
Print Assumptions C04_good_is_conserved.

(* LIFT to the matching loop of a market update: for ANY number of orders and strategies (isolation on), any traded volume with non-negative
   amounts, a book that does not reconcile starting prices: after the whole matching of the update every limit order of the market is still
   consistent (ok_order: positive fragments summing to the matched size, remaining >= 0, queue position >= 0); the completion sweep and a
   simulated cancel keep it so.  (The lift over whole runs is C04_run_conserves at the end of this file; starting-price conversion and runner removal are outside it and are
   covered by the per-primitive theorems below and the correspondence.) *)
Theorem C04_matching_keeps_orders_consistent : forall tb cf b ans os, cf_isolation cf = true -> b_bsp_rec b = false ->
  Forall ok_order os -> Forall (fun a => ok_traded (an_traded a)) ans -> Forall ok_order (process_sim_orders tb cf b ans os).
Proof. exact process_sim_orders_ok. Qed.
Theorem C04_sweep_keeps_orders_consistent : forall cf now os, Forall ok_order os -> Forall ok_order (completion_sweep cf now os).
Proof. exact completion_sweep_ok. Qed.
Theorem C04_cancel_keeps_order_consistent : forall b o, ok_order o -> (match so_red o with Some x => 0 <= x | None => True end) -> ok_order (fst (fst (sim_cancel b o))).
Proof. exact sim_cancel_ok. Qed.
Print Assumptions C04_matching_keeps_orders_consistent.

(* cancel - full, partial, or larger than the remainder: moves min(reduction, remaining) into 'cancelled' *)
Theorem C04_cancel : forall b o, good o -> (match so_red o with Some x => 0 <= x | None => True end) ->
  let '(o', ok, c) := sim_cancel b o in
  (ok = false -> o' = o) /\
  (ok = true -> good o' /\ 0 <= c <= remaining o /\
                c = (match so_red o with Some x => if x =? 0 then remaining o else Z.min x (remaining o) | None => remaining o end) /\
                so_cancelled o' = so_cancelled o + c /\ remaining o' = remaining o - c /\
                so_matched o' = so_matched o /\ so_lapsed o' = so_lapsed o /\ so_voided o' = so_voided o /\ so_frags o' = so_frags o).
Proof. exact cancel_moves_size. Qed.
Print Assumptions C04_cancel.

(* passive fill: moves the fill from remaining to matched, never more than remains, matched never decreases *)
Theorem C04_passive_fill : forall tb pt ts o, frags_ok o -> 0 <= remaining o -> 0 <= so_piq2 o ->
  let '(o', m) := calc_traded tb pt ts o in
  frags_ok o' /\ so_piq2 o' = piq_after (so_piq2 o) ts /\ m = returned tb (so_piq2 o) (remaining o) ts /\
  so_matched o' = so_matched o + fill_of tb (so_piq2 o) (remaining o) ts /\
  remaining o' = remaining o - fill_of tb (so_piq2 o) (remaining o) ts /\
  so_price o' = so_price o /\ so_side o' = so_side o.
Proof. exact calc_traded_abs. Qed.
Theorem C04_fill_bounds : forall tb piq2 rem ts, 0 <= rem -> 0 <= piq2 ->
  0 <= fill_of tb piq2 rem ts <= rem /\ 2 * fill_of tb piq2 rem ts <= Z.max 0 (ts - piq2) + 1.
Proof. exact fill_bounds. Qed.
Print Assumptions C04_fill_bounds.

(* aggressive fills on arrival: a fragment of size s with 0 < s <= remaining moves s from remaining to matched *)
Theorem C04_fragment : forall tb o pt p s, good o -> 0 < p -> 0 < s <= remaining o ->
  good (add_frag tb o pt p s) /\ so_matched (add_frag tb o pt p s) = so_matched o + s /\
  remaining (add_frag tb o pt p s) = remaining o - s /\
  so_cancelled (add_frag tb o pt p s) = so_cancelled o /\ so_lapsed (add_frag tb o pt p s) = so_lapsed o /\
  so_voided (add_frag tb o pt p s) = so_voided o /\ so_size (add_frag tb o pt p s) = so_size o.
Proof. exact good_add_frag. Qed.
Print Assumptions C04_fragment.

(* fill-or-kill: nothing remains after the placement (unfilled part cancelled at once) *)
Theorem C04_fok : forall tb c ms b mv o r,
  fresh o -> so_fok o = true -> so_repl o = false -> find_runner b (so_sel o) = Some r ->
  wf_ladder (r_atb r) -> wf_ladder (r_atl r) ->
  let o' := fst (sim_place tb c ms b mv o) in
  remaining o' = 0 /\ (so_matched o' = 0 \/ minfill_of o <= so_matched o').
Proof. exact fok_all_or_nothing. Qed.

(* lapse on suspension with a market-version change *)
Theorem C04_lapse : forall tb c b r tr o, good o -> so_bsp o = true \/ b_bsp_rec b = false ->
  so_mver o <> Some (b_version b) -> b_status b = MSuspended -> so_persist o = PLapse ->
  let '(o', tr', done) := on_book tb c b r tr o in
  tr' = tr /\ done = false /\ remaining o' = 0 /\ so_lapsed o' = so_lapsed o + remaining o /\
  so_matched o' = so_matched o /\ so_cancelled o' = so_cancelled o /\ so_voided o' = so_voided o /\ so_frags o' = so_frags o.
Proof. exact suspension_lapses. Qed.
Print Assumptions C04_lapse.

(* void on runner removal - PARTIAL: sound only for an order with nothing cancelled or lapsed before *)
Theorem C04_void_partial : forall tb mt b rsel adj min_adj o, so_sel o = rsel -> so_type o = TLimit ->
  so_cancelled o = 0 -> so_lapsed o = 0 ->
  exists o', removal_order tb mt b rsel adj min_adj o = Some o' /\ remaining o' = 0 /\ so_matched o' = 0 /\ so_voided o' = so_size o.
Proof. exact removal_voids_clean. Qed.
Print Assumptions C04_void_partial.

(* the full statement "removal keeps the order good" is REFUTED on the faithful model (finding F-C04-1):
   an order 5.00 with 2.00 already cancelled is left with remaining = -2.00 and can never complete *)
Theorem C04_void_refuted : exists tb mt b rsel adj min_adj o o',
  good o /\ so_sel o = rsel /\ removal_order tb mt b rsel adj min_adj o = Some o' /\ remaining o' < 0.
Proof.
  exists tb_up, MWin, (xbook 5 MOpen 2 [xrunner 1 RRemoved (Some 1000) [] [] []]), 1, (Some 1000), 250,
         (xorder 1 1 Back 20000 500 SExecutable 0 0 200 0 0 []).
  eexists. split; [|split; [reflexivity|split; [reflexivity|vm_compute; reflexivity]]].
  unfold good. vm_compute. repeat split; try discriminate; constructor.
Qed.
Print Assumptions C04_void_refuted.

(* ===================== whole runs ===================== *)
(* Placement (SimulatedOrder.place) of an order that has not been placed before keeps it sound on EVERY path of the function: market not open,
   stale market version, removed runner, fill-or-kill (size below the minimum fill, priced behind / at / through the best price, killed or
   filled), best-price execution off, match on arrival down the ladder, rest in the queue, and clients with simulated full match. *)
Theorem C04_placement_conserves_on_every_path : forall tb c ms b mv o,
  so_type o = TLimit -> untouched o -> 0 <= so_size o -> 0 < so_price o -> 0 <= so_piq2 o ->
  (forall r, find_runner b (so_sel o) = Some r -> wf_runner r) ->
  soundL (fst (sim_place tb c ms b mv o)).
Proof. exact sim_place_sound. Qed.
Print Assumptions C04_placement_conserves_on_every_path.

Theorem C04_sound_is_conserved : forall o, soundL o ->
  so_size o = so_matched o + remaining o + so_cancelled o + so_lapsed o + so_voided o /\
  0 <= so_matched o /\ 0 <= remaining o /\ 0 <= so_cancelled o /\ 0 <= so_lapsed o /\ 0 <= so_voided o /\
  so_matched o = frag_sum (so_frags o).
Proof. exact soundL_conserved. Qed.

(* One event of a run (pending packages of the market executed, then the middleware: analytics, matching with or without strategy isolation,
   completion sweep, then every strategy's requests) keeps every order of every market sound. *)
Theorem C04_step_keeps_every_order_sound : forall tb cf n sc s e,
  simI s -> event_ok sc n e -> step_guard tb cf s e -> simI (step tb cf n sc s e).
Proof. exact step_I. Qed.
Print Assumptions C04_step_keeps_every_order_sound.

(* WHOLE RUNS, any number of markets, strategies, orders and events, any interleaving of requests and their delayed execution:
   if the run starts from markets without orders, every book is in the domain (event_b: positive ladders, non-negative traded volume, no removed
   runner, starting prices not reconciled; CLOSED books only need the ladders) and the script's prices are positive and its sizes / reductions
   non-negative, and every placement package finds its order as it was created (run_guard_b: evaluated by the harness on every scenario, where
   it must be true) - then at the end of the run (hence, es being arbitrary, after every prefix) every limit order of every market satisfies
   size = matched + remaining + cancelled + lapsed + voided with all five terms >= 0 and matched = the sum of its positive fragments. *)
Theorem C04_run_conserves : forall tb cf n sc es s m o,
  (forall m0, In m0 (s_markets s) -> mk_orders m0 = [] /\ mk_analytics m0 = [] /\ mk_book m0 = None) ->
  forallb (event_b sc n) es = true -> run_guard_b tb cf n sc es s = true ->
  In m (s_markets (fold_left (step tb cf n sc) es s)) -> In o (mk_orders m) -> so_type o = TLimit ->
  so_size o = so_matched o + remaining o + so_cancelled o + so_lapsed o + so_voided o /\
  0 <= so_matched o /\ 0 <= remaining o /\ 0 <= so_cancelled o /\ 0 <= so_lapsed o /\ 0 <= so_voided o /\
  so_matched o = frag_sum (so_frags o) /\ frags_pos (so_frags o).
Proof. exact run_conserves_b. Qed.
Print Assumptions C04_run_conserves.

(* THE SAME WITH STATIC HYPOTHESES ONLY.  The dynamic side condition run_guard_b is itself a theorem (Proofs/SimLinkP.v guards_hold): it holds in
   every run started from markets without orders (initial_b) under a configuration whose matcher ignores pending and completed orders (cfg_ok_b,
   true of the generated constants), whose books are in the domain with non-negative bet delays (event_b2) and whose script uses every
   (market, name) once, below the first replacement name (keys_ok_b).  All four are decidable by looking at the scenario. *)
Theorem C04_run_conserves_static : forall tb cf n sc es s,
  cfg_ok_b cf = true -> initial_b s = true -> forallb (event_b2 sc n) es = true -> keys_ok_b sc n es = true ->
  forall m o, In m (s_markets (fold_left (step tb cf n sc) es s)) -> In o (mk_orders m) -> so_type o = TLimit ->
  so_size o = so_matched o + remaining o + so_cancelled o + so_lapsed o + so_voided o /\
  0 <= so_matched o /\ 0 <= remaining o /\ 0 <= so_cancelled o /\ 0 <= so_lapsed o /\ 0 <= so_voided o /\
  so_matched o = frag_sum (so_frags o) /\ frags_pos (so_frags o).
Proof. exact run_conserves_static. Qed.
Print Assumptions C04_run_conserves_static.

(* non-vacuity: a run that satisfies both boolean hypotheses and does something - an order placed, partly matched on arrival, partly
   cancelled, then filled passively, a second one replaced: the final buckets are listed *)
Definition c04_bk (pt : Z) (trd : list (Z * Z)) : book :=
  xbook pt MOpen 1 [xrunner 1 RActive None [(20000, 300)] [(21000, 500)] trd; xrunner 2 RActive None [(30000, 500)] [(32000, 500)] []].
Definition c04_script : script := script_of
  [(0, 1, 0, [APlace 1 1 Back (OLimit 20000 1000 PLapse false None) None; APlace 2 2 Lay (OLimit 31000 400 PPersist false None) None]);
   (0, 1, 2, [ACancel 1 (Some 200); AReplace 2 31500 None])].
Definition c04_events : list event :=
  [{| ev_market := 1; ev_idx := 0; ev_book := c04_bk 1000 [] |};
   {| ev_market := 1; ev_idx := 1; ev_book := c04_bk 1200 [] |};
   {| ev_market := 1; ev_idx := 2; ev_book := c04_bk 1400 [(20000, 300)] |};
   {| ev_market := 1; ev_idx := 3; ev_book := c04_bk 1800 [(20000, 900)] |};
   {| ev_market := 1; ev_idx := 4; ev_book := xbook 2500 MClosed 2 [xrunner 1 RActive None [] [] []; xrunner 2 RActive None [] [] []] |}].
Definition c04_init : sim := sim0 [mkmarket 1 std_static].
Example C04_run_conserves_example :
  cfg_ok_b std_cfg = true /\ initial_b c04_init = true /\ forallb (event_b2 c04_script 1) c04_events = true /\ keys_ok_b c04_script 1 c04_events = true /\
  forallb (event_b c04_script 1) c04_events = true /\
  run_guard_b tb_up std_cfg 1 c04_script c04_events c04_init = true /\
  map (fun m => map (fun o => (so_name o, [so_size o; so_matched o; remaining o; so_cancelled o; so_lapsed o; so_voided o]))
                    (mk_orders m)) (s_markets (fold_left (step tb_up std_cfg 1 c04_script) c04_events c04_init))
  = [[(1, [1000; 750; 50; 200; 0; 0]); (2, [400; 0; 0; 400; 0; 0]); (1000, [400; 0; 400; 0; 0; 0])]].
Proof. vm_compute. repeat split; reflexivity. Qed.

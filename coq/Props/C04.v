(* C04 — Simulated order sizes are conserved.  Statements only.
   In the code as in the model, size_remaining is DEFINED as size - matched - cancelled - lapsed - voided, so
   the identity itself is definitional; the content of the property is that matched and remaining stay
   non-negative, that every primitive only moves size between the buckets, and that completeness follows
   "nothing remains".  [good] packages exactly that. *)
From Coq Require Import ZArith List Bool.
From V Require Import Model.Num Model.Status Model.Sim Model.SimLoop Model.Examples
  Proofs.SimPlaceP Proofs.SimPlaceP2 Proofs.SimTradedP Proofs.SimBucketsP Proofs.SimLiftP.
Open Scope Z_scope.

Theorem C04_good_is_conserved : forall o, good o ->
  so_size o = so_matched o + remaining o + so_cancelled o + so_lapsed o + so_voided o /\ 0 <= so_matched o /\ 0 <= remaining o.
Proof. exact good_conserved. Qed.
Print Assumptions C04_good_is_conserved.

(* LIFT to the matching loop of a market update: for ANY number of orders and strategies (isolation on), any traded volume with non-negative
   amounts, a book that does not reconcile starting prices: after the whole matching of the update every limit order of the market is still
   consistent (ok_order: positive fragments summing to the matched size, remaining >= 0, queue position >= 0); the completion sweep and a
   simulated cancel keep it so.  (Arrival fills, starting-price conversion and runner removal are covered by the per-primitive theorems below;
   their lift over whole runs is checked on the implementation, not proved.) *)
Theorem C04_matching_keeps_orders_consistent : forall tb cf b ans os, cf_isolation cf = true -> b_bsp_rec b = false ->
  Forall ok_order os -> Forall (fun a => ok_traded (an_traded a)) ans -> Forall ok_order (process_sim_orders tb cf b ans os).
Proof. exact process_sim_orders_ok. Qed.
Theorem C04_sweep_keeps_orders_consistent : forall cf now os, Forall ok_order os -> Forall ok_order (completion_sweep cf now os).
Proof. exact completion_sweep_ok. Qed.
Theorem C04_cancel_keeps_order_consistent : forall b o, ok_order o -> (match so_red o with Some x => 0 <= x | None => True end) -> ok_order (fst (fst (sim_cancel b o))).
Proof. exact sim_cancel_ok. Qed.
Print Assumptions C04_matching_keeps_orders_consistent.

(* cancel - full, partial, or larger than the remainder: moves min(reduction, remaining) into 'cancelled' *)
Theorem C04_cancel : forall b o, good o -> (match so_red o with Some x => 0 <= x | None => True end) ->
  let '(o', ok, c) := sim_cancel b o in
  (ok = false -> o' = o) /\
  (ok = true -> good o' /\ 0 <= c <= remaining o /\
                c = (match so_red o with Some x => if x =? 0 then remaining o else Z.min x (remaining o) | None => remaining o end) /\
                so_cancelled o' = so_cancelled o + c /\ remaining o' = remaining o - c /\
                so_matched o' = so_matched o /\ so_lapsed o' = so_lapsed o /\ so_voided o' = so_voided o /\ so_frags o' = so_frags o).
Proof. exact cancel_moves_size. Qed.
Print Assumptions C04_cancel.

(* passive fill: moves the fill from remaining to matched, never more than remains, matched never decreases *)
Theorem C04_passive_fill : forall tb pt ts o, frags_ok o -> 0 <= remaining o -> 0 <= so_piq2 o ->
  let '(o', m) := calc_traded tb pt ts o in
  frags_ok o' /\ so_piq2 o' = piq_after (so_piq2 o) ts /\ m = returned tb (so_piq2 o) (remaining o) ts /\
  so_matched o' = so_matched o + fill_of tb (so_piq2 o) (remaining o) ts /\
  remaining o' = remaining o - fill_of tb (so_piq2 o) (remaining o) ts /\
  so_price o' = so_price o /\ so_side o' = so_side o.
Proof. exact calc_traded_abs. Qed.
Theorem C04_fill_bounds : forall tb piq2 rem ts, 0 <= rem -> 0 <= piq2 ->
  0 <= fill_of tb piq2 rem ts <= rem /\ 2 * fill_of tb piq2 rem ts <= Z.max 0 (ts - piq2) + 1.
Proof. exact fill_bounds. Qed.
Print Assumptions C04_fill_bounds.

(* aggressive fills on arrival: a fragment of size s with 0 < s <= remaining moves s from remaining to matched *)
Theorem C04_fragment : forall tb o pt p s, good o -> 0 < p -> 0 < s <= remaining o ->
  good (add_frag tb o pt p s) /\ so_matched (add_frag tb o pt p s) = so_matched o + s /\
  remaining (add_frag tb o pt p s) = remaining o - s /\
  so_cancelled (add_frag tb o pt p s) = so_cancelled o /\ so_lapsed (add_frag tb o pt p s) = so_lapsed o /\
  so_voided (add_frag tb o pt p s) = so_voided o /\ so_size (add_frag tb o pt p s) = so_size o.
Proof. exact good_add_frag. Qed.
Print Assumptions C04_fragment.

(* fill-or-kill: nothing remains after the placement (unfilled part cancelled at once) *)
Theorem C04_fok : forall tb c ms b mv o r,
  fresh o -> so_fok o = true -> so_repl o = false -> find_runner b (so_sel o) = Some r ->
  wf_ladder (r_atb r) -> wf_ladder (r_atl r) ->
  let o' := fst (sim_place tb c ms b mv o) in
  remaining o' = 0 /\ (so_matched o' = 0 \/ minfill_of o <= so_matched o').
Proof. exact fok_all_or_nothing. Qed.

(* lapse on suspension with a market-version change *)
Theorem C04_lapse : forall tb c b r tr o, good o -> so_bsp o = true \/ b_bsp_rec b = false ->
  so_mver o <> Some (b_version b) -> b_status b = MSuspended -> so_persist o = PLapse ->
  let '(o', tr', done) := on_book tb c b r tr o in
  tr' = tr /\ done = false /\ remaining o' = 0 /\ so_lapsed o' = so_lapsed o + remaining o /\
  so_matched o' = so_matched o /\ so_cancelled o' = so_cancelled o /\ so_voided o' = so_voided o /\ so_frags o' = so_frags o.
Proof. exact suspension_lapses. Qed.
Print Assumptions C04_lapse.

(* void on runner removal - PARTIAL: sound only for an order with nothing cancelled or lapsed before *)
Theorem C04_void_partial : forall tb mt b rsel adj min_adj o, so_sel o = rsel -> so_type o = TLimit ->
  so_cancelled o = 0 -> so_lapsed o = 0 ->
  exists o', removal_order tb mt b rsel adj min_adj o = Some o' /\ remaining o' = 0 /\ so_matched o' = 0 /\ so_voided o' = so_size o.
Proof. exact removal_voids_clean. Qed.
Print Assumptions C04_void_partial.

(* the full statement "removal keeps the order good" is REFUTED on the faithful model (finding F-C04-1):
   an order 5.00 with 2.00 already cancelled is left with remaining = -2.00 and can never complete *)
Theorem C04_void_refuted : exists tb mt b rsel adj min_adj o o',
  good o /\ so_sel o = rsel /\ removal_order tb mt b rsel adj min_adj o = Some o' /\ remaining o' < 0.
Proof.
  exists tb_up, MWin, (xbook 5 MOpen 2 [xrunner 1 RRemoved (Some 1000) [] [] []]), 1, (Some 1000), 250,
         (xorder 1 1 Back 20000 500 SExecutable 0 0 200 0 0 []).
  eexists. split; [|split; [reflexivity|split; [reflexivity|vm_compute; reflexivity]]].
  unfold good. vm_compute. repeat split; try discriminate; constructor.
Qed.
Print Assumptions C04_void_refuted.

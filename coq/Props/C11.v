(* C11 — Order-stream reconciliation converges on the exchange's view (live model).  Statements only. *)
From Coq Require Import ZArith List Bool.
From V Require Import Model.Num Model.Status Model.Live Gen.StatusC Proofs.LiveP.
Open Scope Z_scope.

(* one row of the latest snapshot, applied to an order with nothing outstanding (Executable, or Pending with its bet id known or
   about to be learnt because it was placed async): afterwards the order holds that row (sizes), is complete iff the row says so, has
   left the live list if complete, and an async order has learnt its bet id *)
Theorem C11_row_converges : forall s n r o,
  status_in SExecComplete (ls_complete s) = true -> status_in SExecutable (ls_complete s) = false ->
  oget n (ls_orders s) = Some o -> lo_complete o = status_in (lo_status o) (ls_complete s) ->
  (lo_status o = SExecutable \/ (lo_status o = SPending /\ (lo_bet o <> None \/ lo_async o = true))) ->
  exists o', oget n (ls_orders (apply_row s n r)) = Some o' /\ tracks o' r /\
             lo_bet o' = (if lo_async o then match lo_bet o with None => Some (rw_bet r) | b => b end else lo_bet o) /\
             lo_matched o' = rw_matched r /\ lo_remaining o' = rw_remaining r.
Proof. exact row_converges. Qed.
Print Assumptions C11_row_converges.

(* orders found at the exchange but unknown locally: adopted exactly once; rows of unknown strategies have no effect at all *)
Theorem C11_adoption_exactly_one : forall s x,
  length (ls_orders (process_row s x)) = (length (ls_orders s) + match oget (sr_name x) (ls_orders s), sr_strategy x with None, Some _ => 1 | _, _ => 0 end)%nat.
Proof. exact process_row_adopts_exactly. Qed.
Theorem C11_adopted_once : forall s x st, oget (sr_name x) (ls_orders s) = None -> sr_strategy x = Some st ->
  let s1 := process_row s x in oget (sr_name x) (ls_orders s1) <> None /\ length (ls_orders (process_row s1 x)) = length (ls_orders s1).
Proof. exact adopted_once. Qed.
Theorem C11_adopted_order_is_settled : forall s x st, oget (sr_name x) (ls_orders s) = None ->
  settled (apply_row (adopt s x st) (sr_name x) (sr_row x)) (sr_name x).
Proof. exact adopted_is_settled. Qed.
(* ... and is charged to the runner context of ITS strategy and selection (one new trade, live), as a placement would be *)
Theorem C11_adoption_charges_context : forall s x st,
  exists c, In c (ls_ctx (adopt s x st)) /\ rc_strat c = st /\ rc_sel c = sr_sel x /\ In (ls_next_trade s) (rc_trades c) /\ In (ls_next_trade s) (rc_live c).
Proof. exact adoption_charges_context. Qed.
Theorem C11_unknown_strategy_ignored : forall s x, oget (sr_name x) (ls_orders s) = None -> sr_strategy x = None -> process_row s x = s.
Proof. exact unknown_strategy_ignored. Qed.
Print Assumptions C11_adopted_once.

(* a WHOLE snapshot, any number of orders: every order that is linked to its row (the row is filed under its reference and carries its bet
   id) and has nothing outstanding (Executable, or Pending with the bet id known) holds exactly that row afterwards, whatever the other
   rows of the snapshot do *)
Theorem C11_snapshot_converges : forall rows, NoDup (map sr_name rows) -> forall s,
  status_in SExecComplete (ls_complete s) = true -> status_in SExecutable (ls_complete s) = false ->
  (forall x, In x rows -> ready s x) ->
  forall x, In x rows -> exists o', oget (sr_name x) (ls_orders (process_snapshot s rows)) = Some o' /\ tracks o' (sr_row x) /\
                                    lo_matched o' = rw_matched (sr_row x) /\ lo_remaining o' = rw_remaining (sr_row x).
Proof. exact snapshot_converges. Qed.
Print Assumptions C11_snapshot_converges.

(* convergence does NOT hold for every history: *)
(* F-C11-1: a synchronous placement answered TIMEOUT never learns its bet id from the stream (only async orders pick it up): it stays
   Pending, bet id unknown, while the exchange holds the bet *)
Theorem C11_sync_timeout_refuted :
  exists es, let o := oget 0 (ls_orders (lrun (lstate0 COMPLETE_STATUS) es)) in
    option_map lo_status o = Some SPending /\ option_map lo_bet o = Some None /\ option_map lo_matched o = Some 200.
Proof.
  exists [LPlace 0 0 0 101 500 200 false; LResponsePlace [0] [PTimeout None];
          LSnapshot [{| sr_name := 0; sr_strategy := Some 0; sr_sel := 101; sr_row := {| rw_bet := 7001; rw_complete := false; rw_matched := 200; rw_remaining := 300; rw_cancelled := 0 |}; sr_size := 500; sr_price := 200 |}]].
  vm_compute. repeat split.
Qed.
(* F-C11-2: a partial cancel whose response arrives after the stream has already shown the reduced size: size_cancelled equals the
   (already reduced) remaining size, the order is declared complete locally while half of it is still live at the exchange *)
Theorem C11_partial_cancel_race_refuted :
  exists es, let o := oget 0 (ls_orders (lrun (lstate0 COMPLETE_STATUS) es)) in
    option_map lo_status o = Some SExecComplete /\ option_map lo_remaining o = Some 200 /\ option_map (fun o => option_map rw_complete (lo_view o)) o = Some (Some false).
Proof.
  exists [LPlace 0 0 0 101 400 200 false; LResponsePlace [0] [PSuccess 0 (Some 7001) 0]; LReq 0 0 0;
          LSnapshot [{| sr_name := 0; sr_strategy := Some 0; sr_sel := 101; sr_row := {| rw_bet := 7001; rw_complete := false; rw_matched := 0; rw_remaining := 200; rw_cancelled := 200 |}; sr_size := 400; sr_price := 200 |}];
          LResponseCancel [0] [(7001, CSuccess 200)]].
  vm_compute. repeat split.
Qed.

(* non-vacuity: restart, then the exchange's snapshot: the live bet is adopted once, the same snapshot again changes nothing *)
Example C11_example :
  let row := {| sr_name := 0; sr_strategy := Some 0; sr_sel := 101; sr_row := {| rw_bet := 7001; rw_complete := false; rw_matched := 200; rw_remaining := 300; rw_cancelled := 0 |}; sr_size := 500; sr_price := 200 |} in
  let s := lrun (lstate0 COMPLETE_STATUS) [LPlace 0 0 0 101 500 200 false; LResponsePlace [0] [PSuccess 0 (Some 7001) 0]; LRestart; LSnapshot [row]] in
  map lo_name (ls_orders s) = [0] /\ ostat s 0 = Some SExecutable /\ map (fun c => length (rc_live c)) (ls_ctx s) = [1%nat] /\ lstep s (LSnapshot [row]) = s.
Proof. vm_compute. repeat split. Qed.

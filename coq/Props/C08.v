(* C08 — Settlement: simulated profit follows the exchange's rules.  Statements only. *)
From Coq Require Import ZArith List Bool.
From V Require Import Model.Num Model.Status Model.Settle Proofs.SettleP.
Open Scope Z_scope.

(* a back and a lay with identical fills have exactly opposite profit - every result, dead heat, each-way divisor
   (tie-breaker sign-symmetric, as Python's round is); line markets: whenever the struck line differs from the result *)
Theorem C08_back_lay_opposite : forall tb s, sym tb -> 0 < st_dead s -> 0 < st_div_n s ->
  (st_line s = true -> st_each_way s = false -> st_line_result s <> Some (st_a s)) ->
  profit tb (flip s) = - profit tb s.
Proof. exact back_lay_opposite. Qed.
Print Assumptions C08_back_lay_opposite.

(* REFUTED at the excluded point (finding F-C08-1): average price equal to the line result - both sides lose *)
Theorem C08_line_tie_refuted : forall tb m a, 0 < m ->
  let s := {| st_side := Back; st_each_way := false; st_div_n := 1; st_div_d := 1; st_line := true; st_line_result := Some a;
              st_m := m; st_a := a; st_result := RsNone; st_dead := 1 |} in
  profit tb s = - m /\ profit tb (flip s) = - m.
Proof. exact line_tie_both_lose. Qed.
Print Assumptions C08_line_tie_refuted.

Theorem C08_zero_for_unmatched_and_removed : forall tb s,
  (st_m s = 0 \/ (st_line s = false /\ (st_result s = RsRemoved \/ st_result s = RsNone)) \/ (st_each_way s = true /\ (st_result s = RsRemoved \/ st_result s = RsNone))) ->
  0 < st_dead s -> 0 < st_div_n s -> profit tb s = 0.
Proof. exact unmatched_or_removed_is_zero. Qed.
Print Assumptions C08_zero_for_unmatched_and_removed.

(* stake x (price - 1) for a winning back, minus the stake for a losing one, the mirror image for lays *)
Theorem C08_winner_loser : forall tb m a sd, 0 <= m ->
  let s r := {| st_side := sd; st_each_way := false; st_div_n := 1; st_div_d := 1; st_line := false; st_line_result := None;
                st_m := m; st_a := a; st_result := r; st_dead := 1 |} in
  profit tb (s RsLoser) = neg_if_lay sd (- m) /\
  profit tb (s RsWinner) = match sd with Back => rnd tb (m * (a - 10000)) 10000 | Lay => rnd tb (- (m * (a - 10000))) 10000 end.
Proof. exact plain_winner_loser. Qed.
Print Assumptions C08_winner_loser.

Theorem C08_dead_heat : forall tb m a n, 2 <= n ->
  profit tb {| st_side := Back; st_each_way := false; st_div_n := 1; st_div_d := 1; st_line := false; st_line_result := None;
               st_m := m; st_a := a; st_result := RsWinner; st_dead := n |}
  = rnd tb (m * (a - 10000) - 10000 * m * (n - 1)) (10000 * n).
Proof. exact dead_heat_reduction. Qed.
Print Assumptions C08_dead_heat.

Theorem C08_back_loss_bounded : forall tb s, st_side s = Back -> 0 <= st_m s -> 10000 <= st_a s -> 0 < st_dead s -> 0 < st_div_n s -> 0 <= st_div_d s ->
  st_line s = false -> - (if st_each_way s then 2 * st_m s else st_m s) <= profit tb s.
Proof. exact back_loss_bounded. Qed.
Print Assumptions C08_back_loss_bounded.

(* cleared summary = sum over the client's matched orders; commission only ever on a net win *)
Theorem C08_cleared : forall tb profits rn rd, 0 < rd -> 0 <= rn ->
  let '(p, c, k) := cleared tb profits rn rd in
  p = sumZ profits /\ k = Z.of_nat (length profits) /\ 0 <= c /\ (p <= 0 -> c = 0) /\ (0 < p -> c = rnd tb (p * rn) rd).
Proof. exact cleared_spec. Qed.
Print Assumptions C08_cleared.

Example C08_nonvacuous :
  let s sd r n := {| st_side := sd; st_each_way := false; st_div_n := 1; st_div_d := 1; st_line := false; st_line_result := None;
                     st_m := 1000; st_a := 33500; st_result := r; st_dead := n |} in
  profit tb_up (s Back RsWinner 1) = 2350 /\ profit tb_up (s Lay RsWinner 1) = -2350 /\ profit tb_up (s Back RsLoser 1) = -1000 /\
  profit tb_up (s Back RsWinner 3) = 117 /\ profit tb_down (s Lay RsWinner 3) = -117 /\
  cleared tb_up [2350; -1000; -500] 5 100 = (850, 43, 3) /\ cleared tb_up [-10] 5 100 = (-10, 0, 1).
Proof. vm_compute. repeat split; reflexivity. Qed.

(* ---- Blotter.process_closed_market: which runner of the closing book settles an order (Settle.closed_result; compared with the real blotter on
   generated closing books, including handicap markets that list one selection on several lines with different results) ---- *)
(* every runner is listed once and the order's (selection, handicap) is among them: the order gets exactly that runner's result *)
Theorem C08_settled_by_own_runner : forall rs k r acc, NoDup (map fst rs) -> In (k, r) rs -> closed_result rs k acc = r.
Proof. exact closed_result_unique. Qed.
Print Assumptions C08_settled_by_own_runner.
(* no runner on the order's line: nothing is copied (the order keeps "no result", profit 0 by C08_zero_for_unmatched_and_removed) *)
Theorem C08_unlisted_line_not_settled : forall rs k acc, ~ In k (map fst rs) -> closed_result rs k acc = acc.
Proof. exact closed_result_absent. Qed.
Print Assumptions C08_unlisted_line_not_settled.
(* runners of other selections and of the same selection at another handicap play no part, wherever they are listed and whatever their result *)
Theorem C08_other_lines_irrelevant : forall rs k acc, closed_result rs k acc = closed_result (filter (fun x => runner_key_eqb k (fst x)) rs) k acc.
Proof. exact closed_result_only_own_line. Qed.
Print Assumptions C08_other_lines_irrelevant.
Example C08_handicap_lines_example :
  let rs := [((1, -15), RsWinner); ((1, 5), RsLoser); ((2, -15), RsLoser); ((2, 5), RsRemoved)] in
  NoDup (map fst rs) /\ closed_result rs (1, -15) RsNone = RsWinner /\ closed_result rs (1, 5) RsNone = RsLoser /\ closed_result rs (2, 5) RsNone = RsRemoved /\ closed_result rs (1, 25) RsNone = RsNone.
Proof. split; [|vm_compute; repeat split]. repeat constructor; cbn; intuition congruence. Qed.

(* the profit of an order once the closing book has been processed (Settle.profit_at_close = profit with the result the lookup gives): it is the profit
   under the result of the runner on the order's own line, the other lines of the book are irrelevant to it, and an order of an odds market on a line
   the book does not list makes nothing and loses nothing *)
Theorem C08_profit_at_close : forall tb rs k r s, NoDup (map fst rs) -> In (k, r) rs -> profit_at_close tb rs k s = profit tb (with_result s r).
Proof. exact profit_at_close_listed. Qed.
Print Assumptions C08_profit_at_close.
Theorem C08_profit_at_close_ignores_other_lines : forall tb rs k s,
  profit_at_close tb rs k s = profit_at_close tb (filter (fun x => runner_key_eqb k (fst x)) rs) k s.
Proof. exact profit_at_close_own_line. Qed.
Print Assumptions C08_profit_at_close_ignores_other_lines.
Theorem C08_profit_at_close_unlisted_line : forall tb rs k s, ~ In k (map fst rs) -> st_line s = false -> 0 < st_dead s -> 0 < st_div_n s -> profit_at_close tb rs k s = 0.
Proof. exact profit_at_close_unlisted. Qed.
Print Assumptions C08_profit_at_close_unlisted_line.

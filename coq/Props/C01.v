(* C01 — Exposure limits bound every order that reaches the exchange.  Statements only. *)
From Coq Require Import ZArith List Bool.
From V Require Import Model.Num Model.Status Model.Exposure Model.ExposureSpec Model.ExposureCtl Gen.StatusC
  Proofs.ExposureP Proofs.ExposureCtlP Model.C16Cases.
Open Scope Z_scope.

(* 1. decision for a NEW order: accepted => every configured limit holds with the order counted in full
      (worst case over every combination of fills; one penny of rounding slack; every tie-break) *)
Theorem C01_place_decision : forall tb pending lim orders active nwin o,
  new_order_wf pending o -> forallb wf_o (filter (fun x => o_sel x =? o_sel o) orders) = true ->
  exposure_ok tb pending lim PkPlace orders active nwin o = true ->
  (forall m, max_order lim = Some m -> order_exposure100 o <= 100 * m) /\
  (forall m, max_sel lim = Some m ->
     let pos := position pending None (filter (fun x => o_sel x =? o_sel o) orders) None in
     - worst (match o_side o with Back => false | Lay => true end) (pos ++ [o]) <= 100 * m + 100 /\
     worst (match o_side o with Back => true | Lay => false end) (pos ++ [o]) = worst (match o_side o with Back => true | Lay => false end) pos) /\
  (forall m, max_mkt lim = Some m -> - market_exposure tb pending orders active nwin None (Some o) <= m).
Proof. exact place_decision. Qed.
Print Assumptions C01_place_decision.

(* one-step invariant behind "a strategy that lets each order be acknowledged before placing the next never
   exceeds its selection limit": both sides stay within limit + one penny across an accepted placement *)
Theorem C01_selection_invariant : forall tb pending lim orders active nwin o m,
  new_order_wf pending o -> forallb wf_o (filter (fun x => o_sel x =? o_sel o) orders) = true ->
  max_sel lim = Some m -> exposure_ok tb pending lim PkPlace orders active nwin o = true ->
  let pos := position pending None (filter (fun x => o_sel x =? o_sel o) orders) None in
  - worst true pos <= 100 * m + 100 -> - worst false pos <= 100 * m + 100 ->
  - worst true (pos ++ [o]) <= 100 * m + 100 /\ - worst false (pos ++ [o]) <= 100 * m + 100.
Proof. exact place_keeps_selection_within_limit. Qed.
Print Assumptions C01_selection_invariant.

(* 2. refusal: exactly when one of the three tests fails *)
Theorem C01_refusal_iff : forall tb pending lim k orders active nwin o,
  exposure_ok tb pending lim k orders active nwin o = false <->
  (exists m, max_order lim = Some m /\ 100 * m < order_exposure100 o) \/
  (exists m, max_sel lim = Some m /\
     let excl := match k with PkReplace => Some (o_id o) | PkPlace => None end in
     let e := get_exposures tb pending (filter (fun x => o_sel x =? o_sel o) orders) excl None in
     100 * m < 100 * (match o_side o with Back => - e_lose e | Lay => - e_win e end) + order_exposure100 o) \/
  (exists m, max_mkt lim = Some m /\
     m < - market_exposure tb pending orders active nwin (match k with PkReplace => Some (o_id o) | PkPlace => None end) (Some o)).
Proof. exact refusal_iff. Qed.
Print Assumptions C01_refusal_iff.

(* 3. REFUTED for price replacements (finding F-C01-1): the control sees the order with its OLD price; the new price is
   applied afterwards and the replacement order is placed unchecked.  Witness: LAY 10.00 @ 1.5 under limits 6 / 6,
   replaced to 1.98: accepted, although at the new price the order alone risks 9.80 *)
Definition c01_old := mk 1 7 Lay (KLimit false) SExecutable false 0 0 1000 150 0.
Definition c01_new := mk 1 7 Lay (KLimit false) SExecutable false 0 0 1000 198 0.
Definition c01_lim := {| max_order := Some 600; max_sel := Some 600; max_mkt := None |}.
Theorem C01_replace_refuted :
  exposure_ok tb_up PENDING_STATUS c01_lim PkReplace [c01_old] 3 1 c01_old = true /\
  order_exposure100 c01_new = 98000 /\ 100 * 600 < order_exposure100 c01_new /\
  - worst true (position PENDING_STATUS None [c01_new] None) = 98000.
Proof. vm_compute. repeat split; reflexivity. Qed.
Print Assumptions C01_replace_refuted.

Example C01_nonvacuous :
  let o := mk 9 7 Back (KLimit false) SNone false 0 0 500 300 0 in
  let held := mk 1 7 Back (KLimit false) SExecComplete true 400 250 0 250 0 in
  new_order_wf PENDING_STATUS o /\
  exposure_ok tb_up PENDING_STATUS {| max_order := Some 500; max_sel := Some 900; max_mkt := Some 900 |} PkPlace [held] 3 1 o = true /\
  exposure_ok tb_up PENDING_STATUS {| max_order := Some 500; max_sel := Some 899; max_mkt := None |} PkPlace [held] 3 1 o = false.
Proof. vm_compute. repeat split; try reflexivity; discriminate. Qed.

(* C01 — Exposure limits bound every order that reaches the exchange.  Statements only. *)
From Coq Require Import ZArith List Bool.
From V Require Import Model.Num Model.Status Model.Exposure Model.ExposureSpec Model.ExposureCtl Gen.StatusC
  Proofs.ExposureP Proofs.ExposureCtlP Proofs.ExposureHistP Model.C16Cases.
Open Scope Z_scope.

(* 1. decision for a NEW order: accepted => every configured limit holds with the order counted in full
      (worst case over every combination of fills; one penny of rounding slack; every tie-break) *)
Theorem C01_place_decision : forall tb pending lim orders active nwin o,
  new_order_wf pending o -> forallb wf_o (filter (fun x => o_sel x =? o_sel o) orders) = true ->
  exposure_ok tb pending lim PkPlace orders active nwin o = true ->
  (forall m, max_order lim = Some m -> order_exposure100 o <= 100 * m) /\
  (forall m, max_sel lim = Some m ->
     let pos := position pending None (filter (fun x => o_sel x =? o_sel o) orders) None in
     - worst (match o_side o with Back => false | Lay => true end) (pos ++ [o]) <= 100 * m + 100 /\
     worst (match o_side o with Back => true | Lay => false end) (pos ++ [o]) = worst (match o_side o with Back => true | Lay => false end) pos) /\
  (forall m, max_mkt lim = Some m -> - market_exposure tb pending orders active nwin None (Some o) <= m).
Proof. exact place_decision. Qed.
Print Assumptions C01_place_decision.

(* one-step invariant behind "a strategy that lets each order be acknowledged before placing the next never
   exceeds its selection limit": both sides stay within limit + one penny across an accepted placement *)
Theorem C01_selection_invariant : forall tb pending lim orders active nwin o m,
  new_order_wf pending o -> forallb wf_o (filter (fun x => o_sel x =? o_sel o) orders) = true ->
  max_sel lim = Some m -> exposure_ok tb pending lim PkPlace orders active nwin o = true ->
  let pos := position pending None (filter (fun x => o_sel x =? o_sel o) orders) None in
  - worst true pos <= 100 * m + 100 -> - worst false pos <= 100 * m + 100 ->
  - worst true (pos ++ [o]) <= 100 * m + 100 /\ - worst false (pos ++ [o]) <= 100 * m + 100.
Proof. exact place_keeps_selection_within_limit. Qed.
Print Assumptions C01_selection_invariant.

(* ... lifted to whole histories: starting from no orders, for ANY sequence of placements accepted by the control (each checked against
   the orders as they are at that moment) interleaved with ANY sequence of exchange-side changes that do not make an order worse in either
   outcome (fills at the limit price or better, partial or full cancellation, lapse, completion - the two theorems below), the true
   worst-case loss of the strategy on the selection, over every combination of fills of what is still open, stays within limit + one
   penny, in both outcomes.  (Price replacements are not among the steps: see C01_replace_refuted.) *)
Theorem C01_history_selection_bound : forall tb pending lim active nwin sel m, max_sel lim = Some m -> forall orders, 0 <= m + 1 ->
  reach tb pending lim active nwin sel orders -> within pending m orders.
Proof. exact reach_within. Qed.
Print Assumptions C01_history_selection_bound.
Theorem C01_fill_is_an_improvement : forall pending o d avg',
  o_kind o = KLimit false -> o_complete o = false -> wf_o o = true -> 100 <= o_price o -> 0 <= d <= o_remaining o -> 100 <= avg' ->
  (match o_side o with
   | Back => (o_avg o - 100) * o_matched o + (o_price o - 100) * d <= (avg' - 100) * (o_matched o + d)
   | Lay  => (avg' - 100) * (o_matched o + d) <= (o_avg o - 100) * o_matched o + (o_price o - 100) * d
   end) ->
  improves pending o (with_sizes o (o_matched o + d) avg' (o_remaining o - d) false).
Proof. exact fill_improves. Qed.
Theorem C01_cancel_lapse_completion_are_improvements : forall pending o rem' c,
  o_kind o = KLimit false -> wf_o o = true -> 0 <= rem' <= o_remaining o -> (o_complete o = true -> c = true) ->
  improves pending o (with_sizes o (o_matched o) (o_avg o) rem' c).
Proof. exact shrink_improves. Qed.
Print Assumptions C01_cancel_lapse_completion_are_improvements.
(* non-vacuity: place BACK 5@3.0, it fills 2.00 at 3.2, place LAY 4@2.5: a reachable history under selection limit 9 *)
Example C01_history_example :
  let lim := {| max_order := None; max_sel := Some 900; max_mkt := None |} in
  let o1 := mk 1 7 Back (KLimit false) SNone false 0 0 500 300 0 in
  let o1' := with_sizes o1 200 320 300 false in
  let o2 := mk 2 7 Lay (KLimit false) SNone false 0 0 400 250 0 in
  reach tb_up PENDING_STATUS lim 3 1 7 [o1'; o2] /\ within PENDING_STATUS 900 [o1'; o2].
Proof.
  cbv zeta.
  assert (R : reach tb_up PENDING_STATUS {| max_order := None; max_sel := Some 900; max_mkt := None |} 3 1 7
                    [with_sizes (mk 1 7 Back (KLimit false) SNone false 0 0 500 300 0) 200 320 300 false; mk 2 7 Lay (KLimit false) SNone false 0 0 400 250 0]).
  { eapply reach_step; [eapply reach_step; [eapply reach_step; [apply reach_nil|]|]|].
    - apply (step_place tb_up PENDING_STATUS _ 3 1 7 [] (mk 1 7 Back (KLimit false) SNone false 0 0 500 300 0)); vm_compute; repeat split; try reflexivity; try discriminate.
    - apply (step_change tb_up PENDING_STATUS _ 3 1 7 [] (mk 1 7 Back (KLimit false) SNone false 0 0 500 300 0) (with_sizes (mk 1 7 Back (KLimit false) SNone false 0 0 500 300 0) 200 320 300 false) []).
      apply (fill_improves PENDING_STATUS (mk 1 7 Back (KLimit false) SNone false 0 0 500 300 0) 200 320); vm_compute; try reflexivity; try discriminate; split; discriminate.
    - apply (step_place tb_up PENDING_STATUS _ 3 1 7 [with_sizes (mk 1 7 Back (KLimit false) SNone false 0 0 500 300 0) 200 320 300 false] (mk 2 7 Lay (KLimit false) SNone false 0 0 400 250 0)); vm_compute; repeat split; try reflexivity; try discriminate. }
  split; [exact R|]. apply (reach_within tb_up PENDING_STATUS {| max_order := None; max_sel := Some 900; max_mkt := None |} 3 1 7 900 eq_refl); [discriminate|exact R].
Qed.

(* 2. refusal: exactly when one of the three tests fails *)
Theorem C01_refusal_iff : forall tb pending lim k orders active nwin o,
  exposure_ok tb pending lim k orders active nwin o = false <->
  (exists m, max_order lim = Some m /\ 100 * m < order_exposure100 o) \/
  (exists m, max_sel lim = Some m /\
     let excl := match k with PkReplace => Some (o_id o) | PkPlace => None end in
     let e := get_exposures tb pending (filter (fun x => o_sel x =? o_sel o) orders) excl None in
     100 * m < 100 * (match o_side o with Back => - e_lose e | Lay => - e_win e end) + order_exposure100 o) \/
  (exists m, max_mkt lim = Some m /\
     m < - market_exposure tb pending orders active nwin (match k with PkReplace => Some (o_id o) | PkPlace => None end) (Some o)).
Proof. exact refusal_iff. Qed.
Print Assumptions C01_refusal_iff.

(* 3. REFUTED for price replacements (finding F-C01-1): the control sees the order with its OLD price; the new price is
   applied afterwards and the replacement order is placed unchecked.  Witness: LAY 10.00 @ 1.5 under limits 6 / 6,
   replaced to 1.98: accepted, although at the new price the order alone risks 9.80 *)
Definition c01_old := mk 1 7 Lay (KLimit false) SExecutable false 0 0 1000 150 0.
Definition c01_new := mk 1 7 Lay (KLimit false) SExecutable false 0 0 1000 198 0.
Definition c01_lim := {| max_order := Some 600; max_sel := Some 600; max_mkt := None |}.
Theorem C01_replace_refuted :
  exposure_ok tb_up PENDING_STATUS c01_lim PkReplace [c01_old] 3 1 c01_old = true /\
  order_exposure100 c01_new = 98000 /\ 100 * 600 < order_exposure100 c01_new /\
  - worst true (position PENDING_STATUS None [c01_new] None) = 98000.
Proof. vm_compute. repeat split; reflexivity. Qed.
Print Assumptions C01_replace_refuted.

Example C01_nonvacuous :
  let o := mk 9 7 Back (KLimit false) SNone false 0 0 500 300 0 in
  let held := mk 1 7 Back (KLimit false) SExecComplete true 400 250 0 250 0 in
  new_order_wf PENDING_STATUS o /\
  exposure_ok tb_up PENDING_STATUS {| max_order := Some 500; max_sel := Some 900; max_mkt := Some 900 |} PkPlace [held] 3 1 o = true /\
  exposure_ok tb_up PENDING_STATUS {| max_order := Some 500; max_sel := Some 899; max_mkt := None |} PkPlace [held] 3 1 o = false.
Proof. vm_compute. repeat split; try reflexivity; discriminate. Qed.

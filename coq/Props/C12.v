(* C12 — Exchange call faults never strand an order or lose a transaction count (live handlers).  Statements only.
   Model: Model/Live.v (BetfairExecution.execute_*, _execution_helper, BaseOrderPackage.retry/reset_orders), Model/Retry.v. *)
From Coq Require Import ZArith List Bool.
From V Require Import Model.Num Model.Status Model.Live Model.Retry Gen.LiveC Gen.StatusC Proofs.LiveP Proofs.RetryP.
From V Require Model.Sim Model.SimLoop Model.SimGuard Model.SimCases Model.Examples Proofs.SimPkgP Proofs.SimAwaitP.
Open Scope Z_scope.

(* (1) no stranding - for packages of ANY length and ANY report vector.  `settled s n` = order n is Executable or Execution complete. *)
Theorem C12_place_settles : forall s names reports n r,
  In (n, r) (zip (pkg_orders s names) reports) -> decisive r -> settled (exec_place s names reports) n.
Proof. exact exec_place_settles. Qed.
Print Assumptions C12_place_settles.
(* ... and a report that does not decide the placement (TIMEOUT, async PENDING) leaves the status untouched: the order may stay Pending *)
Theorem C12_place_undecided : forall n r x k, ~ decisive r -> ostat (place_body n r x) k = ostat x k.
Proof. exact place_body_undecided. Qed.
(* cancel: reports in any order, duplicated, for unknown bets, or missing altogether *)
Theorem C12_cancel_settles : forall s names reports n, In n (pkg_orders s names) -> settled (exec_cancel s names reports) n.
Proof. exact exec_cancel_settles. Qed.
Print Assumptions C12_cancel_settles.
Theorem C12_update_settles : forall s names reports n,
  In n (pkg_orders s names) -> (length (pkg_orders s names) <= length reports)%nat -> settled (exec_update s names reports) n.
Proof. exact exec_update_settles. Qed.
Theorem C12_replace_settles : forall s names reports n r, In (n, r) (zip (pkg_sendable s names) reports) -> settled (exec_replace s names reports) n.
Proof. exact exec_replace_settles. Qed.
Print Assumptions C12_replace_settles.
(* retries exhausted: placements are completed, everything else goes back to Executable *)
Theorem C12_exhausted : forall s names c n, In n (pkg_orders s names) ->
  ostat (reset_orders s names c) n = Some (if c then SExecComplete else SExecutable).
Proof. exact reset_orders_exact. Qed.
Print Assumptions C12_exhausted.
(* no trade is left in its transient Pending state: invariant of every history of requests, responses, exhausted retries, snapshots, restarts *)
Theorem C12_no_trade_left_pending : forall cs es, np (lrun (lstate0 cs) es).
Proof. exact lrun_np. Qed.
Print Assumptions C12_no_trade_left_pending.

(* simulated execution (Model/SimLoop.v exec_pkg): whatever the simulated exchange answers to a place / cancel / update / replace package -
   SUCCESS, FAILURE because the market is no longer OPEN, a failed placement leg, an order that completed inside the latency window - the order
   of the package is Executable or Execution complete afterwards (a simulated placement always decides: never left Pending) *)
Theorem C12_sim_package_settles : forall tb cf now s p m b o,
  SimLoop.get_market (SimLoop.pk_market p) (SimLoop.s_markets s) = Some m -> SimLoop.mk_book m = Some b ->
  SimLoop.get_order (SimLoop.pk_order p) (SimLoop.mk_orders m) = Some o -> Sim.so_status o <> SViolation ->
  exists m' o', SimLoop.get_market (SimLoop.pk_market p) (SimLoop.s_markets (SimLoop.exec_pkg tb cf now s p)) = Some m' /\
                SimLoop.get_order (SimLoop.pk_order p) (SimLoop.mk_orders m') = Some o' /\ SimPkgP.final_status o'.
Proof. exact SimPkgP.exec_pkg_settles. Qed.
Print Assumptions C12_sim_package_settles.

(* simulated execution over WHOLE RUNS, every book (removals, starting prices, suspensions, closures included), any script whose order names
   are used once: in every reachable state that has not aborted, an order whose status says it awaits an answer - Pending, Cancelling, Updating,
   Replacing - has the package of exactly that request still queued for it (so it is answered at a later update of its market); nothing in the
   loop other than a strategy's request ever puts an order into such a status.  Once the queue is empty no order awaits anything. *)
Theorem C12_sim_run_nothing_stranded : forall tb cf n sc es s m o k,
  SimGuard.initial_b s = true -> SimGuard.keys_ok_b sc n es = true ->
  let s' := fold_left (SimLoop.step tb cf n sc) es s in
  SimLoop.s_aborted s' = false -> In m (SimLoop.s_markets s') -> In o (SimLoop.mk_orders m) -> SimAwaitP.awaits (Sim.so_status o) k ->
  exists p, In p (SimLoop.s_queue s') /\ SimLoop.pk_market p = SimLoop.mk_id m /\ SimLoop.pk_order p = Sim.so_name o /\ SimLoop.pk_kind p = k.
Proof. exact SimAwaitP.run_nothing_stranded_b. Qed.
Print Assumptions C12_sim_run_nothing_stranded.
Theorem C12_sim_quiescent_run_is_settled : forall tb cf n sc es s m o,
  SimGuard.initial_b s = true -> SimGuard.keys_ok_b sc n es = true ->
  let s' := fold_left (SimLoop.step tb cf n sc) es s in
  SimLoop.s_aborted s' = false -> SimLoop.s_queue s' = [] -> In m (SimLoop.s_markets s') -> In o (SimLoop.mk_orders m) ->
  Sim.so_status o <> SPending /\ Sim.so_status o <> SCancelling /\ Sim.so_status o <> SUpdating /\ Sim.so_status o <> SReplacing.
Proof. exact SimAwaitP.run_quiescent_is_settled. Qed.
Print Assumptions C12_sim_quiescent_run_is_settled.
(* non-vacuity: after the update at which it is requested the order awaits its placement and the package is queued; two updates later it is
   answered and the queue is empty *)
Definition c12_bk (pt : Z) : Sim.book :=
  Examples.xbook pt Sim.MOpen 1 [Examples.xrunner 1 Sim.RActive None [(20000, 300)] [(21000, 500)] []].
Definition c12_script : SimLoop.script := SimCases.script_of [(0, 1, 0, [SimLoop.APlace 1 1 Back (SimLoop.OLimit 20600 1000 Sim.PLapse false None) None])].
Definition c12_ev (i pt : Z) : SimLoop.event := {| SimLoop.ev_market := 1; SimLoop.ev_idx := i; SimLoop.ev_book := c12_bk pt |}.
Definition c12_init : SimLoop.sim := SimCases.sim0 [SimCases.mkmarket 1 Examples.std_static].
Example C12_sim_run_example :
  let view s := (map (fun m => map (fun o => (Sim.so_name o, Sim.so_status o)) (SimLoop.mk_orders m)) (SimLoop.s_markets s), map SimLoop.pk_kind (SimLoop.s_queue s)) in
  SimGuard.initial_b c12_init = true /\ SimGuard.keys_ok_b c12_script 1 [c12_ev 0 1000; c12_ev 1 1200] = true /\
  view (fold_left (SimLoop.step tb_up Examples.std_cfg 1 c12_script) [c12_ev 0 1000] c12_init) = ([[(1, SPending)]], [SimLoop.KPlace]) /\
  view (fold_left (SimLoop.step tb_up Examples.std_cfg 1 c12_script) [c12_ev 0 1000; c12_ev 1 1200] c12_init) = ([[(1, SExecutable)]], []).
Proof. vm_compute. repeat split; reflexivity. Qed.

(* (2) retry budget: 1 + MAX_RETRIES calls at most; answered iff the errors stop within the budget *)
Theorem C12_retry_budget : forall errors, 0 <= errors ->
  let r := run_helper MAX_RETRIES errors in
  fst r = Z.min errors MAX_RETRIES + 1 /\ fst r <= MAX_RETRIES + 1 /\ (snd r = true <-> errors <= MAX_RETRIES).
Proof. intros errors H. apply retry_budget; [unfold MAX_RETRIES; discriminate|exact H]. Qed.
Print Assumptions C12_retry_budget.

(* (3) counts *)
Theorem C12_tx_place : forall s names reports,
  ls_tx (exec_place s names reports) = ls_tx s + Z.of_nat (length (pkg_orders s names)) /\ ls_tx_failed (exec_place s names reports) = ls_tx_failed s.
Proof. exact tx_exec_place. Qed.
Theorem C12_tx_update : forall s names reports,
  ls_tx (exec_update s names reports) = ls_tx s /\
  ls_tx_failed (exec_update s names reports) = ls_tx_failed s + Z.of_nat (length (filter (fun nr => match snd nr with UFailure => true | _ => false end) (zip (pkg_orders s names) reports))).
Proof. exact tx_exec_update. Qed.
Theorem C12_tx_cancel_partial : forall s names reports,
  ls_tx (exec_cancel s names reports) = ls_tx s /\
  ls_tx_failed s <= ls_tx_failed (exec_cancel s names reports) <= ls_tx_failed s + Z.of_nat (length (filter (fun br => match snd br with CFailure _ => true | _ => false end) reports)).
Proof. exact tx_exec_cancel. Qed.
(* ... and exactly the FAILURE reports when the exchange answers each instruction of the package at most once (one report per bet, every
   report for a bet of the package) - in any order, with any of them missing *)
Theorem C12_tx_cancel_exact : forall s names reports,
  NoDup (map fst reports) -> (forall br, In br reports -> by_bet s (pkg_orders s names) (fst br) <> None) ->
  ls_tx_failed (exec_cancel s names reports) = ls_tx_failed s + count_failures reports.
Proof. exact tx_exec_cancel_exact. Qed.
Theorem C12_tx_exhausted : forall s names c, txr s (reset_orders s names c).
Proof. exact tx_reset_orders. Qed.
Print Assumptions C12_tx_place.

(* (4) attribution of cancel reports: the order holding bet b ends with the outcome of the FIRST report for b, wherever it is in the
   list and whatever the other reports are; without a report it goes back to Executable *)
Theorem C12_cancel_attribution : forall s names reports n o b,
  let pk := pkg_orders s names in
  In n pk -> oget n (ls_orders s) = Some o -> lo_bet o = Some b ->
  (forall n', In n' pk -> (match oget n' (ls_orders s) with Some o' => opt_eqb Z.eqb (lo_bet o') (Some b) | None => false end) = true -> n' = n) ->
  ostat (exec_cancel s names reports) n = Some (match first_report b reports with Some r => cancel_status (lo_remaining o) r | None => SExecutable end).
Proof. exact cancel_attribution. Qed.
Print Assumptions C12_cancel_attribution.

(* placement packages are matched by position: with distinct orders in the package, the i-th report decides the i-th order and nothing else
   (undecided reports - TIMEOUT, async PENDING - leave it as it was) *)
Theorem C12_place_attribution : forall s names reports n r, NoDup (pkg_orders s names) -> In (n, r) (zip (pkg_orders s names) reports) ->
  ostat (exec_place s names reports) n = place_outcome r (ostat s n).
Proof. exact place_attribution. Qed.
Print Assumptions C12_place_attribution.

(* non-vacuity: two orders resting at the exchange, cancel package for both, reports reversed, one FAILURE *)
Definition ex_s : lstate :=
  lrun (lstate0 COMPLETE_STATUS)
    [LPlace 0 0 0 101 500 200 false; LPlace 1 1 0 202 500 200 false; LResponsePlace [0; 1] [PSuccess 0 (Some 7001) 0; PSuccess 0 (Some 7002) 0];
     LReq 0 0 0; LReq 1 0 0].
Example C12_example_cancel :
  pkg_orders ex_s [0; 1] = [0; 1] /\
  map (ostat ex_s) [0; 1] = [Some SCancelling; Some SCancelling] /\
  map (ostat (exec_cancel ex_s [0; 1] [(7002, CFailure false); (7001, CSuccess 500)])) [0; 1] = [Some SExecComplete; Some SExecutable] /\
  map (ostat (exec_cancel ex_s [0; 1] [])) [0; 1] = [Some SExecutable; Some SExecutable].
Proof. vm_compute. repeat split. Qed.

(* replace packages: the instruction list skips the orders that are already complete (replace_instructions) and - since the repair of
   F-C12-1 in /repo - so does the handler: a completed order of the package is left exactly as it is by the response, and (C12_replace_settles)
   the i-th report goes to the i-th order that was sent.  On the pinned tree the handler zipped the reports with the UNFILTERED orders: with a
   completed order in front, the next order's report was applied to it and the last order was left Replacing; in simulation the run aborted
   with a TypeError (reproduced on the real FlumineSimulation by the family simulated_multi_order_packages). *)
Theorem C12_replace_skips_completed : forall s names reports n, INV s -> ostat s n = Some SExecComplete -> ostat (exec_replace s names reports) n = Some SExecComplete.
Proof. exact replace_skips_completed. Qed.
Print Assumptions C12_replace_skips_completed.
Example C12_example_replace :
  let s := lrun ex_s [LResponseCancel [0; 1] [(7001, CFailure false); (7002, CFailure false)]; LReq 0 2 300; LReq 1 2 300; LResponseCancel [0] [(7001, CFailure true)]] in
  map (ostat s) [0; 1] = [Some SExecComplete; Some SReplacing] /\ pkg_sendable s [0; 1] = [1] /\
  map (ostat (exec_replace s [0; 1] [RReport (CSuccess 500) (Some (7003, 300, 500))])) [0; 1; 1000] = [Some SExecComplete; Some SExecComplete; Some SExecutable].
Proof. vm_compute. repeat split. Qed.

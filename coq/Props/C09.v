(* C09 — Runner removal voids bets on the runner and reduces the others once.  Statements only. *)
From Coq Require Import ZArith List Bool.
From V Require Import Model.Num Model.Status Model.Sim Model.SimLoop Model.Examples Proofs.SimBucketsP Proofs.SimRemovalsP.
Open Scope Z_scope.

(* 1. void, whatever state the order is in: nothing matched, no fragments, voided = size; what remains is
      -(cancelled + lapsed): zero exactly when nothing had been cancelled or lapsed *)
Theorem C09_void : forall tb mt b rsel adj min_adj o, so_sel o = rsel -> so_type o = TLimit ->
  exists o', removal_order tb mt b rsel adj min_adj o = Some o' /\
    so_matched o' = 0 /\ so_frags o' = [] /\ so_avg o' = 0 /\ so_voided o' = so_size o /\
    remaining o' = - (so_cancelled o + so_lapsed o) /\ so_cancelled o' = so_cancelled o /\ so_lapsed o' = so_lapsed o.
Proof. exact removal_voids. Qed.
Print Assumptions C09_void.
Theorem C09_void_complete_partial : forall tb mt b rsel adj min_adj o, so_sel o = rsel -> so_type o = TLimit ->
  so_cancelled o = 0 -> so_lapsed o = 0 ->
  exists o', removal_order tb mt b rsel adj min_adj o = Some o' /\ remaining o' = 0 /\ so_matched o' = 0 /\ so_voided o' = so_size o.
Proof. exact removal_voids_clean. Qed.

(* 2. reduction of the fills on the other runners *)
Theorem C09_reduction : forall tb mt b rsel adj min_adj o,
  so_sel o <> rsel -> (so_type o <> TMoc \/ so_side o = Back) ->
  exists o', removal_order tb mt b rsel adj min_adj o = Some o' /\
    so_matched o' = so_matched o /\ map f_size (so_frags o') = map f_size (so_frags o) /\ map f_pt (so_frags o') = map f_pt (so_frags o) /\
    map f_price (so_frags o') =
      (match adj with
       | Some a => if negb (a =? 0) && (min_adj <=? a) then map (fun f => reduce_price tb (f_price f) a) (so_frags o) else map f_price (so_frags o)
       | None => map f_price (so_frags o)
       end) /\
    so_cancelled o' = so_cancelled o /\ so_lapsed o' = so_lapsed o /\ so_voided o' = so_voided o /\ so_size o' = so_size o.
Proof. exact removal_reduces. Qed.
Print Assumptions C09_reduction.
(* price' = max(round(price * (1 - f/100), 2), 1.01): never below 1.01, within half a penny of the product *)
Theorem C09_reduced_price : forall tb p a, 0 <= a <= 10000 -> 0 < p ->
  10100 <= reduce_price tb p a /\ (reduce_price tb p a = 10100 \/ Z.abs (2 * (10000 * reduce_price tb p a - p * (10000 - a))) <= 1000000).
Proof. exact reduce_price_spec. Qed.
Print Assumptions C09_reduced_price.
Theorem C09_threshold_is_2_5_percent : WIN_MIN_ADJ_FACTOR_X100 = 250.
Proof. reflexivity. Qed.

Theorem C09_moc_lay_scaling : forall tb mt b rsel a min_adj o r,
  so_sel o <> rsel -> so_type o = TMoc -> so_side o = Lay ->
  find_runner b (so_sel o) = Some r -> a <> 0 ->
  let ra := match r_adj r with Some x => x | None => 0 end in
  exists o', removal_order tb mt b rsel (Some a) min_adj o = Some o' /\
    (match mt with
     | MWin => so_liab_n o' = so_liab_n o * (10000 - ra - a) /\ so_liab_d o' = so_liab_d o * (10000 - ra)
     | MPlace | MOtherPlace => so_liab_n o' = so_liab_n o * (10000 - a) /\ so_liab_d o' = so_liab_d o * 10000
     | _ => o' = o
     end).
Proof. exact removal_scales_moc_lay. Qed.
Theorem C09_no_factor_no_reduction : forall tb mt b rsel adj min_adj o,
  so_sel o <> rsel -> so_type o = TMoc -> so_side o = Lay -> adj = None \/ adj = Some 0 -> removal_order tb mt b rsel adj min_adj o = Some o.
Proof. exact removal_without_factor_keeps_moc_lay. Qed.
Print Assumptions C09_moc_lay_scaling.

(* 3. "exactly once per market": the de-duplication is keyed (market, selection, factor) since the repair of F-C09-1 (on the pinned tree
      it was instance-wide without the market: after runner 1 (factor 10) had been removed in market 0, its removal in market 1 was never
      applied).  A removal recorded for another market does not suppress this market's; the same book again processes nothing new. *)
Definition c09_book := xbook 10 MOpen 2 [xrunner 1 RRemoved (Some 1000) [] [] []; xrunner 2 RActive None [] [] []].
Definition c09_state : sim :=
  {| s_markets := []; s_queue := []; s_bet := 0; s_removals := [(0, (1, Some 1000))] (* recorded while processing market 0 *);
     s_next_name := 1000; s_aborted := false; s_tx := 0; s_tx_failed := 0 |}.
Definition c09_market1 : market :=
  {| mk_id := 1; mk_static := std_static; mk_book := None; mk_closed := false; mk_seen := true; mk_analytics := [];
     mk_orders := [xorder 7 1 Back 20000 500 SExecutable 500 20000 0 0 0 [{| f_pt := 1; f_price := 20000; f_size := 500 |}]]; mk_active := true |}.
Example C09_once_per_market_example :
  let '(s1, m1) := middleware tb_up std_cfg c09_state c09_market1 c09_book in
  map so_voided (mk_orders m1) = [500] /\ s_removals s1 = [(0, (1, Some 1000)); (1, (1, Some 1000))] /\
  (let '(s2, m2) := middleware tb_up std_cfg s1 m1 c09_book in s_removals s2 = s_removals s1 /\ map so_voided (mk_orders m2) = [500]).
Proof. vm_compute. repeat split; reflexivity. Qed.

(* 4. "exactly once per market" for every history of a run.  (a) no event of the run — requests, package executions, books of
      any market and status, a CLOSED update, a re-opening — forgets a recorded removal; (b) after the middleware has processed a
      book, every REMOVED runner of it is recorded for that market; (c) a book whose removals are all recorded applies none: the
      orders only go through this update's matching; (d) the three together, over an arbitrary list of events in between. *)
Theorem C09_run_keeps_removals : forall tb cf n sc es s k,
  In k (s_removals s) -> In k (s_removals (fold_left (step tb cf n sc) es s)).
Proof. exact run_keeps_removals. Qed.
Print Assumptions C09_run_keeps_removals.

Theorem C09_processed_removal_is_recorded : forall tb cf s m b r,
  In r (b_runners b) -> r_status r = RRemoved ->
  recorded (mk_id m) (r_sel r, r_adj r) (s_removals (fst (middleware tb cf s m b))) = true.
Proof. exact middleware_records_removed. Qed.
Print Assumptions C09_processed_removal_is_recorded.

Theorem C09_recorded_removal_not_applied_again : forall tb cf s m b,
  (forall r, In r (b_runners b) -> r_status r = RRemoved -> recorded (mk_id m) (r_sel r, r_adj r) (s_removals s) = true) ->
  exists ans, s_removals (fst (middleware tb cf s m b)) = s_removals s /\
              mk_orders (snd (middleware tb cf s m b)) = (if mk_active m then process_sim_orders tb cf b ans (mk_orders m) else mk_orders m).
Proof. exact recorded_removal_not_applied_again. Qed.
Print Assumptions C09_recorded_removal_not_applied_again.

Theorem C09_once_over_history : forall tb cf n sc s m b es m' b',
  mk_id m' = mk_id m ->
  (forall r', In r' (b_runners b') -> r_status r' = RRemoved ->
     exists r, In r (b_runners b) /\ r_status r = RRemoved /\ r_sel r = r_sel r' /\ r_adj r = r_adj r') ->
  let s_after := fold_left (step tb cf n sc) es (fst (middleware tb cf s m b)) in
  exists ans, s_removals (fst (middleware tb cf s_after m' b')) = s_removals s_after /\
              mk_orders (snd (middleware tb cf s_after m' b')) =
              (if mk_active m' then process_sim_orders tb cf b' ans (mk_orders m') else mk_orders m').
Proof. exact removal_once_over_history. Qed.
Print Assumptions C09_once_over_history.

(* non-vacuity: a run in which market 1 sees the removal, is CLOSED, and is OPEN again with the runner still removed: the fill
   reduced to 16000 at the removal stays at 16000 after the re-opening (a second application would give 12800) *)
Definition c09_closed := xbook 20 MClosed 3 [xrunner 1 RRemoved (Some 2000) [] [] []; xrunner 2 RActive None [] [] []].
Definition c09_removed := xbook 10 MOpen 2 [xrunner 1 RRemoved (Some 2000) [] [] []; xrunner 2 RActive None [] [] []].
Definition c09_reopened := xbook 30 MOpen 4 [xrunner 1 RRemoved (Some 2000) [] [] []; xrunner 2 RActive None [] [] []].
Definition c09_market2 : market :=
  {| mk_id := 1; mk_static := std_static; mk_book := None; mk_closed := false; mk_seen := true; mk_analytics := [];
     mk_orders := [xorder 7 2 Back 20000 500 SExecutable 500 20000 0 0 0 [{| f_pt := 1; f_price := 20000; f_size := 500 |}]]; mk_active := true |}.
Definition c09_run_state : sim :=
  {| s_markets := [c09_market2]; s_queue := []; s_bet := 0; s_removals := []; s_next_name := 1000; s_aborted := false; s_tx := 0; s_tx_failed := 0 |}.
Definition c09_prices (s : sim) := map (fun m => map (fun o => map f_price (so_frags o)) (mk_orders m)) (s_markets s).
Example C09_once_over_close_and_reopen_example :
  let ev i b := {| ev_market := 1; ev_idx := i; ev_book := b |} in
  let run es := fold_left (step tb_up std_cfg 1 (fun _ _ _ => [])) es c09_run_state in
  c09_prices (run [ev 0 c09_removed]) = [[[16000]]] /\
  c09_prices (run [ev 0 c09_removed; ev 1 c09_closed; ev 2 c09_reopened]) = [[[16000]]] /\
  s_removals (run [ev 0 c09_removed; ev 1 c09_closed; ev 2 c09_reopened]) = [(1, (1, Some 2000))].
Proof. vm_compute. repeat split; reflexivity. Qed.

(* C02 — Refused requests change nothing; accepted requests are sent exactly once.  Statements only. *)
From Coq Require Import ZArith List Bool Permutation.
From V Require Import Model.Num Model.Status Model.Sim Model.Txn Proofs.TxnP.
Open Scope Z_scope.

(* packaging: any number of pending requests, any per-call limit > 0, any mix of market versions *)
Theorem C02_chunks_concat : forall A n (l : list A), (0 < n)%nat -> concat (chunks n l) = l.
Proof. exact @chunks_concat. Qed.
Theorem C02_chunks_sizes : forall A n (l : list A), (0 < n)%nat -> Forall (fun c => (1 <= length c <= n)%nat) (chunks n l).
Proof. exact @chunks_sizes. Qed.
Print Assumptions C02_chunks_sizes.

Theorem C02_packages_wellformed : forall limit k pending, (0 < limit)%nat ->
  Forall (fun p => pg_kind p = k /\ (1 <= length (pg_orders p) <= limit)%nat) (create_packages limit k pending).
Proof. exact packages_wellformed. Qed.
Print Assumptions C02_packages_wellformed.

Theorem C02_one_version_per_package : forall limit k pending p, (0 < limit)%nat -> In p (create_packages limit k pending) ->
  forall n, In n (pg_orders p) -> In (n, pg_mv p) pending.
Proof. exact package_single_version. Qed.
Print Assumptions C02_one_version_per_package.

(* request order within a version group *)
Theorem C02_group_in_request_order : forall l k ns, In (k, ns) (group_by_version l) ->
  ns = map fst (filter (fun e => opt_eqb Z.eqb (snd e) k) l).
Proof. exact group_members. Qed.

(* exactly once: the orders over all packages are the accepted requests, as a multiset *)
Theorem C02_delivered_exactly_once : forall limit k pending, (0 < limit)%nat ->
  Permutation (concat (map pg_orders (create_packages limit k pending))) (map fst pending).
Proof. exact packages_deliver_everything_once. Qed.
Print Assumptions C02_delivered_exactly_once.

Theorem C02_execute_delivers : forall lim t, (forall k, 0 < lim k)%nat ->
  let ps := snd (execute lim t) in
  Permutation (concat (map pg_orders (filter (fun p => kind_eqb (pg_kind p) KdPlace) ps))) (map fst (tx_place t)) /\
  Permutation (concat (map pg_orders (filter (fun p => kind_eqb (pg_kind p) KdCancel) ps))) (map fst (tx_cancel t)) /\
  Permutation (concat (map pg_orders (filter (fun p => kind_eqb (pg_kind p) KdUpdate) ps))) (map fst (tx_update t)) /\
  Permutation (concat (map pg_orders (filter (fun p => kind_eqb (pg_kind p) KdReplace) ps))) (map fst (tx_replace t)).
Proof. exact execute_delivers. Qed.
Print Assumptions C02_execute_delivers.

(* nothing left queued; nothing packaged twice across execute() then __exit__ *)
Theorem C02_nothing_left_queued : forall lim t, pending_total (fst (execute lim t)) = 0%nat.
Proof. exact execute_clears. Qed.
Theorem C02_exit_after_execute : forall lim t, (forall k, 0 < lim k)%nat -> snd (txn_exit lim (fst (execute lim t))) = [].
Proof. exact exit_after_execute_sends_nothing. Qed.

(* refusals *)
Theorem C02_guard_rejection_noop : forall ctl t os r t' os' res, do_req ctl t os r = (t', os', res) ->
  (res = TRaisedGuard \/ res = TRaisedClient) -> t' = t /\ (match r with TPlace _ _ _ _ => True | _ => os' = os end).
Proof. exact guard_rejection_is_noop. Qed.
Print Assumptions C02_guard_rejection_noop.
Theorem C02_control_refusal_queues_nothing : forall ctl t os r t' os', do_req ctl t os r = (t', os', TRefused) -> t' = t.
Proof. exact control_refusal_queues_nothing. Qed.
Theorem C02_force_skips_controls_only : forall ctl t os name mv ex, do_req ctl t os (TPlace name mv ex true) = do_req true t os (TPlace name mv ex true).
Proof. exact force_skips_controls_only. Qed.

(* a refused cancel / update / replace leaves every placed order (and the transaction) exactly as it was.  This was REFUTED on the
   pinned tree (finding F-C02-1: the control marked the live order VIOLATION) and holds since the repair (fix: commit 2b78b6a in /repo). *)
Theorem C02_refused_request_changes_nothing : forall ctl t os r t' os', do_req ctl t os r = (t', os', TRefused) ->
  (match r with TPlace _ _ _ _ => False | _ => True end) -> (forall o, In o os -> to_status o <> SNone) -> t' = t /\ os' = os.
Proof. exact control_refusal_leaves_placed_orders. Qed.
Print Assumptions C02_refused_request_changes_nothing.

(* placing an order that is already in the blotter raises and changes no order's status (only update_client has run).  REFUTED on the
   pinned tree (finding F-C02-2: order.place() ran first and left the resting order PENDING); holds since the repair (fix: 5dd0b89). *)
Theorem C02_place_of_placed_order : forall ctl t os name mv ex force o t' os' res,
  tget name os = Some o -> to_in_blotter o = true -> (ex && negb force && negb ctl) = false ->
  do_req ctl t os (TPlace name mv ex force) = (t', os', res) -> res = TRaisedPlaced /\ t' = t /\ map to_status os' = map to_status os.
Proof. exact place_of_placed_order_changes_no_status. Qed.
Print Assumptions C02_place_of_placed_order.
Definition c02_live : tord := {| to_name := 1; to_status := SExecutable; to_bet := true; to_type := TLimit; to_persist := PLapse; to_price := 20000;
                                 to_remaining := 500; to_in_blotter := true; to_client := 0; to_red := None; to_newprice := None; to_ctx := true |}.
Example C02_refused_request_example :
  (let '(_, os', res) := do_req false (txn0 0) [c02_live] (TCancel 1 None false) in (map to_status os', res)) = ([SExecutable], TRefused) /\
  (let '(_, os', res) := do_req true (txn0 0) [c02_live] (TPlace 1 None true false) in (map to_status os', res)) = ([SExecutable], TRaisedPlaced).
Proof. vm_compute. split; reflexivity. Qed.

(* the per-call limits are regenerated from the source (betfairlightweight order_limits) *)
From V Require Import Gen.TxnC.
Theorem C02_limits_are_the_exchange_limits :
  (BETFAIR_LIMITS KdPlace, BETFAIR_LIMITS KdCancel, BETFAIR_LIMITS KdUpdate, BETFAIR_LIMITS KdReplace) = (200, 60, 60, 60)%nat /\
  (forall k, 0 < BETFAIR_LIMITS k)%nat.
Proof. split; [reflexivity|intros []; cbn; repeat constructor]. Qed.

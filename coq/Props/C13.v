(* C13 — Strategies are isolated from each other and from callback errors.  Statements only.  Non-interference is proved for the matcher
   (one market update, any number of strategies and orders); every other operation of the loop has a frame theorem (a request / a package writes at most the order it names; the sweep is pointwise);
   the composite statement over whole runs (a run projected on one strategy = that strategy's run alone) is established by the metamorphic
   correspondence, not proved. *)
From Coq Require Import ZArith List Bool.
From V Require Import Model.Num Model.Status Model.Sim Model.SimLoop Gen.StatusC Model.SimGuard Proofs.SimIsolationP Proofs.SimTradedP Proofs.SimNamesP Proofs.SimLinkP Proofs.SimFrameP.
Open Scope Z_scope.

(* NON-INTERFERENCE OF THE MATCHER under strategy isolation: what the simulated matching of a market update does to the orders of a strategy
   is exactly what it would do if the other strategies' orders were not in the market at all - for any number of strategies and orders, any
   book, any traded volume (projection on the strategy commutes with process_sim_orders).  Order references are unique (C19). *)
Theorem C13_matcher_non_interference : forall tb cf b ans st orders, cf_isolation cf = true -> NoDup (map so_name orders) ->
  proj_strat st (process_sim_orders tb cf b ans orders) = process_sim_orders tb cf b ans (proj_strat st orders).
Proof. exact isolation_matching. Qed.
Print Assumptions C13_matcher_non_interference.
(* The hypothesis "order names are unique in the market" holds in EVERY reachable state of a run: if the script uses each (market, name) once
   and only names below the first replacement name (1000 in the scenarios), then after any list of events - placements, delayed executions,
   replacements creating new orders, removals, matching, closures - the orders of every market carry pairwise different names. *)
Theorem C13_order_names_unique_in_every_reachable_state : forall tb cf n sc es s m,
  NoDup (map mk_id (s_markets s)) -> (forall m0, In m0 (s_markets s) -> mk_orders m0 = []) -> 1000 <= s_next_name s ->
  NoDup (run_keys sc n es) -> Forall (fun k => snd k < 1000) (run_keys sc n es) ->
  In m (s_markets (fold_left (step tb cf n sc) es s)) -> NoDup (map so_name (mk_orders m)).
Proof. exact run_names_unique. Qed.
Print Assumptions C13_order_names_unique_in_every_reachable_state.

(* hence matcher non-interference applies to the matching of every market update of every such run *)
Theorem C13_non_interference_at_every_update : forall tb cf n sc es s m b ans st,
  NoDup (map mk_id (s_markets s)) -> (forall m0, In m0 (s_markets s) -> mk_orders m0 = []) -> 1000 <= s_next_name s ->
  NoDup (run_keys sc n es) -> Forall (fun k => snd k < 1000) (run_keys sc n es) -> cf_isolation cf = true ->
  In m (s_markets (fold_left (step tb cf n sc) es s)) ->
  proj_strat st (process_sim_orders tb cf b ans (mk_orders m)) = process_sim_orders tb cf b ans (proj_strat st (mk_orders m)).
Proof. exact non_interference_at_every_update. Qed.
Print Assumptions C13_non_interference_at_every_update.

(* its two halves at the level of one strategy's turn *)
Theorem C13_own_turn_commutes : forall tb cf b st ans live os, NoDup (map so_name os) -> (forall x, In x live -> In x os /\ so_strat x = st) ->
  proj_strat st (match_orders tb cf b ans live os) = match_orders tb cf b ans live (proj_strat st os).
Proof. exact match_orders_P. Qed.
Theorem C13_others_turn_is_invisible : forall tb cf b st st' ans live os, st' <> st -> NoDup (map so_name os) -> (forall x, In x live -> In x os /\ so_strat x = st') ->
  proj_strat st (match_orders tb cf b ans live os) = proj_strat st os.
Proof. exact match_orders_other. Qed.
(* the matcher never changes who an order belongs to *)
Theorem C13_identity_preserved : forall tb c b r tr o, ns (fst (fst (on_book tb c b r tr o))) = ns o.
Proof. exact ns_on_book. Qed.
Print Assumptions C13_others_turn_is_invisible.

(* frame: matching the live orders of one strategy leaves every other order exactly as it was *)
Theorem C13_matching_frame : forall tb cf b ans live orders o,
  In o orders -> ~ In (so_name o) (map so_name live) -> In o (match_orders tb cf b ans live orders).
Proof. exact match_orders_frame. Qed.
Print Assumptions C13_matching_frame.

(* every strategy is matched against its own copy of the SAME traded volume: match_orders takes the analytics as an
   argument and returns only orders - the per-update traded volume is not part of its result (typing argument), so under
   isolation the volume consumed by one strategy is still there for the next one.  What one strategy can consume from
   its copy is bounded by C06_no_double_counting. *)
Theorem C13_per_strategy_copy : forall tb cf b ans orders,
  cf_isolation cf = true ->
  process_sim_orders tb cf b ans orders =
    fold_left (fun os st =>
                 let live := filter (fun o => (so_strat o =? st) && status_in (so_status o) (cf_mw_live cf)) os in
                 match live with [] => os | _ => match_orders tb cf b ans live os end)
              (strategies_in_order orders []) orders.
Proof. intros tb cf b ans orders H. unfold process_sim_orders. rewrite H. reflexivity. Qed.

(* error containment in the model: the actions a callback issued before it raised are exactly the script truncated
   at that point; the loop processes every strategy's list for every update regardless (fold over all strategies) *)
Theorem C13_truncated_script : forall cf now st mid s pre rest,
  fold_left (request cf now st mid) (pre ++ rest) s = fold_left (request cf now st mid) rest (fold_left (request cf now st mid) pre s).
Proof. intros. apply fold_left_app. Qed.

(* FRAME CONDITIONS of the other operations of the loop (Proofs/SimFrameP.v; any state with pairwise different market ids, any request, any package):
   a request - placement, cancel, update, replace, also one naming another market of the run - leaves every order other than the one it names
   exactly as it is, in every market ... *)
Theorem C13_request_frame : forall cf now st mid s a k o, NoDup (map mk_id (s_markets s)) ->
  SimFrameP.writes mid a <> Some k -> SimLinkP.at_key (s_markets s) k o -> SimLinkP.at_key (s_markets (request cf now st mid s a)) k o.
Proof. exact SimFrameP.request_frame. Qed.
(* ... so a whole strategy call (all the requests one strategy makes at an update) leaves alone every order none of its requests names ... *)
Theorem C13_strategy_call_frame : forall cf now st mid acts s k o, NoDup (map mk_id (s_markets s)) ->
  Forall (fun a => SimFrameP.writes mid a <> Some k) acts -> SimLinkP.at_key (s_markets s) k o ->
  SimLinkP.at_key (s_markets (fold_left (request cf now st mid) acts s)) k o.
Proof. exact SimFrameP.requests_frame. Qed.
(* ... the execution of a package (any kind, any answer of the simulated exchange, including the replacement order a replace creates) leaves
   every order other than the package's own exactly as it is ... *)
Theorem C13_package_frame : forall tb cf now s p k o, NoDup (map mk_id (s_markets s)) ->
  SimLinkP.pkey p <> k -> SimLinkP.at_key (s_markets s) k o -> SimLinkP.at_key (s_markets (exec_pkg tb cf now s p)) k o.
Proof. exact SimFrameP.exec_pkg_frame. Qed.
Print Assumptions C13_package_frame.
(* ... so a WHOLE update of one market (its due packages, the middleware, the sweep, every strategy's requests) leaves the orders of every other
   market exactly as they are, unless a request made at this update names them *)
Theorem C13_update_frame_other_markets : forall tb cf n sc s e k o, NoDup (map mk_id (s_markets s)) -> fst k <> ev_market e ->
  (forall st, In st (map Z.of_nat (seq 0 (Z.to_nat n))) -> Forall (fun a => SimFrameP.writes (ev_market e) a <> Some k) (sc st (ev_market e) (ev_idx e))) ->
  SimLinkP.at_key (s_markets s) k o -> SimLinkP.at_key (s_markets (step tb cf n sc s e)) k o.
Proof. exact SimFrameP.step_frame_other_market. Qed.
Print Assumptions C13_update_frame_other_markets.
(* ... and the completion sweep treats every order on its own *)
Theorem C13_sweep_is_pointwise : forall cf now a b, completion_sweep cf now (a ++ b) = completion_sweep cf now a ++ completion_sweep cf now b.
Proof. intros. apply map_app. Qed.

(* C15 — Blotter views are coherent with the orders placed.  Statements only. *)
From Coq Require Import ZArith List Bool.
From V Require Import Model.Num Model.Status Model.Blotter Proofs.BlotterP.
Open Scope Z_scope.

(* every view = the orders placed with that key, each exactly once, in placement order - for any number of placements
   on top of any blotter (refinement to the abstract spec "filter the list of orders placed") *)
Theorem C15_views : forall os b,
  (forall k, view_get Z.eqb k (bl_by_strategy (fold_left setitem os b)) = view_get Z.eqb k (bl_by_strategy b) ++ spec_view bo_strat Z.eqb k os) /\
  (forall k, view_get zz_eqb k (bl_by_selection (fold_left setitem os b)) = view_get zz_eqb k (bl_by_selection b) ++ spec_view (fun o => (bo_strat o, bo_sel o)) zz_eqb k os) /\
  (forall k, view_get Z.eqb k (bl_by_client (fold_left setitem os b)) = view_get Z.eqb k (bl_by_client b) ++ spec_view bo_client Z.eqb k os) /\
  (forall k, view_get zz_eqb k (bl_by_client_strategy (fold_left setitem os b)) = view_get zz_eqb k (bl_by_client_strategy b) ++ spec_view (fun o => (bo_client o, bo_strat o)) zz_eqb k os) /\
  (forall k, view_get Z.eqb k (bl_by_trade (fold_left setitem os b)) = view_get Z.eqb k (bl_by_trade b) ++ spec_view bo_trade Z.eqb k os) /\
  bl_live (fold_left setitem os b) = bl_live b ++ map bo_id os.
Proof. exact views_are_the_orders_placed. Qed.
Print Assumptions C15_views.

Theorem C15_blotter_is_bijection : forall os, NoDup (map bo_id os) -> bl_orders (place_all os) = map (fun o => (bo_id o, o)) os.
Proof. exact orders_bijection. Qed.
Print Assumptions C15_blotter_is_bijection.

(* the live list loses an order only through complete_order, exactly one occurrence; completing an order that is not
   live fails (the Python raises ValueError) *)
Theorem C15_complete_order : forall b id b', complete_order b id = Some b' ->
  exists a c, bl_live b = a ++ id :: c /\ bl_live b' = a ++ c /\ bl_orders b' = bl_orders b /\ bl_by_strategy b' = bl_by_strategy b.
Proof. exact complete_order_removes_exactly_one. Qed.
Theorem C15_complete_order_not_live : forall b id, ~ In id (bl_live b) -> complete_order b id = None.
Proof. exact complete_order_not_live_raises. Qed.
Print Assumptions C15_complete_order.

Theorem C15_filters : forall orders st mo o, st <> [] ->
  In o (apply_filters orders st mo) <-> (In o orders /\ status_in (bo_status o) st = true /\ (mo = true -> 0 < bo_matched o)).
Proof. exact filters_spec. Qed.
Print Assumptions C15_filters.

(* C20 — Market closure is processed once, with results, for the right strategies.  Statements only. *)
From Coq Require Import ZArith List Bool.
From V Require Import Model.Num Model.Closure Proofs.ClosureP.
Open Scope Z_scope.

Theorem C20_live_closed_callbacks : forall s m subs, closed_cbs m (snd (live_step s (EBook m CsClosed subs))) = subs.
Proof. exact live_closed_callbacks. Qed.
Print Assumptions C20_live_closed_callbacks.

Theorem C20_sim_closed_callbacks : forall n ho s m subs x, cget m (cs_markets s) = Some x ->
  let o := snd (sim_step n ho s (EBook m CsClosed subs)) in
  closed_cbs m o = subs /\ (count_occ cout_eq_dec o (OClearedOrders m) = if ho m then 1%nat else 0%nat).
Proof. exact sim_closed_callbacks. Qed.
Print Assumptions C20_sim_closed_callbacks.

(* documented corner (candidate finding F-C20-1): in simulation the close of a market never seen open is dropped *)
Theorem C20_sim_unseen_close_dropped : forall n ho s m subs, cget m (cs_markets s) = None ->
  sim_step n ho s (EBook m CsClosed subs) = (s, []).
Proof. exact sim_close_of_unseen_market_dropped. Qed.

Theorem C20_reopen_resets_flags : forall x, cm_closed x = true ->
  cm_closed (reopen x) = false /\ cm_flags (reopen x) = false /\ cm_ctx (reopen x) = cm_ctx x.
Proof. exact reopen_resets. Qed.

(* live: whatever is still present after a close step has NOT been closed for more than an hour, i.e. what is
   removed was; and nothing open or recently closed is ever removed *)
Theorem C20_live_removal : forall s e s' o, live_step s e = (s', o) ->
  forall x, In x (cs_markets s') -> ~ (cm_closed x = true /\ 3600 < cs_now s' - cm_closed_at x) \/
            (match e with EBook _ CsClosed _ => False | _ => True end).
Proof. exact live_removal_only_after_an_hour. Qed.
Print Assumptions C20_live_removal.
Theorem C20_live_keeps_open_and_recent : forall s m st subs x,
  In x (cs_markets s) -> cm_id x <> m -> (cm_closed x = false \/ cs_now s - cm_closed_at x <= 3600) ->
  In x (cs_markets (fst (live_step s (EBook m st subs)))).
Proof. exact live_never_removes_open_or_recent. Qed.
Print Assumptions C20_live_keeps_open_and_recent.

Theorem C20_sim_close_releases : forall n ho s m subs x, cget m (cs_markets s) = Some x ->
  exists y, cget m (cs_markets (fst (sim_step n ho s (EBook m CsClosed subs)))) = Some y /\ cm_closed y = true /\ cm_ctx y = [] /\ cm_mw y = false.
Proof. exact sim_close_releases. Qed.
Print Assumptions C20_sim_close_releases.

(* C10 — Trade and runner accounting follows the real state of the orders (live model).  Statements only. *)
From Coq Require Import ZArith List Bool.
From V Require Import Model.Num Model.Status Model.Live Model.LiveCases Gen.StatusC Proofs.LiveP.
Open Scope Z_scope.

(* a trade is never left in its transient Pending state: invariant of every history (requests, responses with any outcome, exhausted
   retries, snapshots incl. adoption, refusals, restarts) *)
Theorem C10_no_trade_left_pending : forall cs es, np (lrun (lstate0 cs) es).
Proof. exact lrun_np. Qed.
Print Assumptions C10_no_trade_left_pending.

(* the hook of a status change completes a trade only when every one of its orders is complete (never while one is live) *)
Theorem C10_completion_is_sound : forall s n st t',
  In t' (ls_trades (order_status s n st)) -> lt_status t' = TComplete ->
  (exists t, In t (ls_trades s) /\ lt_id t = lt_id t' /\ lt_status t = TComplete) \/
  (forall o, In o (ls_orders (order_status s n st)) -> lo_trade o = lt_id t' -> lo_complete o = true).
Proof. exact order_status_completes_soundly. Qed.
Print Assumptions C10_completion_is_sound.

(* runner context: a placement charges its trade (once, however many orders the trade has); completing the trade frees the slot *)
Theorem C10_place_charges : forall tid st sl cx,
  exists c, In c (ctx_place tid st sl cx) /\ rc_strat c = st /\ rc_sel c = sl /\ In tid (rc_trades c) /\ In tid (rc_live c).
Proof. exact ctx_place_charges. Qed.
Theorem C10_charged_once : forall tid st sl cx, (forall c, In c cx -> NoDup (rc_trades c) /\ NoDup (rc_live c)) ->
  forall c, In c (ctx_place tid st sl cx) -> NoDup (rc_trades c) /\ NoDup (rc_live c).
Proof. exact ctx_place_nodup. Qed.
Theorem C10_completion_frees_slot : forall tid st sl cx c, In c (ctx_reset tid st sl cx) -> rc_strat c = st -> rc_sel c = sl ->
  (forall c0, In c0 cx -> NoDup (rc_live c0)) -> ~ In tid (rc_live c).
Proof. exact ctx_reset_frees. Qed.
Print Assumptions C10_completion_frees_slot.

(* a control refusing a cancel/update/replace no longer touches the order (repair of F-C02-1, fix: commit 2b78b6a): on the pinned tree it
   marked the live order VIOLATION, which is complete but never completes its trade - every order complete, trade Live, slot charged. *)
Theorem C10_refusal_changes_nothing : forall s n, lstep s (LRefused n) = s.
Proof. reflexivity. Qed.

(* non-vacuity: two orders in one trade; the trade completes, and the slot is freed, exactly when the second one completes *)
Example C10_example :
  let s1 := lrun (lstate0 COMPLETE_STATUS) [LPlace 0 0 0 101 500 200 false; LPlace 1 0 0 101 500 300 false; LResponsePlace [0; 1] [PSuccess 0 (Some 7001) 0; PSuccess 0 (Some 7002) 0];
                                            LSnapshot [{| sr_name := 0; sr_strategy := Some 0; sr_sel := 101; sr_row := {| rw_bet := 7001; rw_complete := true; rw_matched := 500; rw_remaining := 0; rw_cancelled := 0 |}; sr_size := 500; sr_price := 200 |}]] in
  let s2 := lstep s1 (LSnapshot [{| sr_name := 1; sr_strategy := Some 0; sr_sel := 101; sr_row := {| rw_bet := 7002; rw_complete := true; rw_matched := 0; rw_remaining := 0; rw_cancelled := 500 |}; sr_size := 500; sr_price := 300 |}]) in
  map lt_status (ls_trades s1) = [TLive] /\ map (fun c => length (rc_live c)) (ls_ctx s1) = [1%nat] /\
  map lt_status (ls_trades s2) = [TComplete] /\ map (fun c => (length (rc_live c), length (rc_trades c))) (ls_ctx s2) = [(0%nat, 1%nat)].
Proof. vm_compute. repeat split. Qed.

(* C10 — Trade and runner accounting follows the real state of the orders (live model).  Statements only. *)
From Coq Require Import ZArith List Bool.
From V Require Import Model.Num Model.Status Model.Live Model.LiveCases Gen.StatusC Proofs.LiveP.
Open Scope Z_scope.

(* a trade is never left in its transient Pending state: invariant of every history (requests, responses with any outcome, exhausted
   retries, snapshots incl. adoption, refusals, restarts) *)
Theorem C10_no_trade_left_pending : forall cs es, np (lrun (lstate0 cs) es).
Proof. exact lrun_np. Qed.
Print Assumptions C10_no_trade_left_pending.

(* the hook of a status change completes a trade only when every one of its orders is complete (never while one is live) *)
Theorem C10_completion_is_sound : forall s n st t',
  In t' (ls_trades (order_status s n st)) -> lt_status t' = TComplete ->
  (exists t, In t (ls_trades s) /\ lt_id t = lt_id t' /\ lt_status t = TComplete) \/
  (forall o, In o (ls_orders (order_status s n st)) -> lo_trade o = lt_id t' -> lo_complete o = true).
Proof. exact order_status_completes_soundly. Qed.
Print Assumptions C10_completion_is_sound.

(* runner context: a placement charges its trade (once, however many orders the trade has); completing the trade frees the slot *)
Theorem C10_place_charges : forall tid st sl cx,
  exists c, In c (ctx_place tid st sl cx) /\ rc_strat c = st /\ rc_sel c = sl /\ In tid (rc_trades c) /\ In tid (rc_live c).
Proof. exact ctx_place_charges. Qed.
Theorem C10_charged_once : forall tid st sl cx, (forall c, In c cx -> NoDup (rc_trades c) /\ NoDup (rc_live c)) ->
  forall c, In c (ctx_place tid st sl cx) -> NoDup (rc_trades c) /\ NoDup (rc_live c).
Proof. exact ctx_place_nodup. Qed.
Theorem C10_completion_frees_slot : forall tid st sl cx c, In c (ctx_reset tid st sl cx) -> rc_strat c = st -> rc_sel c = sl ->
  (forall c0, In c0 cx -> NoDup (rc_live c0)) -> ~ In tid (rc_live c).
Proof. exact ctx_reset_frees. Qed.
Print Assumptions C10_completion_frees_slot.

(* a control refusing a cancel/update/replace no longer touches the order (repair of F-C02-1, fix: commit 2b78b6a): on the pinned tree it
   marked the live order VIOLATION, which is complete but never completes its trade - every order complete, trade Live, slot charged. *)
Theorem C10_refusal_changes_nothing : forall s n, lstep s (LRefused n) = s.
Proof. reflexivity. Qed.

(* the completion hooks never MISS a completion either: after a status change (other than the VIOLATION mark), and at the exit of the
   trade context manager, the trade concerned is not left Live with every order complete *)
Theorem C10_hook_never_misses : forall s n st o t,
  NoDup (map lt_id (ls_trades s)) -> st <> SViolation ->
  oget n (ls_orders (order_status s n st)) = Some o -> In t (ls_trades (order_status s n st)) -> lt_id t = lo_trade o ->
  trade_complete (order_status s n st) t = false.
Proof. exact order_status_never_misses. Qed.
Theorem C10_context_manager_exit_never_misses : forall s tid t,
  NoDup (map lt_id (ls_trades s)) -> In t (ls_trades (trade_set s tid TLive)) -> lt_id t = tid -> trade_complete (trade_set s tid TLive) t = false.
Proof. exact trade_exit_never_misses. Qed.
Print Assumptions C10_hook_never_misses.

(* INVARIANT OVER HISTORIES: for every history of placements (accepted or refused), requests, responses of any outcome in any order, exhausted
   retries, unknown errors, snapshots (with adoption and replaced bets), refusals and restarts in which new order references are new
   (wf_history), every trade that is Live and not flagged pending_orders has an order that is not complete - i.e. a trade completes
   exactly when its last order completes: never earlier (C10_completion_is_sound) and never missed (this theorem).  The invariant also
   carries: trade ids and order references are unique. *)
Theorem C10_history_invariant : forall cs es, wf_history (lstate0 cs) es -> INV (lrun (lstate0 cs) es).
Proof. exact lrun_INV. Qed.
Print Assumptions C10_history_invariant.
Theorem C10_live_trade_has_incomplete_order : forall cs es t, wf_history (lstate0 cs) es -> let s := lrun (lstate0 cs) es in
  In t (ls_trades s) -> lt_status t = TLive -> lt_pending_orders t = false -> exists o, In o (ls_orders s) /\ lo_trade o = lt_id t /\ lo_complete o = false.
Proof. exact live_trade_has_incomplete_order. Qed.
Print Assumptions C10_live_trade_has_incomplete_order.
(* non-vacuity: a history with a multi-order trade, a replacement, a cancel and snapshots is well-formed *)
Example C10_wf_history_example : wf_history (lstate0 COMPLETE_STATUS)
  [LPlace 0 0 0 101 500 200 false; LPlace 1 0 0 101 500 300 false; LResponsePlace [0; 1] [PSuccess 0 (Some 7001) 0; PSuccess 0 (Some 7002) 0];
   LReq 0 2 250; LResponseReplace [0] [RReport (CSuccess 500) (Some (7003, 250, 500))]; LReq 1 0 0; LResponseCancel [1] [(7002, CSuccess 500)];
   LSnapshot [{| sr_name := 0; sr_strategy := Some 0; sr_sel := 101; sr_row := {| rw_bet := 7003; rw_complete := true; rw_matched := 500; rw_remaining := 0; rw_cancelled := 0 |}; sr_size := 500; sr_price := 250 |}]].
Proof. cbn [wf_history wfe]. repeat split; try reflexivity; intros x [<-|[]]; vm_compute; reflexivity. Qed.

(* non-vacuity: two orders in one trade; the trade completes, and the slot is freed, exactly when the second one completes *)
Example C10_example :
  let s1 := lrun (lstate0 COMPLETE_STATUS) [LPlace 0 0 0 101 500 200 false; LPlace 1 0 0 101 500 300 false; LResponsePlace [0; 1] [PSuccess 0 (Some 7001) 0; PSuccess 0 (Some 7002) 0];
                                            LSnapshot [{| sr_name := 0; sr_strategy := Some 0; sr_sel := 101; sr_row := {| rw_bet := 7001; rw_complete := true; rw_matched := 500; rw_remaining := 0; rw_cancelled := 0 |}; sr_size := 500; sr_price := 200 |}]] in
  let s2 := lstep s1 (LSnapshot [{| sr_name := 1; sr_strategy := Some 0; sr_sel := 101; sr_row := {| rw_bet := 7002; rw_complete := true; rw_matched := 0; rw_remaining := 0; rw_cancelled := 500 |}; sr_size := 500; sr_price := 300 |}]) in
  map lt_status (ls_trades s1) = [TLive] /\ map (fun c => length (rc_live c)) (ls_ctx s1) = [1%nat] /\
  map lt_status (ls_trades s2) = [TComplete] /\ map (fun c => (length (rc_live c), length (rc_trades c))) (ls_ctx s2) = [(0%nat, 1%nat)].
Proof. vm_compute. repeat split. Qed.

#!/bin/sh
# Offline setup: regenerate Gen/*.v from /repo and build the whole Coq development (full .vo build).
set -e
cd "$(dirname "$0")"
PYTHONPATH=/repo PYTHONHASHSEED=0 BETCODE_ORG_FLUMINE_VERIF=1 /venv/bin/python harness/impl/gen_consts.py
cd coq
coq_makefile -f _CoqProject $(ls Model/*.v Gen/*.v Proofs/*.v Props/*.v) -o Makefile > /dev/null
rm -f .Makefile.d   # dependencies are recomputed for the current file list
timeout 3000 make -j16 > /dev/null
echo "setup ok"

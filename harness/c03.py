"""C03 - order lifecycle: one operation in flight, legal transitions, finality."""
import random
from common import *
import livegen, livecheck, simgen, simcheck, propcheck
import c04

PID = "C03"


def main():
    ck = Check(PID)
    rng = random.Random(seed())
    thorough = tier() == "thorough"
    if not simcheck.gen_status(ck):
        return ck.finish("generator failed")
    if not ck.build_props(["Model/LiveCases.vo", "Model/SimCases.vo"]):
        coq_build(["Model/LiveCases.vo", "Model/SimCases.vo"])
    # guard table, exhaustive: both order classes x order types x every status x bet id x request, on real order objects
    ST = ["NONE", "PENDING", "CANCELLING", "UPDATING", "REPLACING", "EXECUTABLE", "EXECUTION_COMPLETE", "EXPIRED", "VIOLATION"]
    SC = {"NONE": "SNone", "PENDING": "SPending", "CANCELLING": "SCancelling", "UPDATING": "SUpdating", "REPLACING": "SReplacing", "EXECUTABLE": "SExecutable",
          "EXECUTION_COMPLETE": "SExecComplete", "EXPIRED": "SExpired", "VIOLATION": "SViolation"}
    gcases = [[c, t, st, b, r] for c in (0, 1) for t in (0, 1, 2) for st in ST for b in (0, 1) for r in range(7) if not (c == 1 and (t != 0 or r >= 5))]
    gout = run_impl("c03", {"cases": gcases})["out"]
    rows, gbad_direct = [], []
    for c, o in zip(gcases, gout):
        acc, raised, unchanged, newst, other = o
        rows.append("(%s, %s, %s, %s, %s, %s, %s)" % (z(c[0]), z(c[1]), SC[c[2]], cb(bool(c[3])), z(c[4]), cb(acc), SC[newst]))
        if other is not None or (not acc and not raised) or (not acc and not unchanged):
            gbad_direct.append((c, o))
    ev = coq_eval("c03guards", "From V Require Import Model.Num Model.Status Model.Guards.\nOpen Scope Z_scope.\n",
                  ["Definition cases : list (Z * Z * status * bool * Z * bool * status) := %s.\nEval vm_compute in bad_idx guard_ok cases.\n" % cl(rows)])
    gbad = parse_nlist(parse_evals(ev[0])[0])
    ck.family("guard_table", len(gcases), len(gcases), gbad, sorted(set(gbad) | {gcases.index(c) for c, _ in gbad_direct}), exhaustive=True,
              dist={"classes": 2, "order_types": 3, "statuses": 9, "requests": 7, "accepted": sum(1 for o in gout if o[0])},
              samples=[{"family": "guard_table", "case": gcases[0], "impl": gout[0]}])
    for i in gbad[:1]:
        ck.fail("C03-guard-table", "guard decision differs from the table for (class, type, status, bet id, request) = %s: implementation %s" % (gcases[i], gout[i]), {"case": gcases[i], "impl": gout[i], "how": "harness/impl/c03.py"})
    for c, o in gbad_direct[:1]:
        ck.fail("C03-rejected-request-side-effect", "rejected request %s: not an OrderUpdateError or the order changed: %s" % (c, o), {"case": c, "impl": o, "how": "harness/impl/c03.py"})
    chk = [livecheck.c03]
    n = 1500 if thorough else 300
    # live: no stale snapshots here (an exchange does not take back what it has reported; C11 covers stale/duplicated snapshots)
    livegen.run_live_family(ck, "live_histories", [livegen.gen_script(rng, {"restart": True, "max_len": 30, "no_stale": True}) for _ in range(n)], chk, PID)
    livegen.run_live_family(ck, "live_fault_enumeration", livegen.directed_faults(False, rng), chk, PID)
    # simulation: whole-loop scenarios; requests at any timing; races of the latency window with fills / suspension lapses / removals / close
    scs = [simgen.gen_scenario(rng, {"kinds": ["L"] * 8 + ["LOC", "MOC"], "p_manage": 0.75, "p_susp": 0.3, "p_inplay": 0.2, "p_remove": 0.08, "p_fok": 0.15}) for _ in range(800 if thorough else 200)]
    simcheck.run_family(ck, "simulation_histories", scs, propcheck.c03, "C03", "sim")
    scs3 = [c04.race_scenario(rng) for _ in range(600 if thorough else 150)]
    simcheck.run_family(ck, "simulation_requests_in_flight_races", scs3, propcheck.c03, "C03", "race")
    return ck.finish("live: random histories and fault enumeration on the real BetfairOrder guards / BetfairExecution handlers / process_current_orders with a consistent exchange double (delayed responses, exchange-side fills and lapses, snapshots, restarts), every step compared with the Coq live model; status logs checked against the documented lifecycle, rejected requests for an error without side effects, one operation in flight, finality.  simulation: whole-loop scenarios and latency-window races compared with the simulation model; the same transition / guard / finality checker on the orders' status logs and request records")


def replay(path):
    print(open(path).read()); return 0

"""C03 - order lifecycle: one operation in flight, legal transitions, finality."""
import random
from common import *
import livegen, livecheck, simgen, simcheck, propcheck
import c04

PID = "C03"


def main():
    ck = Check(PID)
    rng = random.Random(seed())
    thorough = tier() == "thorough"
    if not simcheck.gen_status(ck):
        return ck.finish("generator failed")
    if not ck.build_props(["Model/LiveCases.vo", "Model/SimCases.vo"]):
        coq_build(["Model/LiveCases.vo", "Model/SimCases.vo"])
    chk = [livecheck.c03]
    n = 1500 if thorough else 300
    # live: no stale snapshots here (an exchange does not take back what it has reported; C11 covers stale/duplicated snapshots)
    livegen.run_live_family(ck, "live_histories", [livegen.gen_script(rng, {"restart": True, "max_len": 30, "no_stale": True}) for _ in range(n)], chk, PID)
    livegen.run_live_family(ck, "live_fault_enumeration", livegen.directed_faults(False, rng), chk, PID)
    # simulation: whole-loop scenarios; requests at any timing; races of the latency window with fills / suspension lapses / removals / close
    scs = [simgen.gen_scenario(rng, {"kinds": ["L"] * 8 + ["LOC", "MOC"], "p_manage": 0.75, "p_susp": 0.3, "p_inplay": 0.2, "p_remove": 0.08, "p_fok": 0.15}) for _ in range(800 if thorough else 200)]
    simcheck.run_family(ck, "simulation_histories", scs, propcheck.c03, "C03", "sim")
    scs3 = [c04.race_scenario(rng) for _ in range(600 if thorough else 150)]
    simcheck.run_family(ck, "simulation_requests_in_flight_races", scs3, propcheck.c03, "C03", "race")
    return ck.finish("live: random histories and fault enumeration on the real BetfairOrder guards / BetfairExecution handlers / process_current_orders with a consistent exchange double (delayed responses, exchange-side fills and lapses, snapshots, restarts), every step compared with the Coq live model; status logs checked against the documented lifecycle, rejected requests for an error without side effects, one operation in flight, finality.  simulation: whole-loop scenarios and latency-window races compared with the simulation model; the same transition / guard / finality checker on the orders' status logs and request records")


def replay(path):
    print(open(path).read()); return 0

"""C03 - order lifecycle: one operation in flight, legal transitions, finality."""
import random
from common import *
import livegen, livecheck, simgen, simcheck, propcheck
import c04

PID = "C03"


def main():
    ck = Check(PID)
    rng = random.Random(seed())
    thorough = tier() == "thorough"
    if not simcheck.gen_status(ck):
        return ck.finish("generator failed")
    if not ck.build_props(["Model/LiveCases.vo", "Model/SimCases.vo"]):
        coq_build(["Model/LiveCases.vo", "Model/SimCases.vo"])
    # guard table, exhaustive: both order classes x order types x every status x bet id x request, on real order objects
    ST = ["NONE", "PENDING", "CANCELLING", "UPDATING", "REPLACING", "EXECUTABLE", "EXECUTION_COMPLETE", "EXPIRED", "VIOLATION"]
    SC = {"NONE": "SNone", "PENDING": "SPending", "CANCELLING": "SCancelling", "UPDATING": "SUpdating", "REPLACING": "SReplacing", "EXECUTABLE": "SExecutable",
          "EXECUTION_COMPLETE": "SExecComplete", "EXPIRED": "SExpired", "VIOLATION": "SViolation"}
    gcases = [[c, t, st, b, r] for c in (0, 1) for t in (0, 1, 2) for st in ST for b in (0, 1) for r in range(7) if not (c == 1 and (t != 0 or r >= 5))]
    gout = run_impl("c03", {"cases": gcases})["out"]
    rows, gbad_direct = [], []
    for c, o in zip(gcases, gout):
        acc, raised, unchanged, newst, other = o
        rows.append("(%s, %s, %s, %s, %s, %s, %s)" % (z(c[0]), z(c[1]), SC[c[2]], cb(bool(c[3])), z(c[4]), cb(acc), SC[newst]))
        if other is not None or (not acc and not raised) or (not acc and not unchanged):
            gbad_direct.append((c, o))
    ev = coq_eval("c03guards", "From V Require Import Model.Num Model.Status Model.Guards.\nOpen Scope Z_scope.\n",
                  ["Definition cases : list (Z * Z * status * bool * Z * bool * status) := %s.\nEval vm_compute in bad_idx guard_ok cases.\n" % cl(rows)])
    gbad = parse_nlist(parse_evals(ev[0])[0])
    ck.family("guard_table", len(gcases), len(gcases), gbad, sorted(set(gbad) | {gcases.index(c) for c, _ in gbad_direct}), exhaustive=True,
              dist={"classes": 2, "order_types": 3, "statuses": 9, "requests": 7, "accepted": sum(1 for o in gout if o[0])},
              samples=[{"family": "guard_table", "case": gcases[0], "impl": gout[0]}])
    for i in gbad[:1]:
        ck.fail("C03-guard-table", "guard decision differs from the table for (class, type, status, bet id, request) = %s: implementation %s" % (gcases[i], gout[i]), {"case": gcases[i], "impl": gout[i], "how": "harness/impl/c03.py"})
    for c, o in gbad_direct[:1]:
        ck.fail("C03-rejected-request-side-effect", "rejected request %s: not an OrderUpdateError or the order changed: %s" % (c, o), {"case": c, "impl": o, "how": "harness/impl/c03.py"})
    # the lifecycle relation of the whole-run theorems (Model/SimGuard.v lifecycle_ok) is the relation the Python checker applies to the real status
    # logs (propcheck.LEGAL + STUTTER): all 81 pairs compared
    names = [(k, v) for k, v in simgen.STAT.items() if k != "NONE"]
    lc = coq_eval("c03lifecycle", "From V Require Import Model.Num Model.Status Model.Sim Model.SimLoop Model.SimGuard.\nOpen Scope Z_scope.\n",
                  ["Eval vm_compute in map (fun p => if lifecycle_ok (fst p) (snd p) then 1 else 0) %s.\n" % cl("(%s, %s)" % (a[1], b[1]) for a in names for b in names)])
    got = parse_nlist(parse_evals(lc[0])[0])
    pairs = [(a[0], b[0]) for a in names for b in names]
    lbad = [i for i, (pr, g) in enumerate(zip(pairs, got)) if bool(g) != (pr in propcheck.LEGAL or pr in propcheck.STUTTER)]
    ck.family("lifecycle_relation_of_the_theorems_vs_the_checker", len(pairs), len(pairs), lbad, [], exhaustive=True, dist={"legal_pairs": sum(got)})
    for i in lbad[:1]:
        ck.fail("C03-lifecycle-relation", "the lifecycle relation used by the Coq theorems and the one applied to the implementation's status logs differ on %s -> %s" % pairs[i], {"pair": pairs[i]})
    chk = [livecheck.c03]
    n = 1500 if thorough else 300
    # live: no stale snapshots here (an exchange does not take back what it has reported; C11 covers stale/duplicated snapshots)
    livegen.run_live_family(ck, "live_histories", [livegen.gen_script(rng, {"restart": True, "max_len": 30, "no_stale": True}) for _ in range(n)], chk, PID)
    livegen.run_live_family(ck, "live_fault_enumeration", livegen.directed_faults(False, rng), chk, PID)
    # a cancel / update / replace whose call meets API errors is being retried (the call is still outstanding): the order stays in its transient
    # status, a further request is rejected - on every seed, not only when a random script happens to try
    ok_ = livegen.CLEAN
    dcases = []
    for kind, arg in (("cancel", None), ("update", "PERSIST"), ("replace", 300)):
        for errs in (1, 2, 3):
            for kind2, arg2 in (("cancel", None), ("update", "PERSIST"), ("replace", 250)):
                dcases.append({"strategies": 1, "steps": [["book", "OPEN"], ["place", 0, 101, "BACK", 200, 500, None, False], ["deliver", 0, ok_], ["stream", "full"],
                                                         ["req", kind, 0, arg, True], ["call", 0, dict(ok_, errors=errs)], ["req", kind2, 0, arg2, False], ["respond", 0],
                                                         ["drain", [ok_]], ["stream", "full"], ["stream", "full"]]})
    livegen.run_live_family(ck, "request_while_a_failed_call_is_being_retried", dcases, chk, PID)
    # simulation: whole-loop scenarios; requests at any timing; races of the latency window with fills / suspension lapses / removals / close
    scs = [simgen.gen_scenario(rng, {"kinds": ["L"] * 8 + ["LOC", "MOC"], "p_manage": 0.75, "p_susp": 0.3, "p_inplay": 0.2, "p_remove": 0.08, "p_fok": 0.15}) for _ in range(800 if thorough else 200)]
    simcheck.run_family(ck, "simulation_histories", scs, propcheck.c03, "C03", "sim", hyp=True)
    # requests batched in one transaction per strategy call, sent in several instalments (explicit execute() calls between requests, the rest
    # at the end of the block): the implementation alone with the lifecycle checker (the model has one package per request)
    scs4 = []
    for _ in range(400 if thorough else 100):
        s4 = simgen.gen_scenario(rng, {"kinds": ["L"], "p_manage": 0.7, "p_place": 0.8, "p_remove": 0.0, "no_remove": True, "p_fok": 0.0, "nmarkets": [1], "nstrats": [1, 2]})
        for e in s4["script"]:
            acts = [["txn_begin"]]
            for a in e["acts"]:
                acts.append(a)
                if rng.random() < 0.4:
                    acts.append(["txn_exec"])
            acts.append(["txn_end"])
            e["acts"] = acts
        scs4.append(s4)
    o4 = run_impl_parallel("simlib", [{"scenarios": [simgen.to_impl(x) for x in ch], "observe": "all"} for ch in chunked(scs4, 20)], timeout=3600)
    i4 = [r for o in o4 for r in o["out"]]
    pf4 = []
    for i, (sc4, io4) in enumerate(zip(scs4, i4)):
        for key, desc, det in propcheck.c03(sc4, io4):
            pf4.append((i, key, desc, det))
    ck.family("simulation_transactions_sent_in_instalments", len(scs4), len(scs4), [], sorted({i for i, *_ in pf4}),
              dist={"packages": sum(len(io["packages"]) for io in i4), "requests": sum(len(io["requests"]) for io in i4), "runs_aborted_by_impl": sum(1 for io in i4 if io["error"])})
    seen4 = set()
    for i, key, desc, det in pf4:
        if key not in seen4:
            seen4.add(key)
            ck.fail(key, desc, {"scenario": scs4[i], "detail": det, "how": "harness/impl/simlib.py (txn_begin / txn_exec / txn_end actions) on the real FlumineSimulation"})
    scs3 = [c04.race_scenario(rng) for _ in range(600 if thorough else 150)]
    simcheck.run_family(ck, "simulation_requests_in_flight_races", scs3, propcheck.c03, "C03", "race", hyp=True)
    # the BETDAQ path of a live Flumine (outside the Coq live model): placements whose answer the order poll overtakes, matches, polls, price changes, cancels
    import betdaqcheck
    betdaqcheck.run_family(ck, rng, 60 if thorough else 20, "betdaq_lifecycle", ("C03",))
    return ck.finish("live: random histories and fault enumeration on the real BetfairOrder guards / BetfairExecution handlers / process_current_orders with a consistent exchange double (delayed responses, exchange-side fills and lapses, snapshots, restarts), every step compared with the Coq live model; status logs checked against the documented lifecycle, rejected requests for an error without side effects, one operation in flight, finality.  simulation: whole-loop scenarios and latency-window races compared with the simulation model; the same transition / guard / finality checker on the orders' status logs and request records")


def replay(path):
    print(open(path).read()); return 0

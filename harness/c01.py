"""C01 — exposure limits bound every order that reaches the exchange."""
import json, random
from common import *
import c16, simgen, propcheck

PID = "C01"
HDR = "From V Require Import Model.Num Model.Status Model.Exposure Model.ExposureSpec Model.ExposureCtl Gen.StatusC Model.C16Cases Model.C01Cases.\nOpen Scope Z_scope.\n"


def main():
    ck = Check(PID)
    rng = random.Random(seed())
    thorough = tier() == "thorough"
    p = subprocess.run([PY_IMPL, os.path.join(VERIF, "harness/impl/gen_consts.py"), "status"], env=impl_env(), stdout=subprocess.PIPE, stderr=subprocess.PIPE)
    if p.returncode != 0:
        ck.broken.append({"kind": "generator", "what": "gen_consts status failed"}); return ck.finish("generator failed")
    if not ck.build_props(["Model/C01Cases.vo"]):
        coq_build(["Model/C01Cases.vo"])

    # ---- decision family: real StrategyExposure on real blotters
    n = 8000 if thorough else 2000
    cases = []
    for _ in range(n):
        even = rng.random() < 0.5
        sels = rng.sample([1, 2, 3, 4], rng.randrange(1, 4))
        orders = []
        for s in sels:
            for _ in range(rng.choice([0, 1, 1, 2, 3])):
                orders.append(c16.gen_order(rng, s, even))
        rng.shuffle(orders)
        lim = [rng.choice([None, 200, 500, 1000, 1500, 3000, 100000]) for _ in range(3)]
        if rng.random() < 0.25:
            lim = [rng.choice([500, 1000, 3000])] * 3
        kind = "PLACE" if rng.random() < 0.75 else "REPLACE"
        c = {"limits": lim, "orders": orders, "active": rng.randrange(1, 7), "k": rng.choice([1, 1, 1, 2, 0]), "kind": kind}
        if kind == "PLACE":
            cand = c16.gen_order(rng, rng.choice(sels + [5]), even)
            cand.update({"status": "NONE", "matched": 0, "avg": 0})
            if cand["kind"] in ("L", "LINE") and cand["rem"] == 0:
                cand["rem"] = 200
            c["cand"] = cand
        else:
            idx = [i for i, o in enumerate(orders) if o["kind"] == "L" and o["status"] == "EXECUTABLE"]
            if not idx:
                continue
            c["cand_idx"] = rng.choice(idx)
        cases.append(c)
    outs = run_impl_parallel("c01", [{"cases": ch} for ch in chunked(cases, 250)])
    res = [r for o in outs for r in o["out"]]
    rows = []
    for c, r in zip(cases, res):
        os_ = [c16.coq_order(i, o) for i, o in enumerate(c["orders"])]
        lim = "{| max_order := %s; max_sel := %s; max_mkt := %s |}" % tuple(copt(x) for x in c["limits"])
        if c["kind"] == "PLACE":
            d = dict(c["cand"])
            cand = c16.coq_order(900, d)
        else:
            d = dict(c["orders"][c["cand_idx"]])
            # the control reads order_type.size (not the remainder) for the order's own exposure
            d2 = dict(d); d2["rem"] = d["matched"] + d["rem"]
            cand = c16.coq_order(c["cand_idx"], d2)
        rows.append("(%s, %s, %s, %s, %s, %s, %s)" % (lim, "PkPlace" if c["kind"] == "PLACE" else "PkReplace", cl(os_), z(c["active"]), z(c["k"]), cand, cb(r["acc"])))
    CH = 400
    codes, pbad = [], []
    for k, o in enumerate(coq_eval("c01dec", HDR, ["Definition cases : list dq := %s.\nEval vm_compute in (map dec_cmp cases).\nEval vm_compute in (bad_idx dec_prop cases).\n" % cl(ch) for ch in chunked(rows, CH)])):
        v = parse_evals(o)
        codes += parse_nlist(v[0]); pbad += [k * CH + x for x in parse_nlist(v[1])]
    mism = [i for i, c in enumerate(codes) if c == 2]
    status_bad = [i for i, (c, r) in enumerate(zip(cases, res)) if (not r["acc"]) != (r["status"] == "VIOLATION") and c["kind"] == "PLACE"]
    ck.family("decision_on_real_objects", len(rows), len(set(rows)), mism, sorted(set(pbad + status_bad)), ambiguous=sum(1 for c in codes if c == 1),
              dist={"place": sum(1 for c in cases if c["kind"] == "PLACE"), "replace": sum(1 for c in cases if c["kind"] == "REPLACE"),
                    "accepted": sum(1 for r in res if r["acc"]), "refused": sum(1 for r in res if not r["acc"])},
              samples=[{"family": "decision", "case": cases[0], "impl": res[0]}])
    for i in sorted(set(pbad + status_bad + mism))[:3]:
        ck.fail("C01-decision", "StrategyExposure %s a %s although, counting it in full, %s" % ("accepted" if res[i]["acc"] else "refused", cases[i]["kind"],
                "a limit is exceeded" if res[i]["acc"] else "every limit holds"), {"call": "StrategyExposure", "case": cases[i], "impl": res[i], "failed": "property" if i in pbad else "model-mismatch"})
    # the REPLACE finding, reproduced on the implementation: accepted at the old price, while the requested new price breaches the limit
    c = {"limits": [600, 600, None], "orders": [{"sel": 7, "side": "LAY", "kind": "L", "status": "EXECUTABLE", "matched": 0, "avg": 0, "rem": 1000, "price": 150, "liab": 0}],
         "active": 3, "k": 1, "kind": "REPLACE", "cand_idx": 0}
    r = run_impl("c01", {"cases": [c]})["out"][0]
    if r["acc"]:
        ck.fail("C01-replace-validated-with-old-price", "LAY 10.00 @ 1.5 under limits 6/6: a replace to 1.98 passes the control (it only sees the old price 1.5); at 1.98 the order risks 9.80", {"case": c, "new_price": 1.98, "impl": r})

    # ---- consequence family (test, not proof): whole runs with limits and the default max_live_trade_count=1; worst-case loss recomputed per tick
    scs = []
    for _ in range(200 if thorough else 60):
        s = simgen.gen_scenario(rng, {"kinds": ["L"] * 8 + ["MOC", "LOC"], "p_manage": 0.3, "nstrats": [1], "no_remove": True, "p_remove": 0.0, "p_place": 0.7, "p_burst": 0.0})
        lim = rng.choice([500, 1000, 2000])
        s["strategies"][0].update({"max_sel": lim / 100, "max_order": lim / 100, "max_live": 1, "max_trade": 10 ** 6})
        s["_limit"] = lim
        # no price replacements in this family (the listed finding)
        for e in s["script"]:
            e["acts"] = [a for a in e["acts"] if a[0] != "replace"]
        scs.append(s)
    outs2 = run_impl_parallel("simlib", [{"scenarios": [simgen.to_impl({k: v for k, v in s.items() if k != "_limit"}) for s in ch], "observe": "all"} for ch in chunked(scs, 20)], timeout=3600)
    impl2 = [r for o in outs2 for r in o["out"]]
    bbad = []
    for i, (sc, io) in enumerate(zip(scs, impl2)):
        lim = sc["_limit"]
        worst_seen = 0
        for ob in io["obs"]:
            per_sel = {}
            for o in ob["orders"]:
                if o["status"] in ("Pending", "Violation", None) and not o["frags"]:
                    continue
                per_sel.setdefault(o["sel"], []).append(o)
            for sel, os_ in per_sel.items():
                # worst case if it wins / loses: matched fragments at their prices, open parts fill at the limit iff that hurts
                win = lose = 0.0
                for o in os_:
                    sgn = 1 if o["side"] == "BACK" else -1
                    if o["otype"] == "LIMIT":
                        for f in o["frags"]:
                            win += sgn * (f[1] - 1) * f[2]; lose += -sgn * f[2]
                        if not o["complete"] and o["remaining"] > 0 and o["persist"] != "MARKET_ON_CLOSE":
                            w, l = sgn * (o["price"] - 1) * o["remaining"], -sgn * o["remaining"]
                            win += min(0, w); lose += min(0, l)
                        elif not o["complete"] and o["remaining"] > 0:
                            w, l = sgn * (o["price"] - 1) * o["remaining"], -sgn * o["remaining"]
                            win += min(0, w); lose += min(0, l)
                    else:
                        if o["side"] == "BACK":
                            lose -= o["liab"] if not o["frags"] else 0
                            for f in o["frags"]:
                                win += (f[1] - 1) * f[2]; lose -= f[2]
                        else:
                            win -= o["liab"] if not o["frags"] else 0
                            for f in o["frags"]:
                                win -= (f[1] - 1) * f[2]; lose += f[2]
                worst_seen = max(worst_seen, -min(win, lose))
        if worst_seen > lim / 100 + 0.011 + 0.005 * 5:
            bbad.append((i, worst_seen))
    ck.family("whole_run_bound_test", len(scs), len(scs), [], [i for i, _ in bbad], dist={"note": "test of the consequence clause (not a proof): worst-case loss per selection recomputed at every strategy call"})
    for i, w in bbad[:2]:
        ck.fail("C01-bound", "under max_selection_exposure=%s and max_live_trade_count=1 the strategy's worst-case loss on a selection reached %.2f" % (scs[i]["_limit"] / 100, w), {"scenario": scs[i], "worst_seen": w})
    # ---- several orders per selection over time; the strategy reads its exposure on every runner at every update (a stale figure inside the
    #      blotter lets a later order through); no price replacements (the listed finding)
    scs2 = []
    for _ in range(160 if thorough else 50):
        s = simgen.gen_scenario(rng, {"kinds": ["L"], "p_manage": 0.15, "nstrats": [1], "no_remove": True, "p_remove": 0.0, "p_place": 0.9, "p_burst": 0.0,
                                      "p_inplay": 0.0, "min_upd": 8, "max_upd": 13, "nmarkets": [1], "p_fok": 0.0, "steps": [200, 300, 500, 1000, 1200, 5000]})
        lim = rng.choice([500, 1000, 1500])
        s["strategies"][0].update({"max_sel": lim / 100, "max_order": lim / 100, "max_live": 10 ** 6, "max_trade": 10 ** 6, "read_exposure": True})
        s["_limit"] = lim
        # acknowledgement discipline (the property's domain): one placement per selection per update, updates more than the placement latency apart
        for e in s["script"]:
            seen_sel, acts = set(), []
            for a in e["acts"]:
                if a[0] == "replace":
                    continue
                if a[0] == "place":
                    if a[2] in seen_sel:
                        continue
                    seen_sel.add(a[2])
                acts.append(a)
            e["acts"] = acts
        scs2.append(s)
    outs3 = run_impl_parallel("simlib", [{"scenarios": [simgen.to_impl({k: v for k, v in s.items() if k != "_limit"}) for s in ch], "observe": "all"} for ch in chunked(scs2, 20)], timeout=3600)
    impl3 = [r for o in outs3 for r in o["out"]]
    bbad2, nacc, nref = [], 0, 0
    for i, (sc, io) in enumerate(zip(scs2, impl3)):
        lim = sc["_limit"]
        nacc += sum(1 for r in io["requests"] if r[3] == "place" and r[5] is not False)
        nref += sum(1 for r in io["requests"] if r[3] == "place" and r[5] is False)
        worst = 0
        for ob in io["obs"]:
            per_sel = {}
            for o in ob["orders"]:
                if o["status"] in ("Violation", None):
                    continue
                per_sel.setdefault(o["sel"], []).append(o)
            for sel, os_ in per_sel.items():
                win = lose = 0.0
                for o in os_:
                    sgn = 1 if o["side"] == "BACK" else -1
                    for f in o["frags"]:
                        win += sgn * (f[1] - 1) * f[2]; lose += -sgn * f[2]
                    if not o["complete"] and o["remaining"] > 0:
                        w, l = sgn * (o["price"] - 1) * o["remaining"], -sgn * o["remaining"]
                        win += min(0, w); lose += min(0, l)
                worst = max(worst, -min(win, lose))
        if worst > lim / 100 + 0.011 + 0.005 * 8:
            bbad2.append((i, worst))
    ck.family("whole_run_bound_several_orders_per_selection", len(scs2), len(scs2), [], [i for i, _ in bbad2],
              dist={"placements_accepted": nacc, "placements_refused": nref, "note": "worst-case loss per selection (pending orders included) recomputed at every strategy call"})
    for i, w in bbad2[:2]:
        ck.fail("C01-bound", "under max_selection_exposure=%s (several orders per selection, exposure read at every update) the strategy's worst-case loss on a selection reached %.2f" % (scs2[i]["_limit"] / 100, w),
                {"scenario": scs2[i], "worst_seen": w, "how": "harness/impl/simlib.py on the real FlumineSimulation"})
    # ---- the acknowledgement discipline as the DEFAULT max_live_trade_count=1 provides it: a completed trade re-used for a further order while another
    #      trade places on the same selection in the same call (the second must be refused while the first is unacknowledged); and a transaction sent
    #      in instalments (explicit execute() between requests): every accepted order reaches the exchange once
    P = simgen.TICKS_BP
    scs3 = []
    for _ in range(60 if thorough else 20):
        i0 = rng.randrange(6, 20)
        side = rng.choice(["BACK", "LAY"])
        t0 = 1_700_000_000_000
        def rn(sel):
            return {"id": sel, "status": "ACTIVE", "adj": 1000, "atb": [[P[i0], 100000]], "atl": [[P[i0 + 1], 100000]], "trd": []}
        ups = [{"pt": t0 + 400 * k, "status": "OPEN", "version": 1, "runners": [rn(1), rn(2)]} for k in range(10)]
        price = P[i0] if side == "BACK" else P[i0 + 1]          # crosses: matched in full on arrival
        lim = rng.choice([1000, 1500])
        first, big = rng.choice([200, 300]), lim - rng.choice([200, 300])
        L = lambda sz: {"t": "L", "p": price, "s": sz, "pt": "LAPSE", "tif": None, "mf": None}
        if rng.random() < 0.5:
            script = [{"s": 0, "m": 0, "u": 0, "acts": [["place", 1, 1, side, L(first), {"mv": None, "trade": "T1"}]]},
                      {"s": 0, "m": 0, "u": 3, "acts": [["place", 2, 1, side, L(big), {"mv": None, "trade": "T1"}], ["place", 3, 1, side, L(big), {"mv": None}]]}]
        else:
            script = [{"s": 0, "m": 0, "u": 1, "acts": [["txn_begin"], ["place", 1, 1, side, L(big), {"mv": None}], ["txn_exec"], ["place", 2, 2, side, L(big), {"mv": None}], ["txn_end"]]},
                      {"s": 0, "m": 0, "u": 4, "acts": [["txn_begin"], ["place", 3, 2, side, L(first), {"mv": None}], ["txn_exec"], ["txn_exec"], ["txn_end"]]}]
        scs3.append({"config": {"place_latency": 0.12, "cancel_latency": 0.17, "update_latency": 0.15, "replace_latency": 0.28, "isolation": True},
                     "clients": [{"bpe": True, "full_match": False, "limit": None, "min_val": False}],
                     "strategies": [{"name": "s0", "client": 0, "max_sel": lim / 100, "max_order": lim / 100, "max_live": 1, "max_trade": 10 ** 6, "multi": True}],
                     "markets": [{"id": "1.100000001", "event": "20000001", "group": False, "type": "WIN", "bsp": False, "persist": True, "winners": 1, "updates": ups}],
                     "script": script, "_limit": lim})
    outs4 = run_impl_parallel("simlib", [{"scenarios": [simgen.to_impl({k: v for k, v in s.items() if k != "_limit"}) for s in ch], "observe": "all"} for ch in chunked(scs3, 10)], timeout=3600)
    impl4 = [r for o in outs4 for r in o["out"]]
    # worst-case loss per selection (pending orders included) at every strategy call and at the end of the run
    bbad3 = []
    for i, (sc, io) in enumerate(zip(scs3, impl4)):
        lim = sc["_limit"] / 100
        for obs_orders in [ob["orders"] for ob in io["obs"]] + [io["final"]]:
            per_sel = {}
            for o in obs_orders:
                if o["status"] in ("Violation", None):
                    continue
                per_sel.setdefault(o["sel"], []).append(o)
            for sel, os_ in per_sel.items():
                win = lose = 0.0
                for o in os_:
                    sgn = 1 if o["side"] == "BACK" else -1
                    for f in o["frags"]:
                        win += sgn * (f[1] - 1) * f[2]; lose += -sgn * f[2]
                    if not o["complete"] and o["remaining"] > 0:
                        w, l = sgn * (o["price"] - 1) * o["remaining"], -sgn * o["remaining"]
                        win += min(0, w); lose += min(0, l)
                if -min(win, lose) > lim + 0.05:
                    bbad3.append((i, -min(win, lose))); break
            else:
                continue
            break
    ck.family("reused_trades_and_transactions_in_instalments", len(scs3), len(scs3), [], sorted({i for i, _ in bbad3}),
              dist={"placements_accepted": sum(1 for io in impl4 for r in io["requests"] if r[3] == "place" and r[5] is True),
                    "placements_refused": sum(1 for io in impl4 for r in io["requests"] if r[3] == "place" and r[5] is False)})
    for i, w in bbad3[:2]:
        ck.fail("C01-bound", "under max_selection_exposure=%s and the default max_live_trade_count=1 (re-used trades / a transaction sent in instalments) the strategy's worst-case loss on a selection reached %.2f" % (scs3[i]["_limit"] / 100, w),
                {"scenario": scs3[i], "worst_seen": w, "how": "harness/impl/simlib.py on the real FlumineSimulation"})
    # ---- live execution: the decision on the next order of a selection after the previous one was acknowledged by the place response
    #      (with or without a fill), before and after the order stream has shown it
    import livegen
    lcases, lexp = [], []
    for _ in range(120 if thorough else 40):
        lim = rng.choice([5, 10, 15])
        side = rng.choice(["BACK", "LAY"])
        sel = rng.choice([101, 202])
        steps = [["book", "OPEN"]]
        total, exp = 0, []
        for k in range(rng.randrange(2, 6)):
            size = rng.choice([200, 300, 400, 600])
            steps.append(["place", 0, sel, side, 200, size, None, False])       # price 2.00: a LAY risks its size as well
            ok = total + size <= lim * 100
            exp.append(ok)
            if ok:
                total += size
                steps.append(["deliver", 0, {"reports": [{"status": "SUCCESS", "matched_frac": rng.choice([0, 0, 1, 2])}], "perm": "id"}])
                if rng.random() < 0.4:
                    steps.append(["stream", "full"])
                elif rng.random() < 0.4:
                    # the bet is matched in full at the exchange, a cancel loses the race (FAILURE: bet taken) and is answered BEFORE the stream
                    # reports the fill: the order still counts in full afterwards
                    steps += [["xfill", 0, 2], ["req", "cancel", 0, None, True], ["deliver", 0, livegen.CLEAN], ["stream", "full"]]
        lcases.append({"strategies": 1, "limits": {"max_sel": lim, "max_trades": 10 ** 6, "max_live": 10 ** 6, "multi": False, "reset": 0.0, "place_reset": 0.0}, "steps": steps})
        lexp.append(exp)
    louts = run_impl_parallel("livelib", [{"job": "exec", "cases": ch} for ch in chunked(lcases, 10)], timeout=3600)
    lres = [r for o in louts for r in o["out"]]
    lbad = []
    ndec = 0
    for i, (c, r, exp) in enumerate(zip(lcases, lres, lexp)):
        got = [ob["res"]["results"][0] is True for ob, step in zip(r, c["steps"])
               if step[0] == "place" and isinstance(ob.get("res"), dict) and isinstance(ob["res"].get("results"), list) and ob["res"]["results"]]
        ndec += len(got)
        if got != exp:
            lbad.append((i, got, exp))
    ck.family("live_decisions_after_acknowledgement", len(lcases), len(lcases), [], [i for i, *_ in lbad], dist={"decisions": ndec})
    for i, got, exp in lbad[:2]:
        ck.fail("C01-live-decision", "live execution under max_selection_exposure=%s: placements accepted %s, the limit (counting every acknowledged order in full) allows %s" % (lcases[i]["limits"]["max_sel"], got, exp),
                {"case": lcases[i], "accepted": got, "expected": exp, "how": "harness/impl/livelib.py job exec (real Flumine + BetfairExecution against an exchange double)"})
    ck.assumptions.append("the consequence clause (bound along any later history) is proved only as a one-step invariant over accepted placements; its preservation by fills/cancels/lapses/SP conversion is tested on whole runs, not proved (partial)")
    return ck.finish("real StrategyExposure control on random blotters of real orders (0-3 orders on 1-3 selections, all types/statuses) x candidate order or existing order (REPLACE) x each of the three limits set or None x active runners / winners: accept/refuse and VIOLATION status compared in Coq with the model (both tie-breaks) + brute-force property checker on the implementation's decision; whole simulation runs under limits with the per-tick worst-case loss recomputed independently")


def replay(path):
    print(open(path).read()); return 0

"""C17 — price helpers and order validation agree with the exchange's ladders."""
import json, math, random, sys, os
from common import *

PID = "C17"
HDR = "From V Require Import Model.Num Model.Ladder Gen.LadderC Model.C17Cases.\nOpen Scope Z_scope.\n"


def gen():
    p = subprocess.run([PY_IMPL, os.path.join(VERIF, "harness/impl/gen_consts.py"), "ladder"],
                       env=impl_env(), stdout=subprocess.PIPE, stderr=subprocess.PIPE)
    return p.returncode == 0, p.stderr.decode()[-2000:]


def spec_ticks():
    """the published increment table, independent of the module (cents)"""
    bands = [(101, 200, 1), (200, 300, 2), (300, 400, 5), (400, 600, 10), (600, 1000, 20), (1000, 2000, 50),
             (2000, 3000, 100), (3000, 5000, 200), (5000, 10000, 500), (10000, 100000, 1000)]
    out = []
    for lo, hi, inc in bands:
        out += list(range(lo, hi, inc))
    return out + [100000]


def main():
    ck = Check(PID)
    rng = random.Random(seed())
    thorough = tier() == "thorough"
    ok, err = gen()
    if not ok:
        ck.broken.append({"kind": "generator", "what": "gen_consts ladder failed", "err": err})
        return ck.finish("generator failed")
    built = ck.build_props(["Model/C17Cases.vo"])
    if not built:
        # the model library may still be buildable for the search
        coq_build(["Model/C17Cases.vo"])

    # ---- family 1: get_nearest_price on the 0.001 grid over [0, 1100] (exhaustive)
    step = 110000
    jobs = [{"job": "nearest_grid", "lo": lo, "hi": min(lo + step, 1100001)} for lo in range(0, 1100001, step)]
    outs = run_impl_parallel("c17", jobs)
    chunks, tot = [], 0
    for j, o in zip(jobs, outs):
        rle = o["out"]
        tot += sum(c for _, c in rle)
        chunks.append("Definition rle : list (Z*Z) := %s.\nEval vm_compute in grid_bad MIN_PRICE MAX_PRICE CUTOFFS %s (expand rle) 20%%nat.\n" % (
            cl("(%s, %s)" % (z(v), z(c)) for v, c in rle), z(j["lo"])))
    bad = []
    for o in coq_eval("c17grid", HDR, chunks):
        bad += parse_nlist(parse_evals(o)[0])
    distinct = len({v for o in outs for v, _ in o["out"]})
    ck.family("nearest_grid_0.001", tot, distinct, bad, bad, exhaustive=True,
              dist={"points": tot, "distinct_results": distinct},
              samples=[{"family": "nearest_grid", "input": "k/1000 for k in [0,1100000]", "rle_head": outs[1]["out"][:3]}])
    for k in bad[:5]:
        ck.fail("C17-nearest", "get_nearest_price(%s) is not the closest tick (ties up) of the exchange ladder" % (k / 1000),
                {"call": "flumine.utils.get_nearest_price", "arg": k / 1000})

    # ---- family 2: mid-points of adjacent ticks, ticks, cut-offs and their float neighbours
    ticks = spec_ticks()
    pts = set()
    def around(x, n=3):
        pts.add(x)
        a = b = x
        for _ in range(n):
            a = math.nextafter(a, -math.inf); b = math.nextafter(b, math.inf)
            pts.add(a); pts.add(b)
    for a, b in zip(ticks, ticks[1:]):
        around((a + b) / 200)
    for t in ticks:
        around(t / 100, 2)
    for x in (0.0, -1.0, 1.0, 1.005, 1.01, 1.0149999, 1000.0, 1000.01, 1005.0, 1100.0, 1e6, 5e-324, 0.1 + 0.2):
        around(x, 2)
    for _ in range(20000 if thorough else 3000):
        around(rng.uniform(0.5, 1100.0), 0)
        around(round(rng.uniform(1.0, 1100.0), rng.choice([1, 2, 3, 4, 5])), 1)
    pts = sorted(p for p in pts if p == p and abs(p) < 1e12)
    outs2 = run_impl_parallel("c17", [{"job": "nearest_points", "points": [x.hex() for x in ch]} for ch in chunked(pts, 4000)])
    cases = [c for o in outs2 for c in o["out"]]
    chunks = ["Definition cases : list (Z*Z*Z) := %s.\nEval vm_compute in firstn 20 (bad_idx point_ok cases).\n" % cl(
        "(%s, %s, %s)" % (z(n), z(d), z(e)) for n, d, e in ch) for ch in chunked(cases, 2000)]
    bad2 = []
    for i, o in enumerate(coq_eval("c17pts", HDR, chunks)):
        bad2 += [i * 2000 + k for k in parse_nlist(parse_evals(o)[0])]
    ck.family("nearest_midpoints_float_neighbours", len(cases), len({e for _, _, e in cases}), bad2, bad2,
              dist={"points": len(cases)}, samples=[{"family": "nearest_points", "n/d->cents": cases[len(cases) // 2]}])
    for k in bad2[:5]:
        n, d, e = cases[k]
        ck.fail("C17-nearest", "get_nearest_price(%s/%s) = %s cents is not the closest tick" % (n, d, e),
                {"call": "flumine.utils.get_nearest_price", "arg_rational": [n, d], "returned_cents": e})

    # ---- family 2b: both ladders interleaved in one process (classic, Betdaq, classic again) on the 0.01 grid + random 0.001 points
    mpts = sorted(set(list(range(900, 110100, 10)) + [rng.randrange(0, 1100000) for _ in range(20000 if thorough else 4000)]))
    mo = run_impl_parallel("c17", [{"job": "nearest_mixed", "points": ch} for ch in chunked(mpts, 20000)])
    mcases = [c for o in mo for c in o["out"]]
    chunks = ["Definition cases : list (Z*Z*Z*Z*Z) := %s.\nEval vm_compute in firstn 20 (bad_idx mixed_ok cases).\n" % cl(
        "(%s, %s, %s, %s, %s)" % tuple(z(x) for x in c) for c in ch) for ch in chunked(mcases, 5000)]
    badm = []
    for i, o in enumerate(coq_eval("c17mix", HDR, chunks)):
        badm += [i * 5000 + k for k in parse_nlist(parse_evals(o)[0])]
    ck.family("nearest_both_ladders_interleaved", len(mcases), len({(c[1], c[2]) for c in mcases}), badm, badm,
              dist={"points": len(mcases)}, samples=[{"family": "nearest_mixed", "k/1000,classic,betdaq,classic,betdaq": mcases[len(mcases) // 3]}])
    for k in badm[:5]:
        ck.fail("C17-nearest", "get_nearest_price(%s) on the classic / Betdaq ladder (called alternately in one process) is not the closest tick of the ladder asked for: %s" % (mcases[k][0] / 1000, mcases[k][1:]),
                {"call": "get_nearest_price(x), get_nearest_price(x, BETDAQ_CUTOFFS) alternately", "x": mcases[k][0] / 1000, "returned_cents": mcases[k][1:]})

    # ---- family 3: price_ticks_away, every tick x every n in [-400, 400] (+ non-ticks -> ValueError)
    nlo, nhi = -400, 400
    fams = [("classic", ticks + [100, 201, 1001, 100001, 0], "MIN_PRICE MAX_PRICE PRICES")]
    bq = run_impl("c17", {"job": "ticks", "ladder": "betdaq", "prices": [], "nlo": 0, "nhi": 0})  # smoke
    for lname, plist, coqargs in fams:
        jobs = [{"job": "ticks", "ladder": lname, "prices": ch, "nlo": nlo, "nhi": nhi} for ch in chunked(plist, 45)]
        outs3 = run_impl_parallel("c17", jobs)
        chunks, rows = [], []
        for j, o in zip(jobs, outs3):
            rs = list(zip(j["prices"], o["out"]))
            rows += rs
            chunks.append("Definition cases : list (Z * list (option Z)) := %s.\nEval vm_compute in bad_idx (ticks_row_ok %s %s) cases.\n" % (
                cl("(%s, %s)" % (z(p), cl(copt(e) for e in row)) for p, row in rs), coqargs, z(nlo)))
        bad3 = []
        for i, o in enumerate(coq_eval("c17ticks", HDR, chunks)):
            bad3 += [i * 45 + k for k in parse_nlist(parse_evals(o)[0])]
        ck.family("ticks_away_" + lname, len(rows) * (nhi - nlo + 1), len(rows), bad3, bad3, exhaustive=True,
                  dist={"prices": len(rows), "n_range": [nlo, nhi]},
                  samples=[{"family": "ticks_away", "price_cents": rows[10][0], "n=-2..2": rows[10][1][398:403]}])
        for k in bad3[:5]:
            ck.fail("C17-ticks", "price_ticks_away from %s does not land n ticks away for some n in [-400,400]" % (rows[k][0] / 100),
                    {"call": "flumine.utils.price_ticks_away", "price": rows[k][0] / 100, "n_range": [nlo, nhi]})

    # ---- family 4: FINEST ladder in full (implementation side; the model side is finest_is_spec)
    fo = run_impl("c17", {"job": "finest"})["out"]
    ck.family("finest_ladder_full", fo["len"], 2, [] if fo["ok"] else ["FINEST_PRICES"], [] if fo["ok"] else ["FINEST_PRICES"], exhaustive=True)
    if not fo["ok"]:
        ck.fail("C17-finest", "FINEST_PRICES is not 1.01..999.99 by 0.01 followed by 1000", {"call": "flumine.utils.FINEST_PRICES"})

    # ---- family 5: OrderValidation on real orders
    cur = json.loads(subprocess.run([PY_IMPL, "-c", "import json;from betfairlightweight.metadata import currency_parameters as c;print(json.dumps(c))"],
                                    env=impl_env(), stdout=subprocess.PIPE).stdout.decode().splitlines()[-1])
    vcases = []
    def add(x, curcode, minval, side, t):
        vcases.append({"x": x, "cur": curcode, "minval": minval, "side": side, "t": t})
    allp = sorted(set(ticks))
    for code in sorted(cur):
        mb, mp, ml = (int(round(cur[code][k] * 1000)) for k in ("min_bet_size", "min_bet_payout", "min_bsp_liability"))
        # exact-equality points price*size == payout (the only place a float product could flip the test)
        for p in allp:
            num = mp * 100  # payout(1/1000)*1000 / (p cents*10)
            if num % p == 0:
                s = num // p           # size in 1/1000
                for ds in (-10, 0, 10):
                    if s + ds > 0:
                        add("betfair", code, True, "BACK", {"k": "L", "p": p * 10, "s": s + ds, "ld": ["CLASSIC"]})
        for _ in range(40 if thorough else 12):
            p = rng.choice(allp)
            for s in (mb - 10, mb - 1, mb, mb + 10, 0, -10, 1, 10, 15, rng.randrange(1, mb + 50), mp * 1000 // (p * 10), mp * 1000 // (p * 10) + 1):
                add("betfair", code, rng.random() < 0.85, rng.choice(["BACK", "LAY"]), {"k": "L", "p": p * 10, "s": s, "ld": ["CLASSIC"]})
        for side in ("BACK", "LAY"):
            for l in (mb - 10, mb - 1, mb, mb + 10, ml - 10, ml - 1, ml, ml + 10, 0, -10, 5, 15):
                add("betfair", code, True, side, {"k": "MOC", "l": l})
                add("betfair", code, True, side, {"k": "LOC", "l": l, "p": rng.choice(allp) * 10, "ld": ["CLASSIC"]})
                add("betfair", code, False, side, {"k": "MOC", "l": l})
    # prices around every tick on the 0.001 grid, classic / finest / betdaq / line
    for p in allp:
        for dp in (-10, -5, -1, 0, 1, 5, 10):
            add("betfair", "GBP", True, "BACK", {"k": "L", "p": p * 10 + dp, "s": 2000, "ld": ["CLASSIC"]})
    # the ends of every ladder, on every run: the first and last ticks and their neighbours on the 0.001 grid
    for p in (990, 1000, 1005, 1009, 1010, 1011, 1015, 1020, 1030, 999980, 999990, 999995, 1000000, 1000005, 1000010, 1010000):
        for side in ("BACK", "LAY"):
            for ladder in ("CLASSIC", "FINEST"):
                add("betfair", "GBP", True, side, {"k": "L", "p": p, "s": 2000, "ld": [ladder]})
                add("betfair", "GBP", True, side, {"k": "LOC", "p": p, "l": 2000, "ld": [ladder]})
            add("betdaq", "GBP", True, side, {"k": "L", "p": p, "s": 2000})
    for _ in range(3000 if thorough else 600):
        p = rng.choice([rng.randrange(900, 100200) * 10 + rng.choice([0, 0, 0, 1, 5]), rng.choice(allp) * 10])
        add("betfair", "GBP", True, rng.choice(["BACK", "LAY"]), {"k": "L", "p": p, "s": rng.choice([2000, 2005, 500, 10000]), "ld": ["FINEST"]})
        add("betdaq", "GBP", True, rng.choice(["BACK", "LAY"]), {"k": "L", "p": p, "s": rng.choice([2000, 2005, 0, 10000])})
        add("betfair", "GBP", True, "BACK", {"k": "LOC", "p": p, "l": rng.choice([2000, 10000, 10005]), "ld": [rng.choice(["CLASSIC", "FINEST"])]})
        lo = rng.randrange(0, 200) * 500; n = rng.randrange(1, 40); stepv = rng.choice([500, 1000])
        hi = lo + n * stepv + rng.choice([0, 0, 250])
        lp = rng.choice([lo + rng.randrange(-2, n + 3) * stepv, lo + rng.randrange(0, n) * stepv + rng.choice([0, 250, 1]), lo, hi])
        add("betfair", "GBP", True, rng.choice(["BACK", "LAY"]), {"k": "L", "p": lp, "s": rng.choice([2000, 100, 2001]), "ld": ["LINE_RANGE", lo, hi, stepv]})
    # line markets sharing unit / minimum / maximum but not the interval (half- vs whole-unit lines), validated by ONE control instance in
    # both orders: every price of the finer ladder on each of them
    for _ in range(30 if thorough else 8):
        lo = rng.randrange(0, 40) * 1000; n = rng.randrange(2, 12); hi = lo + n * 1000
        for stepv in rng.choice([[500, 1000, 500], [1000, 500, 1000]]):
            for k in range(0, 2 * n + 1):
                add("betfair", "GBP", True, rng.choice(["BACK", "LAY"]), {"k": "L", "p": lo + k * 500, "s": 2000, "ld": ["LINE_RANGE", lo, hi, stepv]})
    outs5 = run_impl_parallel("c17", [{"job": "validate", "cases": ch} for ch in chunked(vcases, 4000)])
    vres = [r for o in outs5 for r in o["out"]]
    def coq_case(c, r):
        code = c["cur"]
        cli = "{| min_validation := %s; min_bet_size := %s; min_bet_payout := %s; min_bsp_liability := %s |}" % (
            cb(c["minval"]), *(z(int(round(cur[code][k] * 1000))) for k in ("min_bet_size", "min_bet_payout", "min_bsp_liability")))
        t = c["t"]
        def ld(l):
            return {"CLASSIC": "Classic", "FINEST": "Finest"}.get(l[0]) or "(LineRange %s %s %s)" % (z(l[1]), z(l[2]), z(l[3]))
        if c["x"] == "betdaq":
            ty = "(VLimit %s %s Classic)" % (z(t["p"]), z(t["s"]))
        elif t["k"] == "L":
            ty = "(VLimit %s %s %s)" % (z(t["p"]), z(t["s"]), ld(t["ld"]))
        elif t["k"] == "LOC":
            ty = "(VLimitOnClose %s %s %s)" % (z(t["p"]), z(t["l"]), ld(t["ld"]))
        else:
            ty = "(VMarketOnClose %s)" % z(t["l"])
        return "(%s, %s, %s, %s, %s)" % ("XBetdaq" if c["x"] == "betdaq" else "XBetfair", cli, "VBack" if c["side"] == "BACK" else "VLay", ty, cb(r))
    chunks = ["Definition cases := %s.\nEval vm_compute in bad_idx validate_ok cases.\n" % cl(coq_case(c, r) for c, r in ch)
              for ch in chunked(list(zip(vcases, vres)), 1500)]
    bad5 = []
    for i, o in enumerate(coq_eval("c17val", HDR, chunks)):
        bad5 += [i * 1500 + k for k in parse_nlist(parse_evals(o)[0])]
    # a live BetfairClient whose account details arrive after the first orders were validated
    groups = []
    for code in sorted(cur):
        mb, mp, ml = (int(round(cur[code][k] * 1000)) for k in ("min_bet_size", "min_bet_payout", "min_bsp_liability"))
        gb, gp, gl = (int(round(cur["GBP"][k] * 1000)) for k in ("min_bet_size", "min_bet_payout", "min_bsp_liability"))
        def some(b, pay, l):
            cs = []
            for s_ in (b - 10, b, b + 10, 1000, 2000):
                if s_ > 0:
                    cs.append({"side": rng.choice(["BACK", "LAY"]), "t": {"k": "L", "p": 2000, "s": s_, "ld": ["CLASSIC"]}})
            cs.append({"side": "BACK", "t": {"k": "L", "p": 100000, "s": max(10, pay // 100), "ld": ["CLASSIC"]}})     # under the minimum stake, payout reached
            for l_ in (l - 10, l, l + 10, b, 10000):
                if l_ > 0:
                    cs.append({"side": "LAY", "t": {"k": "MOC", "l": l_}})
                    cs.append({"side": "BACK", "t": {"k": "LOC", "l": l_, "p": 2000, "ld": ["CLASSIC"]}})
            return cs
        # in half of the groups the poll that brings the details fails to fetch the account FUNDS (an API error on that call only)
        groups.append({"cur": code, "pre": some(gb, gp, gl) + some(mb, mp, ml), "post": some(mb, mp, ml) + some(gb, gp, gl), "funds_fail": rng.random() < 0.5})
    bo = run_impl_parallel("c17", [{"job": "validate_bf", "groups": ch} for ch in chunked(groups, 8)])
    bres = [r for o in bo for r in o["out"]]
    brows = []
    for g, r in zip(groups, bres):
        for c, ok in zip(g["pre"], r["pre"]):
            brows.append((dict(c, x="betfair", cur="GBP", minval=True), ok, g["cur"], "before"))
        for c, ok in zip(g["post"], r["post"]):
            brows.append((dict(c, x="betfair", cur=g["cur"], minval=True), ok, g["cur"], "after"))
    bbad = []
    for i, o in enumerate(coq_eval("c17bf", HDR, ["Definition cases := %s.\nEval vm_compute in bad_idx validate_ok cases.\n" % cl(coq_case(c, r) for c, r, _, _ in ch)
                                                  for ch in chunked(brows, 1500)])):
        bbad += [i * 1500 + k for k in parse_nlist(parse_evals(o)[0])]
    ck.family("validation_account_details_arrive_late", len(brows), len(brows), bbad, bbad, dist={"currencies": len(groups)})
    for i in bbad[:3]:
        c, ok, code, when = brows[i]
        ck.fail("C17-validate", "BetfairClient(%s), order validated %s the account details arrived: %s although the %s minimums say otherwise" % (
            code, when, "accepted" if ok else "refused", "GBP fall-back" if when == "before" else code), {"call": "OrderValidation._validate on a real BetfairClient", "currency": code, "phase": when, "order": c, "accepted": ok})
    nacc = sum(vres)
    ck.family("order_validation", len(vcases), len({json.dumps(c, sort_keys=True) for c in vcases}), bad5, bad5,
              dist={"accepted": nacc, "refused": len(vres) - nacc, "currencies": len(cur)},
              samples=[{"family": "validate", "case": vcases[5], "accepted": vres[5]}])
    for k in bad5[:5]:
        ck.fail("C17-validate", "OrderValidation %s an order that the exchange rules %s" % (
            "accepts" if vres[k] else "refuses", "refuse" if vres[k] else "allow"), {"call": "OrderValidation", "case": vcases[k], "impl_accepts": vres[k]})

    return ck.finish("exhaustive 0.001 grid [0,1100] + tick mid-points/ticks/cut-offs with float neighbours + every tick x n in [-400,400] + FINEST in full + OrderValidation on real orders (19 currencies, exact-equality payout points, 0.001 grid around ticks, line ranges, Betdaq); distinct = distinct results / distinct cases; the helper functions are fully determined by the property, so a model/implementation mismatch is itself a failing input")


def replay(path):
    r = json.load(open(path))
    print(json.dumps(r, indent=1))
    return 0

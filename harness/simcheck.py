"""Shared body of the checks that run against the simulation model (Model/Sim.v, Model/SimLoop.v)."""
import random, json
from common import *
import simgen, simrun, propcheck


def gen_status(ck):
    p = subprocess.run([PY_IMPL, os.path.join(VERIF, "harness/impl/gen_consts.py"), "status"], env=impl_env(), stdout=subprocess.PIPE, stderr=subprocess.PIPE)
    if p.returncode != 0:
        ck.broken.append({"kind": "generator", "what": "gen_consts status failed", "err": p.stderr.decode()[-1500:]})
        return False
    return True


def run_family(ck, fname, scs, propfn, keyprefix, what, hyp=False):
    hyps = None
    if hyp:
        codes, impl, hyps = simrun.run_batch(scs, name=ck.pid.lower() + fname, hyp=True)
    else:
        codes, impl = simrun.run_batch(scs, name=ck.pid.lower() + fname)
    mism = [i for i, c in enumerate(codes) if c >= 1000]
    amb = sum(1 for c in codes if c == 1)
    pf = []
    for i, (sc, io) in enumerate(zip(scs, impl)):
        for key, desc, detail in propfn(sc, io):
            pf.append((i, key, desc, detail))
    nreq = sum(len(io["requests"]) for io in impl)
    nfr = sum(len(o["frags"]) for io in impl for o in io["final"])
    nontriv = len({json.dumps(s["script"], sort_keys=True) for s, io in zip(scs, impl) if any(o["frags"] for o in io["final"]) or len(io["packages"]) > 2})
    hd = {}
    if hyps is not None:
        # side conditions of the whole-run theorem: bit 1 says whether the scenario is inside the theorem's domain (no removal, no
        # reconciled SP, positive ladders); bit 0 (placement packages find their order as created) must hold on EVERY scenario of the
        # domain (outside it a runner removal may void an order before its placement is executed)
        # bit 2: side condition of the acknowledgement-time theorem (C07_run_ack_after_latency), which has no domain restriction: every scenario
        bad = [i for i, h in enumerate(hyps) if h % 4 == 2]
        bad_ack = [i for i, h in enumerate(hyps) if h % 8 < 4]
        bad_keys = [i for i, h in enumerate(hyps) if h % 16 < 8]     # bit 3: every (market, name) used once by the script, names < 1000 (names theorem, C13)
        hd = {"in_theorem_domain": sum(1 for h in hyps if h % 4 >= 2), "in_domain_and_guard_holds": sum(1 for h in hyps if h % 4 == 3),
              "guard_holds_any": sum(1 for h in hyps if h % 2 == 1), "ack_guard_holds": len(hyps) - len(bad_ack), "names_used_once": len(hyps) - len(bad_keys), "static_domain": sum(1 for h in hyps if (h >> 4) & 1 and (h >> 3) & 1),
              "lifecycle_theorem_domain": sum(1 for h in hyps if (h >> 3) & 1 and (h >> 4) & 1 and (h >> 5) & 1), "lifecycle_conclusion_holds_on_model": sum(1 for h in hyps if (h >> 6) & 1)}
        # bit 4: static side conditions (configuration, initial state, books with bet delays).  With bit 3 they imply bits 0 and 2 by theorem
        # (guards_hold): an evaluation that contradicts this means the model or the evaluation is broken
        contra = [i for i, h in enumerate(hyps) if (h >> 4) & 1 and (h >> 3) & 1 and (h % 2 == 0 or h % 8 < 4)]
        if contra:
            ck.broken.append({"kind": "hypothesis", "what": "static side conditions hold but a guard evaluates to false (contradicts guards_hold) in family " + fname,
                              "first": contra[:3], "scenarios": [{"index": i, "scenario": scs[i]} for i in contra[:2]]})
        # bits 3, 4, 5 (names once, static domain, positive sizes) make bit 6 (every status log a lifecycle path, one package per order) a theorem
        # (C03_sim_run_lifecycle_legal, C03_sim_run_one_operation_outstanding)
        contra2 = [i for i, h in enumerate(hyps) if (h >> 3) & 1 and (h >> 4) & 1 and (h >> 5) & 1 and not (h >> 6) & 1]
        if contra2:
            ck.broken.append({"kind": "hypothesis", "what": "the hypotheses of C03_sim_run_lifecycle_legal hold but its conclusion evaluates to false on the model in family " + fname,
                              "first": contra2[:3], "scenarios": [{"index": i, "scenario": scs[i]} for i in contra2[:2]]})
        hd_keys = len(hyps) - len(bad_keys)
        if bad_keys:
            ck.broken.append({"kind": "hypothesis", "what": "keys_ok_b (hypothesis of C13_order_names_unique_in_every_reachable_state) is false on scenario(s) of family " + fname,
                              "first": bad_keys[:3], "scenarios": [{"index": i, "scenario": scs[i]} for i in bad_keys[:2]]})
        if bad_ack:
            ck.broken.append({"kind": "hypothesis", "what": "run_ack_guard_b (hypothesis of C07_run_ack_after_latency) is false on scenario(s) of family " + fname,
                              "first": bad_ack[:3], "scenarios": [{"index": i, "scenario": scs[i]} for i in bad_ack[:2]]})
        if bad:
            ck.broken.append({"kind": "hypothesis", "what": "run_guard_b (hypothesis of C04_run_conserves) is false on scenario(s) of family " + fname,
                              "first": bad[:3], "scenarios": [{"index": i, "scenario": scs[i]} for i in bad[:2]]})
    ck.family(fname, len(scs), nontriv, mism, sorted({i for i, *_ in pf}), ambiguous=amb,
              dist={**hd, "scenarios": len(scs), "requests": nreq, "packages": sum(len(io["packages"]) for io in impl), "fragments": nfr,
                    "runs_aborted_by_impl": sum(1 for io in impl if io["error"]), "events": sum(len(simgen.event_order(s)) for s in scs)},
              samples=[{"family": fname, "scenario_script": scs[0]["script"][:2], "final_orders": impl[0]["final"][:1]}])
    seen = set()
    for i, key, desc, detail in pf:
        if key in seen:
            continue
        seen.add(key)
        ck.fail(key, desc, {"scenario": scs[i], "detail": detail, "how": "harness/impl/simlib.py run_scenario(simgen.to_impl(scenario)) on the real FlumineSimulation"})
    for i in mism[:3]:
        # a model/implementation disagreement without a property failure: kept in the replay of a no-failing-input verdict
        ck.broken[-1].setdefault("scenarios", []).append({"index": i, "code": codes[i], "scenario": scs[i]})
    return codes, impl

"""The BETDAQ path of a live Flumine (harness/impl/betdaqlib.py): outside the Coq live model (which is the Betfair execution); implementation +
independent checkers only.  Scripts of placements (answer possibly held back so that the order poll overtakes it), exchange-side matches, order
polls (BETDAQ reports only what changed since the last poll), price changes and cancels.
  C03  every status log is a path of the documented lifecycle; an order reported complete never becomes live again
  C15  every order that is not complete is in the live list exactly once, every order is in the blotter exactly once
  C16  at quiescence (nothing outstanding, the last poll processed) the exposures the blotter reports equal the worst case computed by brute force
       from the bets as the EXCHANGE holds them - for the selections whose every bet was reported to an order that already knew its bet id
       (a row polled while the placement answer is still on its way is dropped by the pinned code and never repeated: `# todo pick up NoReceipt orders`)
"""
import itertools, random
from common import *
import propcheck


def gen_case(rng):
    steps, names, k = [], [], 0
    held = []
    for _ in range(rng.randrange(6, 15)):
        r = rng.random()
        if r < 0.3 or not names:
            k += 1
            nm = "b%d" % k
            hold = rng.random() < 0.3
            steps.append(["place", nm, rng.choice([101, 101, 102, 103]), rng.choice(["BACK", "LAY"]), rng.choice([150, 200, 300, 400, 600]), rng.choice([200, 230, 460, 500, 1000]), hold])
            names.append(nm)
            if hold:
                held.append(nm)
        elif r < 0.45:
            steps.append(["xmatch", rng.choice(names), rng.choice([1, 2])])
        elif r < 0.7:
            steps.append(["poll"])
        elif r < 0.8 and held:
            steps.append(["release", held.pop(rng.randrange(len(held)))])
        elif r < 0.92:
            steps.append(["update", rng.choice(names), rng.choice([150, 200, 300, 400, 500, 600])])
        else:
            steps.append(["cancel", rng.choice(names)])
    for nm in held:
        steps.append(["release", nm])
    steps += [["poll"], ["poll"]]
    return {"steps": steps}


def worst_case(bets):
    mw = ml = 0.0
    open_ = []
    for b in bets:
        ms, mp = b["matched_size"], b["matched_price"]
        if ms:
            if b["side"] == "BACK":
                mw += (mp - 1) * ms; ml -= ms
            else:
                mw -= (mp - 1) * ms; ml += ms
        if b["status"] in ("Unmatched", "Suspended") and b["remaining_size"]:
            open_.append(b)
    ww = wl = None
    for r in range(len(open_) + 1):
        for sub in itertools.combinations(open_, r):
            w, l = mw, ml
            for b in sub:
                p, s = b["price"], b["remaining_size"]
                if b["side"] == "BACK":
                    w += (p - 1) * s; l -= s
                else:
                    w -= (p - 1) * s; l += s
            ww = w if ww is None else min(ww, w)
            wl = l if wl is None else min(wl, l)
    return round(ww, 2), round(wl, 2)


def check_case(case, out):
    bad = []
    if out.get("error"):
        return [("C03-betdaq-run", "the BETDAQ script raised %s" % out["error"][:300])]
    done = {}
    lost = set()           # orders a polled row of which arrived before they knew their bet id
    prev = None
    for si, (st, d) in enumerate(zip(case["steps"], out["steps"])):
        if st[0] == "poll" and prev is not None:
            known = {o["o"]: o["bet"] for o in prev["orders"]}
            for o in d["orders"]:
                if known.get(o["o"]) is None and any(b["status"] != "Unmatched" or b["matched_size"] for b in d["exchange"] if o["bet"] is None or b["order_id"] == o["bet"]):
                    pass
            for o in prev["orders"]:
                if o["bet"] is None:
                    lost.add(o["o"])      # conservative: whatever was polled while it had no bet id may have been dropped
        for o in d["orders"]:
            seq = [None] + o["log"]
            for a, b in zip(seq, seq[1:]):
                if (a, b) not in propcheck.LEGAL and (a, b) not in propcheck.STUTTER:
                    bad.append(("C03-illegal-transition", "BETDAQ order %s went %s -> %s (log %s) at step %d %s" % (o["o"], a, b, o["log"], si, st)))
            if o["o"] in done and not o["complete"]:
                bad.append(("C03-live-again-after-complete", "BETDAQ order %s was complete at step %d and is %s at step %d %s" % (o["o"], done[o["o"]], o["status"], si, st)))
            if o["complete"]:
                done.setdefault(o["o"], si)
            if o["status"] is not None and o["status"] != "Violation":
                if not o["complete"] and o["in_live"] != 1:
                    bad.append(("C15-live-list", "BETDAQ order %s is not complete (%s) but is %d times in the live list at step %d %s" % (o["o"], o["status"], o["in_live"], si, st)))
                if o["in_live"] > 1 or o["in_blotter"] != 1:
                    bad.append(("C15-views", "BETDAQ order %s is %d times in the live list and %d times in the blotter at step %d" % (o["o"], o["in_live"], o["in_blotter"], si)))
        # exposures at quiescence against the exchange's bets
        if st[0] == "poll" and not d["outstanding"] and all(o["status"] in ("Executable", "Execution complete", "Violation", None) for o in d["orders"]):
            byref = {}
            for o in d["orders"]:
                byref[o["bet"]] = o
            for sel, got in d["exposures"].items():
                os_ = [o for o in d["orders"] if str(o["sel"]) == sel]
                if any(o["o"] in lost or o["bet"] is None for o in os_):
                    continue
                bets = [b for b in d["exchange"] if str(b["runner_id"]) == sel]
                if len(bets) != len(os_):
                    continue
                ww, wl = worst_case(bets)
                # the blotter rounds the matched and the unmatched part to the penny separately: within one penny of the exact figure (C16's statement)
                if abs(got[0] - ww) > 0.0101 or abs(got[1] - wl) > 0.0101 or abs(got[2] - max(-min(ww, wl), 0.0)) > 0.0101:
                    bad.append(("C16-betdaq-exposure", "BETDAQ, step %d (after the poll, nothing outstanding): selection %s reported win/lose/exposure %s, the worst case over the bets the exchange holds is %s / %s; local orders %s, exchange %s"
                                % (si, sel, got, ww, wl, [(o["o"], o["side"], o["price"], o["matched"], o["remaining"], o["status"]) for o in os_],
                                   [(b["side"], b["price"], b["matched_size"], b["remaining_size"], b["status"]) for b in bets])))
        prev = d
    # C11: at the end (nothing outstanding, two polls processed) each local order agrees with the exchange's bet on matched / remaining size
    last = out["steps"][-1] if out["steps"] else None
    if last is not None and not last["outstanding"]:
        for o in last["orders"]:
            b = next((b for b in last["exchange"] if o["bet"] is not None and b["order_id"] == o["bet"]), None)
            if b is None or o["status"] not in ("Executable", "Execution complete"):
                continue
            if abs((o["matched"] or 0) - b["matched_size"]) > 0.005 or (b["status"] in ("Unmatched", "Suspended") and abs((o["remaining"] or 0) - b["remaining_size"]) > 0.005) \
                    or (b["status"] not in ("Unmatched", "Suspended")) != bool(o["complete"]):
                key = "C11-betdaq-row-before-receipt-dropped" if o["o"] in lost else "C11-betdaq-sizes-differ"
                bad.append((key, "BETDAQ: at the end of the script (nothing outstanding, the order poll processed twice) order %s is %s with matched %s / remaining %s, the exchange holds it as %s with matched %s / remaining %s%s"
                            % (o["o"], o["status"], o["matched"], o["remaining"], b["status"], b["matched_size"], b["remaining_size"],
                               ": the change was polled while the placement receipt was still on its way (no bet id yet), was dropped, and BETDAQ does not report it again" if o["o"] in lost else "")))
    return bad


def run_family(ck, rng, n, fname, keys):
    cases = [gen_case(rng) for _ in range(n)]
    if "C11" in keys:
        # directed: the listed finding F-C11-3 (a change polled before the placement receipt is processed is dropped and never repeated)
        cases.insert(0, {"steps": [["place", "b1", 101, "BACK", 200, 200, True], ["xmatch", "b1", 1], ["poll"], ["release", "b1"], ["poll"], ["poll"]]})
    outs = run_impl_parallel("betdaqlib", [{"job": "script", "cases": ch} for ch in chunked(cases, 5)], timeout=1800)
    res = [r for o in outs for r in o["out"]]
    bad = []
    for i, (c, r) in enumerate(zip(cases, res)):
        seen = set()
        for key, why in check_case(c, r):
            if key.split("-")[0] in keys and key not in seen:
                seen.add(key); bad.append((i, key, why))
    mism = []
    if "C03" in keys:
        # correspondence with the Coq model of the BETDAQ order status machine (Model/Betdaq.v): the events each order went through, in the order the
        # real handlers processed them, replayed by the model; its status log must be the implementation's
        import simgen
        rows, meta = [], []
        for i, (c, r) in enumerate(zip(cases, res)):
            if r.get("error") or not r["steps"]:
                continue
            per = {}
            for nm, ev in r["trace"]:
                per.setdefault(nm, []).append(ev)
            for o in r["steps"][-1]["orders"]:
                if o["status"] is None or o["status"] == "Violation":
                    continue
                rows.append("(%s, %s)" % (cl(per.get(o["o"], [])), cl(simgen.STAT[x] for x in o["log"])))
                meta.append((i, o["o"]))
        hdr = "From V Require Import Model.Num Model.Status Model.Betdaq.\nOpen Scope Z_scope.\n"
        body = "Definition ok (c : list bevent * list status) : bool := list_eqb status_eqb (bo_log (brun (fst c))) (snd c).\nDefinition cases : list (list bevent * list status) := %s.\nEval vm_compute in bad_idx ok cases.\n"
        for k, o in enumerate(coq_eval("betdaqlog", hdr, [body % cl(ch) for ch in chunked(rows, 300)])):
            mism += [k * 300 + x for x in parse_nlist(parse_evals(o)[0])]
        for k in mism[:2]:
            i, nm = meta[k]
            bad.append((i, "C03-betdaq-model", "BETDAQ order %s: the status log %s is not what the model of the handlers gives for the events it went through %s" % (
                nm, next(o["log"] for o in res[i]["steps"][-1]["orders"] if o["o"] == nm), [e for n_, e in res[i]["trace"] if n_ == nm])))
    from collections import Counter
    ck.family(fname, len(cases), len(cases), sorted({meta[k][0] for k in mism}) if mism else [], sorted({i for i, _, _ in bad}),
              dist={"steps": dict(Counter(s[0] for c in cases for s in c["steps"])), "placements_with_the_answer_held_back": sum(1 for c in cases for s in c["steps"] if s[0] == "place" and s[6])})
    for i, key, why in bad[:2]:
        ck.fail(key, why, {"case": cases[i], "how": "harness/impl/betdaqlib.py job script"})

"""C05 — fills never breach the order's limit; fill-or-kill is all-or-nothing."""
import random
from common import *
import simgen, simcheck, propcheck

PID = "C05"


def main():
    ck = Check(PID)
    rng = random.Random(seed())
    thorough = tier() == "thorough"
    if not simcheck.gen_status(ck):
        return ck.finish("generator failed")
    if not ck.build_props(["Model/SimCases.vo"]):
        coq_build(["Model/SimCases.vo"])
    n = 1200 if thorough else 260
    opts = {"p_place": 0.8, "p_fok": 0.45, "p_manage": 0.15, "p_remove": 0.0, "no_remove": True, "p_inplay": 0.03, "kinds": ["L"], "max_upd": 8, "p_full": 0.12}
    scs = [simgen.gen_scenario(rng, opts) for _ in range(n)]
    for s in scs:
        s["clients"][0]["bpe"] = rng.random() < 0.6
    simcheck.run_family(ck, "placements", scs, propcheck.c05, "C05", "placement", hyp=True)
    scs2 = [simgen.gen_scenario(rng, {"kinds": ["L"], "p_fok": 0.25, "no_remove": True, "p_remove": 0.0}) for _ in range(n // 2)]
    simcheck.run_family(ck, "general", scs2, propcheck.c05, "C05", "general", hyp=True)
    # fill-or-kill orders priced behind the best price against 3-6 levels of closely spaced prices and small odd sizes, the limit within a
    # penny or two of the true volume-weighted average of the first k levels (where an average carried in rounded form would decide differently)
    P = simgen.TICKS_BP
    scs3 = []
    for _ in range(n // 2):
        side = rng.choice(["BACK", "LAY"])
        i0 = rng.randrange(8, len(P) - 8)
        nlev = rng.randrange(3, 7)
        idx = [i0 - k * rng.choice([1, 1, 2, 3]) for k in range(nlev)] if side == "BACK" else [i0 + k * rng.choice([1, 1, 2, 3]) for k in range(nlev)]
        idx = sorted(set(max(1, min(len(P) - 2, x)) for x in idx), reverse=(side == "BACK"))
        if len(idx) < 3:
            idx = [i0, i0 - 1, i0 - 2] if side == "BACK" else [i0, i0 + 1, i0 + 2]
        lad = [[P[x], rng.choice([100, 200, 300, 500, 700, 1100, 2000, 2300])] for x in idx]
        k = rng.randrange(2, len(lad) + 1)
        tot = sum(sz for _, sz in lad[:k])
        vw = sum(p_ * sz for p_, sz in lad[:k]) / tot          # basis points
        cand = [x for x in P if abs(x - vw) <= 300]
        price = rng.choice(cand) if cand else lad[k - 1][0]
        size = tot + rng.choice([0, 0, -100, 100])
        t0 = 1_700_000_000_000
        other = {"id": 2, "status": "ACTIVE", "adj": None, "atb": [[30000, 500]], "atl": [[31000, 500]], "trd": []}
        r1 = {"id": 1, "status": "ACTIVE", "adj": None, "atb": lad if side == "BACK" else [[P[max(0, idx[0] - 4)], 500]], "atl": lad if side == "LAY" else [[P[min(len(P) - 1, idx[0] + 4)], 500]], "trd": []}
        ups = [{"pt": t0 + 1000 * j, "status": "OPEN", "version": 1, "inplay": False, "bsp_rec": False, "delay": 0, "runners": [r1, other]} for j in range(3)]
        mf = rng.choice([None, None, max(2, size // 2), max(2, size // 4)])
        scs3.append({"config": {"place_latency": 0.12, "cancel_latency": 0.17, "update_latency": 0.15, "replace_latency": 0.28, "isolation": True},
                     "clients": [{"bpe": True, "full_match": False, "limit": None, "min_val": False}], "strategies": [{"name": "s0", "client": 0}],
                     "markets": [{"id": "1.100000001", "event": "20000001", "group": False, "type": "WIN", "bsp": False, "persist": True, "winners": 1, "updates": ups}],
                     "script": [{"s": 0, "m": 0, "u": 0, "acts": [["place", 1, 1, side, {"t": "L", "p": price, "s": max(2, size), "pt": "LAPSE", "tif": "FILL_OR_KILL", "mf": mf}, {"mv": None}]]}]})
    simcheck.run_family(ck, "fill_or_kill_average_over_many_levels", scs3, propcheck.c05, "C05", "fok-vwap")
    # handicap markets: one selection id on several lines with different books, the 0.0 line not listed first: an order is matched against the book
    # of ITS line (implementation + checker only: the model's books have one runner per selection)
    hscs = []
    for _ in range(40 if thorough else 12):
        lines = [(5001, 50), (5001, 0), (5001, -50), (5002, 0), (5002, 100)]
        rng.shuffle(lines)
        if lines[0][1] == 0:
            lines.append(lines.pop(0))
        book = {ln: (P[4 + 5 * j], P[6 + 5 * j]) for j, ln in enumerate(lines)}     # (best back, best lay): distinct per line
        t0 = 1_700_000_000_000
        def hr():
            return [{"id": sel, "hc": hc / 100, "status": "ACTIVE", "adj": None, "atb": [[book[(sel, hc)][0], 500]], "atl": [[book[(sel, hc)][1], 500]], "trd": []} for sel, hc in lines]
        ups = [{"pt": t0 + 1000 * j, "status": "OPEN", "version": 1, "runners": hr()} for j in range(4)]
        acts, exp = [], {}
        for j, ln in enumerate(rng.sample(lines, 4)):
            side = rng.choice(["BACK", "LAY"])
            cross = rng.random() < 0.6
            bb, bl = book[ln]
            price = (bb if cross else P[P.index(bb) + 1]) if side == "BACK" else (bl if cross else P[P.index(bl) - 1])
            acts.append(["place", j + 1, ln[0], side, {"t": "L", "p": price, "s": 200, "pt": "LAPSE", "tif": None, "mf": None}, {"mv": None, "hc": ln[1] / 100}])
            exp["o%d" % (j + 1)] = (ln, side, price, cross, bb, bl)
        hscs.append({"config": {"place_latency": 0.12, "cancel_latency": 0.17, "update_latency": 0.15, "replace_latency": 0.28, "isolation": True},
                     "clients": [{"bpe": True, "full_match": False, "limit": None, "min_val": False}], "strategies": [{"name": "s0", "client": 0}],
                     "markets": [{"id": "1.100000009", "event": "20000009", "group": False, "type": "ASIAN_HANDICAP", "bsp": False, "persist": True, "winners": 1, "updates": ups}],
                     "script": [{"s": 0, "m": 0, "u": 0, "acts": acts}], "_exp": exp})
    houts = run_impl_parallel("simlib", [{"scenarios": [simgen.to_impl({k: v for k, v in x.items() if not k.startswith("_")}) for x in ch], "observe": "all"} for ch in chunked(hscs, 8)], timeout=1800)
    himpl = [r for o in houts for r in o["out"]]
    hbad = []
    for i, (sc, io) in enumerate(zip(hscs, himpl)):
        if io.get("error"):
            hbad.append((i, "the run aborted: %s" % str(io["error"])[:120])); continue
        for o in io["final"]:
            ln, side, price, cross, bb, bl = sc["_exp"][o["o"]]
            want = [[(bb if side == "BACK" else bl) / 10000, 2.0]] if cross else []
            got = [[f[1], f[2]] for f in o["frags"]]
            if got != want:
                hbad.append((i, "order %s (%s 2.00 @ %s on selection %s line %s, own book %s / %s) has fills %s, its own line's book gives %s" % (o["o"], side, price / 10000, ln[0], ln[1] / 100, bb / 10000, bl / 10000, got, want))); break
    ck.family("handicap_lines_arrival_fills", len(hscs), len(hscs), [], sorted({i for i, _ in hbad}), dist={"orders": sum(len(x["_exp"]) for x in hscs), "lines_per_market": 5})
    for i, why in hbad[:2]:
        ck.fail("C05-own-line", "handicap market: " + why, {"scenario": {k: v for k, v in hscs[i].items() if not k.startswith("_")}})
    # config.simulation_available_prices = True (resting orders also filled from the current book; not in the Coq model): implementation and
    # independent bound only - an update cannot give an order more than its book offers at the limit or better plus what it reports traded
    ascs = []
    for _ in range(120 if thorough else 40):
        a = simgen.gen_scenario(rng, {"kinds": ["L"], "p_fok": 0.0, "no_remove": True, "p_remove": 0.0, "p_manage": 0.1, "p_place": 0.6, "p_trade": 0.5,
                                      "p_susp": 0.0, "p_inplay": 0.0, "nstrats": [1], "nmarkets": [1], "min_upd": 8, "max_upd": 14, "p_full": 0.0})
        a["config"]["available_prices"] = True
        ascs.append(a)
    aouts = run_impl_parallel("simlib", [{"scenarios": [simgen.to_impl(x) for x in ch], "observe": "all"} for ch in chunked(ascs, 10)], timeout=1800)
    aimpl = [r for o in aouts for r in o["out"]]
    abad, nfill = [], 0
    for i, (sc, io) in enumerate(zip(ascs, aimpl)):
        if io.get("error"):
            abad.append((i, "C05-availability", "the run aborted: %s" % str(io["error"])[:120], {})); continue
        nfill += sum(1 for o in io["final"] for f in o["frags"] if f[0] and f[0] > (o.get("placed") or 0))
        for key, why, det in propcheck.c05_available(sc, io)[:1]:
            abad.append((i, key, why, det))
    ck.family("available_prices_mode_bound_per_update", len(ascs), len(ascs), [], sorted({i for i, _, _, _ in abad}), dist={"fills_after_placement": nfill})
    for i, key, why, det in abad[:2]:
        ck.fail(key, "simulation_available_prices: " + why, dict(det, scenario=ascs[i], how="harness/impl/simlib.py with config.available_prices"))
    # several placements in ONE package (a transaction), one of them on a runner that is removed while the package is on its way (voided and
    # completed before the package executes): every other order is still placed with ITS OWN instruction (time in force, minimum fill)
    mscs = []
    for _ in range(45 if thorough else 15):
        i0 = rng.randrange(6, 18)
        t0 = 1_700_000_000_000
        avail = rng.choice([300, 500])
        def rr(sel, removed=False):
            return {"id": sel, "status": "REMOVED" if removed else "ACTIVE", "adj": 1500, "atb": [] if removed else [[P[i0], avail], [P[i0 - 2], 2000]], "atl": [] if removed else [[P[i0 + 1], avail], [P[i0 + 3], 2000]], "trd": []}
        gap = rng.choice([40, 60, 100])
        ups = [{"pt": t0, "status": "OPEN", "version": 1, "runners": [rr(1), rr(2), rr(3)]},
               {"pt": t0 + gap, "status": "OPEN", "version": 2, "runners": [rr(1, True), rr(2), rr(3)]},
               {"pt": t0 + 400, "status": "OPEN", "version": 2, "runners": [rr(1, True), rr(2), rr(3)]},
               {"pt": t0 + 800, "status": "OPEN", "version": 2, "runners": [rr(1, True), rr(2), rr(3)]}]
        side = rng.choice(["BACK", "LAY"])
        px = P[i0] if side == "BACK" else P[i0 + 1]
        big = avail + rng.choice([200, 500])
        plain = {"t": "L", "p": px, "s": big, "pt": "LAPSE", "tif": None, "mf": None}
        fok = {"t": "L", "p": px, "s": big, "pt": "LAPSE", "tif": "FILL_OR_KILL", "mf": rng.choice([None, big])}
        order_specs = [["place", 1, 1, side, dict(plain), {"mv": None}], ["place", 2, 2, side, dict(fok), {"mv": None}], ["place", 3, 3, side, dict(plain), {"mv": None}]]
        if rng.random() < 0.5:
            order_specs[1], order_specs[2] = ["place", 2, 2, side, dict(plain), {"mv": None}], ["place", 3, 3, side, dict(fok), {"mv": None}]
        mscs.append({"config": {"place_latency": 0.12, "cancel_latency": 0.17, "update_latency": 0.15, "replace_latency": 0.28, "isolation": True},
                     "clients": [{"bpe": True, "full_match": False, "limit": None, "min_val": False}], "strategies": [{"name": "s0", "client": 0}],
                     "markets": [{"id": "1.100000001", "event": "20000001", "group": False, "type": "WIN", "bsp": False, "persist": True, "winners": 1, "updates": ups}],
                     "script": [{"s": 0, "m": 0, "u": 0, "acts": [["txn_begin"]] + order_specs + [["txn_end"]]}]})
    mouts = run_impl_parallel("simlib", [{"scenarios": [simgen.to_impl(x) for x in ch], "observe": "all"} for ch in chunked(mscs, 8)], timeout=1800)
    mimpl = [r for o in mouts for r in o["out"]]
    mbad = []
    for i, (sc, io) in enumerate(zip(mscs, mimpl)):
        if io.get("error"):
            mbad.append((i, "C05-package", "the run aborted: %s" % str(io["error"])[:120], {})); continue
        for key, why, det in propcheck.c05(sc, io)[:1]:
            mbad.append((i, key, why, det))
        for o in io["final"]:
            if o["status"] == "Pending":
                mbad.append((i, "C05-package", "order %s of the package was never placed (still Pending at the end of the run)" % o["o"], {"order": o["o"]})); break
    ck.family("several_placements_in_one_package_one_runner_removed_meanwhile", len(mscs), len(mscs), [], sorted({i for i, *_ in mbad}), dist={"orders": 3 * len(mscs)})
    for i, key, why, det in mbad[:2]:
        ck.fail(key, "one package, several placements: " + why, dict(det, scenario=mscs[i], how="harness/impl/simlib.py (txn_begin ... txn_end)"))
    # paper trading (live Flumine, paper_trade client, real threads and sleeps; outside the Coq model): an order is matched against the book in
    # force when it ARRIVES at the simulated exchange, not the one it was submitted on
    import papercheck
    papercheck.run_family(ck, rng, 48 if thorough else 16, "paper_trading_book_in_force_on_arrival", ("C05",))
    return ck.finish("scenarios on the real FlumineSimulation (books with 1-3 levels per side, gaps, empty sides; limit prices through/at/behind the best; sizes around what is offered; FILL_OR_KILL with min fill absent/below/equal/above the size; best-price execution on/off; full-match clients) compared observation by observation with the Coq model (both tie-breaks); independent Python checker of the property on the implementation's fragments; distinct = distinct scripts with fills or >2 packages")


def replay(path):
    print(open(path).read()); return 0

"""C05 — fills never breach the order's limit; fill-or-kill is all-or-nothing."""
import random
from common import *
import simgen, simcheck, propcheck

PID = "C05"


def main():
    ck = Check(PID)
    rng = random.Random(seed())
    thorough = tier() == "thorough"
    if not simcheck.gen_status(ck):
        return ck.finish("generator failed")
    if not ck.build_props(["Model/SimCases.vo"]):
        coq_build(["Model/SimCases.vo"])
    n = 1200 if thorough else 260
    opts = {"p_place": 0.8, "p_fok": 0.45, "p_manage": 0.15, "p_remove": 0.0, "no_remove": True, "p_inplay": 0.03, "kinds": ["L"], "max_upd": 8, "p_full": 0.12}
    scs = [simgen.gen_scenario(rng, opts) for _ in range(n)]
    for s in scs:
        s["clients"][0]["bpe"] = rng.random() < 0.6
    simcheck.run_family(ck, "placements", scs, propcheck.c05, "C05", "placement", hyp=True)
    scs2 = [simgen.gen_scenario(rng, {"kinds": ["L"], "p_fok": 0.25, "no_remove": True, "p_remove": 0.0}) for _ in range(n // 2)]
    simcheck.run_family(ck, "general", scs2, propcheck.c05, "C05", "general", hyp=True)
    return ck.finish("scenarios on the real FlumineSimulation (books with 1-3 levels per side, gaps, empty sides; limit prices through/at/behind the best; sizes around what is offered; FILL_OR_KILL with min fill absent/below/equal/above the size; best-price execution on/off; full-match clients) compared observation by observation with the Coq model (both tie-breaks); independent Python checker of the property on the implementation's fragments; distinct = distinct scripts with fills or >2 packages")


def replay(path):
    print(open(path).read()); return 0

"""C19 — order references are unique, valid and round-trip."""
import json, random, os
from common import *

PID = "C19"
HDR = "From V Require Import Model.Num Model.Refs Gen.RefsC Model.C19Cases.\nOpen Scope Z_scope.\n"


def lz(s):
    return zl(s)


def main():
    ck = Check(PID)
    rng = random.Random(seed())
    thorough = tier() == "thorough"
    p = subprocess.run([PY_IMPL, os.path.join(VERIF, "harness/impl/gen_consts.py"), "refs"], env=impl_env(),
                       stdout=subprocess.PIPE, stderr=subprocess.PIPE)
    if p.returncode != 0:
        ck.broken.append({"kind": "generator", "what": "gen_consts refs failed", "err": p.stderr.decode()[-1500:]})
        return ck.finish("generator failed")
    if not ck.build_props(["Model/C19Cases.vo"]):
        coq_build(["Model/C19Cases.vo"])

    # ---- family 1: separator table: every one-character string below U+0300, a unicode sample, lengths 0 and 2
    seps = [[c] for c in range(0, 0x300)] + [[c] for c in (0x3b1, 0x4e2d, 0x1F600, 0xFF0D, 0x2212, 0x2d + 0x10000)]
    seps += [[]] + [[a, b] for a in (45, 95, 65, 44) for b in (45, 95, 48, 32)]
    # two characters: an accepted one followed or preceded by a line break / control character / space (a pattern anchored with `$` would let a
    # trailing newline through), and three characters
    seps += [[a, b] for a in (45, 97, 55, 95) for b in (10, 13, 9, 0, 11, 12, 0x85, 0x2028)] + [[b, a] for a in (45, 97) for b in (10, 13, 32)] + [[45, 45, 45], [97, 10, 10]]
    so = run_impl("c19", {"job": "seps", "seps": seps})["out"]
    incons = [i for i, r in enumerate(so) if not (r[0] == r[1] == r[2] == r[3])]
    cases = ["(%s, %s)" % (lz(s), cb(r[0])) for s, r in zip(seps, so)]
    out = coq_eval("c19sep", HDR, ["Definition cases : list (str*bool) := %s.\nEval vm_compute in bad_idx sep_ok cases.\n" % cl(cases)])
    bad = sorted(set(parse_nlist(parse_evals(out[0])[0]) + incons))
    ck.family("separator_table", len(seps), sum(1 for r in so if r[0]) , bad, bad, exhaustive=True,
              dist={"accepted": sum(1 for r in so if r[0]), "rejected": sum(1 for r in so if not r[0])},
              samples=[{"family": "separator", "sep_codepoints": seps[45], "accepted(ctor,setter,trade.create_order,ctor with config.order_sep overridden)": so[45]}])
    for i in bad[:5]:
        ck.fail("C19-sep", "separator %r: accepted=%s but the exchange's character set / length rule says otherwise" % (seps[i], so[i]),
                {"call": "BetfairOrder(sep=...) / order.sep = ...", "sep_codepoints": seps[i], "impl": so[i]})

    # ---- family 2: references of real orders for many strategy names x valid separators
    valid = [s[0] for s, r in zip(seps, so) if r[0] and len(s) == 1]
    names = ["", "a", "x" * 10000, "ünïcödé-ßtrategy", "名前", "with space", "a-b_c", "\n", "0" * 13, "😀" * 50]
    for _ in range(3000 if thorough else 600):
        n = rng.choice([1, 3, 8, 20, 64])
        names.append("".join(chr(rng.choice([rng.randrange(32, 127), rng.randrange(0xa0, 0x2000)])) for _ in range(n)))
    rc = [[nm, [rng.choice(valid)]] for nm in names] + [["s", [v]] for v in valid]
    # orders created without a separator argument while config.order_sep holds a run-time value (valid, invalid, length 0 / 2)
    for cfg in ["@", "#", " ", "/", "é", "::", "", "_", "a", "-", "1", "\n"]:
        for nm in ["", "s", "ünïcödé-ßtrategy", "x" * 500]:
            rc.append([nm, [45], [ord(ch) for ch in cfg]])
    ro = run_impl("c19", {"job": "refs", "cases": rc})["out"]
    cs = ["(%s, %s, %s, %s)" % tuple(lz(x) for x in r) for r in ro]
    outs = coq_eval("c19ref", HDR, ["Definition cases : list (str*str*str*str) := %s.\nEval vm_compute in (bad_idx ref_ok cases, bad_idx ref_prop cases).\n" % cl(ch) for ch in chunked(cs, 800)])
    bad2, pbad2 = [], []
    for i, o in enumerate(outs):
        v = parse_evals(o)[0]
        m = re.match(r"\((\[.*?\]|nil), (\[.*?\]|nil)\)", v)
        bad2 += [i * 800 + k for k in parse_nlist(m.group(1))]
        pbad2 += [i * 800 + k for k in parse_nlist(m.group(2))]
    ck.family("references_of_real_orders", len(rc), len({tuple(r[3]) for r in ro}), bad2, pbad2,
              dist={"names": len(names), "separators": len(valid), "max_ref_len": max(len(r[3]) for r in ro)},
              samples=[{"family": "ref", "name": rc[3][0], "ref": "".join(chr(c) for c in ro[3][3])}])
    for i in pbad2[:5]:
        ck.fail("C19-ref", "customer_order_ref %r has an invalid character, exceeds 32 characters or does not split back into (hash, id)" % "".join(chr(c) for c in ro[i][3]),
                {"call": "trade.create_order(...).customer_order_ref", "strategy_name": rc[i][0], "sep": rc[i][1], "ref_codepoints": ro[i][3]})

    # ---- family 3: attribution through process_current_orders of a second instance
    acases = []
    for _ in range(400 if thorough else 120):
        ns = rng.randrange(1, 4)
        nms = ["st%d_%d" % (i, rng.randrange(10 ** 6)) for i in range(ns)]
        orders = [[rng.randrange(ns), [rng.choice(valid)]] for _ in range(rng.randrange(1, 6))]
        qs = []
        for _ in range(rng.randrange(2, 7)):
            k = rng.random()
            if k < 0.5:
                qs.append(["own", rng.randrange(len(orders))])
            elif k < 0.8:
                qs.append(["foreign", rng.randrange(ns), [rng.choice(valid)], str(rng.randrange(10 ** 17, 10 ** 18))])
            elif k < 0.9 or not acases:
                qs.append(["foreign", "unknown%d" % rng.randrange(10 ** 6), [rng.choice(valid)], str(rng.randrange(10 ** 17, 10 ** 18))])
            else:
                # a strategy that ANOTHER framework instance of the same process runs, not this one: unknown here
                qs.append(["foreign", rng.choice(rng.choice(acases)["names"]), [rng.choice(valid)], str(rng.randrange(10 ** 17, 10 ** 18))])
        acases.append({"names": nms, "orders": orders, "queries": qs})
    ao = run_impl("c19", {"job": "resolve", "cases": acases})["out"]
    rows, meta = [], []
    for ci, o in enumerate(ao):
        for qi, r in enumerate(o["res"]):
            rows.append("(%s, %s, %s, (%s, %s))" % (cl(lz(i) for i in r["ids"]), cl(lz(h) for h in o["hashes"]), lz(r["ref"]),
                                                 copt(r["order"], lambda n: "%d%%nat" % n), copt(r["strategy"], lambda n: "%d%%nat" % n)))
            meta.append((ci, qi, r))
    outs = coq_eval("c19res", HDR, ["Definition cases : list (list str * list str * str * (option nat * option nat)) := %s.\nEval vm_compute in bad_idx res_ok cases.\n" % cl(ch) for ch in chunked(rows, 400)])
    bad3 = []
    for i, o in enumerate(outs):
        bad3 += [i * 400 + k for k in parse_nlist(parse_evals(o)[0])]
    # ... and the cleared-orders report carrying the same reference is attributed to the same local order (own: the order itself; adopted: the new one)
    cbad = []
    for i, (ci, qi, r) in enumerate(meta):
        want = r["order"] if r["order"] is not None else (r["norders"] - 1 if r["strategy"] is not None and r["strategy"] != 99 else None)
        if r.get("cleared") != want and i not in bad3:
            cbad.append(i)
    bad3 = sorted(set(bad3) | set(cbad))
    kinds = {"own": sum(1 for c in acases for q in c["queries"] if q[0] == "own"),
             "foreign_known_strategy": sum(1 for c in acases for q in c["queries"] if q[0] == "foreign" and isinstance(q[1], int)),
             "foreign_unknown_strategy": sum(1 for c in acases for q in c["queries"] if q[0] == "foreign" and not isinstance(q[1], int))}
    ck.family("attribution_via_process_current_orders", len(rows), len(set(rows)), bad3, bad3, dist=kinds,
              samples=[{"family": "attribution", "case": acases[0], "impl": ao[0]["res"][0]["order"]}])
    for i in bad3[:5]:
        ci, qi, r = meta[i]
        ck.fail("C19-attribution", "an exchange update was attributed to order %s / strategy %s, not the one encoded in its reference%s" % (r["order"], r["strategy"], (" (the cleared-orders report with the same reference went to order %s of %s)" % (r.get("cleared"), r.get("norders"))) if i in cbad else ""),
                {"call": "process_current_orders", "case": acases[ci], "query_index": qi, "impl": {"order": r["order"], "strategy": r["strategy"]}})

    # ---- family 4 (test of the uuid1 oracle, not a proof): ids created in tight loops and from threads
    uo = run_impl("c19", {"job": "unique", "n": 400000 if thorough else 60000, "threads": 8})["out"]
    okU = uo["n"] == uo["distinct"] and uo["alldigits"] and uo["maxlen"] <= 18
    ck.family("uuid1_oracle_test", uo["n"], uo["distinct"], [], [] if okU else ["dup"], dist=uo)
    if not okU:
        ck.fail("C19-unique", "order ids are not pairwise distinct decimal strings of at most 18 digits: %s" % uo, {"call": "BetfairOrder(...) in tight loops / 8 threads", "observed": uo})
    ck.assumptions.append("Oracles: sha1 prefix is HASH_LEN hex characters (checked on every generated reference), uuid1().time unique per process (tested, not proved)")
    return ck.finish("separator table exhaustive below U+0300 (+ samples, lengths 0/2) through ctor, setter and trade.create_order; references of real orders for random/unicode/long names x every valid separator; attribution through the real process_current_orders of a second instance (own, adopted, unknown-strategy references); distinct = distinct references / cases")


def replay(path):
    print(open(path).read()); return 0

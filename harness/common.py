"""Shared machinery of the /verif checks (python3, stdlib only).

One check = regenerate Gen/*.v from /repo -> build the Coq closure of the
property (theorems + table equalities) -> run the implementation on generated
inputs -> evaluate, inside Coq (vm_compute), model-vs-implementation equality and
the Gallina property checker on the implementation's own outputs -> verdict,
evidence, replay.
"""
import json, os, re, subprocess, sys, time, hashlib, random, shutil, glob

VERIF = os.path.dirname(os.path.dirname(os.path.abspath(__file__)))
REPO = os.environ.get("VERIF_REPO", "/repo")
COQ = os.path.join(VERIF, "coq")
PY_IMPL = "/venv/bin/python"
GUARD = "BETCODE_ORG_FLUMINE_VERIF"

STD_TRUSTED = [
    "Coq 8.16.1 kernel (coqc) incl. vm_compute (used for table equalities, refutation witnesses, correspondence evaluation); native_compute not used",
    "Python side: harness generators, implementation drivers (harness/impl/*.py), Gen/*.v table generator, canonicalisation floats->scaled integers",
    "Numeric boundary: binary floats modelled by exact decimals over Z; theorems hold for every tie-break function; equality with the implementation only demanded where up/down tie-breaks agree",
    "Correspondence (model = implementation on generated inputs) is differential testing, not proof; it bounds the assurance",
]


def tier():
    return os.environ.get("VERIF_TIER", "quick")


def seed():
    try:
        return int(os.environ.get("VERIF_SEED", "0"))
    except ValueError:
        return 0


def impl_env(hashseed="0"):
    env = dict(os.environ)
    env["PYTHONPATH"] = REPO
    env["PYTHONHASHSEED"] = str(hashseed)
    env[GUARD] = "1"
    env["PYTHONDONTWRITEBYTECODE"] = "1"
    return env


def run_impl(script, payload, timeout=1800, hashseed="0", extra_env=None):
    """Run harness/impl/<script>.py under the repo's interpreter; JSON in, JSON out."""
    p = subprocess.run(
        [PY_IMPL, os.path.join(VERIF, "harness", "impl", script + ".py")],
        input=json.dumps(payload).encode(),
        stdout=subprocess.PIPE, stderr=subprocess.PIPE,
        env=dict(impl_env(hashseed), **(extra_env or {})), timeout=timeout, cwd=VERIF)
    if p.returncode != 0:
        raise RuntimeError("impl driver %s failed (rc=%d):\n%s" % (
            script, p.returncode, p.stderr.decode()[-4000:]))
    out = p.stdout.decode()
    # the repo prints a conda warning line on stdout in some set-ups: take the last JSON line
    line = [l for l in out.splitlines() if l.startswith("{") or l.startswith("[")][-1]
    return json.loads(line)


def run_impl_parallel(script, payloads, timeout=3600, workers=None):
    """Run several independent driver processes in parallel; returns list of outputs."""
    from concurrent.futures import ThreadPoolExecutor
    workers = workers or min(16, max(1, len(payloads)))
    with ThreadPoolExecutor(workers) as ex:
        return list(ex.map(lambda pl: run_impl(script, pl, timeout), payloads))


# ----------------------------------------------------------------------------
# Coq term printing
def z(n):
    n = int(n)
    return "(%d)" % n if n < 0 else "%d" % n


def zl(xs):
    return "[" + "; ".join(z(x) for x in xs) + "]"


def cl(xs):
    return "[" + "; ".join(xs) + "]"


def cb(b):
    return "true" if b else "false"


def copt(x, f=z):
    return "None" if x is None else "(Some %s)" % f(x)


def ctuple(*xs):
    return "(" + ", ".join(xs) + ")"


def cents(x, scale=100):
    """float/Decimal/str -> integer on the 1/scale grid (must be within 1e-6 of it)."""
    from fractions import Fraction
    from decimal import Decimal
    if isinstance(x, float):
        v = x * scale
        r = round(v)
        if abs(v - r) > 1e-6 * max(1.0, abs(v)):
            raise OffGrid("value %r not on 1/%d grid" % (x, scale))
        return int(r)
    fr = Fraction(Decimal(str(x))) * scale
    if fr.denominator != 1:
        raise OffGrid("value %r not on 1/%d grid" % (x, scale))
    return int(fr)


class OffGrid(Exception):
    pass


# ----------------------------------------------------------------------------
# Coq build
def coq_files():
    fs = []
    for d in ("Model", "Gen", "Proofs", "Props"):
        fs += sorted(glob.glob(os.path.join(COQ, d, "*.v")))
    return [os.path.relpath(f, COQ) for f in fs]


FORBIDDEN = re.compile(
    r"\b(Admitted|admit|Axiom|Axioms|Parameter|Parameters|Conjecture|Conjectures|Abort All)\b"
    r"|Unset\s+Guard|bypass_check|type-in-type|impredicative-set|Admit\s+Obligations"
    r"|Unset\s+Positivity|Unset\s+Universe")


def scan_forbidden():
    bad = []
    for f in coq_files():
        txt = open(os.path.join(COQ, f)).read()
        txt = re.sub(r"\(\*.*?\*\)", "", txt, flags=re.S)
        for m in FORBIDDEN.finditer(txt):
            bad.append("%s: %s" % (f, m.group(0)))
        if re.search(r"^\s*(Variable|Hypothesis|Variables|Hypotheses)\b", txt, flags=re.M):
            # only allowed inside a Section: crude check = file has a Section
            if not re.search(r"^\s*Section\b", txt, flags=re.M):
                bad.append("%s: Variable/Hypothesis outside Section" % f)
    return bad


def coq_makefile():
    files = coq_files()
    subprocess.run(["coq_makefile", "-f", "_CoqProject"] + files + ["-o", "Makefile"],
                   cwd=COQ, check=True, stdout=subprocess.DEVNULL, stderr=subprocess.DEVNULL)


def coq_build(targets, timeout=1500):
    """Full .vo build of the given targets (e.g. Props/C17.vo) and their closure.
    Returns (ok, log, first_failing_file)."""
    coq_makefile()
    t0 = time.time()
    p = subprocess.run(["timeout", str(timeout), "make", "-j16"] + targets,
                       cwd=COQ, stdout=subprocess.PIPE, stderr=subprocess.STDOUT)
    log = p.stdout.decode(errors="replace")
    ok = p.returncode == 0
    failing = None
    if not ok:
        m = re.search(r'File "\./([^"]+)", line (\d+)', log)
        if m:
            failing = "%s:%s" % (m.group(1), m.group(2))
        else:
            failing = "build"
    return ok, log, failing, time.time() - t0


def print_assumptions(log):
    """Extract 'Print Assumptions' outputs from a make log / .out file."""
    res = []
    for m in re.finditer(r"(Closed under the global context|Axioms:\n(?:.+\n?)+)", log):
        res.append(m.group(1).strip())
    return res


def closure_of(target_v):
    """.v files in the dependency closure of a .v file (via coqdep)."""
    p = subprocess.run(["coqdep", "-Q", ".", "V"] + coq_files(), cwd=COQ,
                       stdout=subprocess.PIPE, stderr=subprocess.DEVNULL)
    deps = {}
    for line in p.stdout.decode().splitlines():
        if ":" not in line:
            continue
        lhs, rhs = line.split(":", 1)
        vo = [x for x in lhs.split() if x.endswith(".vo")]
        if not vo:
            continue
        deps[vo[0]] = [x for x in rhs.split() if x.endswith(".vo")]
    seen, todo = set(), [target_v[:-2] + ".vo"]
    while todo:
        x = todo.pop()
        if x in seen:
            continue
        seen.add(x)
        todo += deps.get(x, [])
    return sorted(s[:-3] + ".v" for s in seen)


def count_obligations(vfiles):
    n = 0
    names = []
    for f in vfiles:
        txt = open(os.path.join(COQ, f)).read()
        txt = re.sub(r"\(\*.*?\*\)", "", txt, flags=re.S)
        for m in re.finditer(r"^\s*(?:Local\s+|Global\s+)?(Theorem|Lemma|Example|Corollary|Fact|Remark|Proposition)\s+([A-Za-z0-9_']+)", txt, flags=re.M):
            n += 1
            names.append(f + ":" + m.group(2))
    return n, names


# ----------------------------------------------------------------------------
# Evaluating cases inside Coq
def coq_eval(name, header, body_chunks, timeout=900):
    """Write Cases/<name>_<i>.v (header + chunk) for every chunk, compile them in
    parallel, return the list of raw outputs (one per chunk).
    Each chunk is Coq text that ends with one or more `Eval vm_compute in ...`."""
    d = os.path.join(COQ, "Cases")
    os.makedirs(d, exist_ok=True)
    for f in glob.glob(os.path.join(d, name + "_*")):
        os.remove(f)
    paths = []
    for i, ch in enumerate(body_chunks):
        pth = os.path.join(d, "%s_%d.v" % (name, i))
        with open(pth, "w") as fh:
            fh.write(header + "\n" + ch + "\n")
        paths.append(pth)
    from concurrent.futures import ThreadPoolExecutor

    def one(pth):
        p = subprocess.run(["timeout", str(timeout), "coqc", "-Q", ".", "V", pth],
                           cwd=COQ, stdout=subprocess.PIPE, stderr=subprocess.PIPE)
        if p.returncode != 0:
            raise CoqEvalError("coqc failed on %s:\n%s" % (pth, p.stderr.decode()[-3000:]))
        return p.stdout.decode()
    with ThreadPoolExecutor(16) as ex:
        outs = list(ex.map(one, paths))
    for f in glob.glob(os.path.join(d, name + "_*")):
        if not f.endswith(".v"):
            try:
                os.remove(f)
            except OSError:
                pass
    return outs


class CoqEvalError(Exception):
    pass


def parse_evals(out):
    """Split coqc stdout into the values printed by successive Eval commands
    (text between '= ' and the type annotation ': ...')."""
    vals = []
    for m in re.finditer(r"^\s*=\s(.*?)\n\s*:\s", out, flags=re.S | re.M):
        vals.append(re.sub(r"\s+", " ", m.group(1)).strip())
    return vals


def parse_nlist(s):
    s = s.strip()
    s = re.sub(r"%[A-Za-z]+", "", s)
    if s in ("[]", "nil"):
        return []
    assert s.startswith("[") and s.endswith("]"), s
    return [int(x.strip().strip("()")) for x in s[1:-1].split(";") if x.strip()]


def chunked(xs, n):
    return [xs[i:i + n] for i in range(0, len(xs), n)]


# ----------------------------------------------------------------------------
# Verdict plumbing
def load_known():
    p = os.path.join(VERIF, "known_findings.json")
    if os.path.exists(p):
        return json.load(open(p))
    return {"findings": [], "fixed": []}


def known_keys(pid):
    return {f["key"]: f for f in load_known().get("findings", []) if f["property"] == pid}


def write_replay(pid, payload):
    d = os.path.join(VERIF, "replays")
    os.makedirs(d, exist_ok=True)
    h = hashlib.sha1(json.dumps(payload, sort_keys=True, default=str).encode()).hexdigest()[:10]
    pth = os.path.join(d, "%s-%s.json" % (pid, h))
    with open(pth, "w") as fh:
        json.dump(payload, fh, indent=1, default=str)
    return pth


def write_evidence(pid, coverage, wall_s, violations=0, assumptions=None, level="proof"):
    ev = {
        "property_id": pid, "tier": tier(), "seed": seed(), "level": level,
        "coverage": coverage, "wall_s": round(wall_s, 2), "violations": violations,
        "assumptions": assumptions or [],
    }
    d = os.path.join(VERIF, "evidence")
    os.makedirs(d, exist_ok=True)
    with open(os.path.join(d, pid + ".json"), "w") as fh:
        json.dump(ev, fh, indent=1, default=str)
    return ev


class Check:
    """Collects the outcome of the parts of one check and produces the verdict."""

    def __init__(self, pid):
        self.pid = pid
        self.t0 = time.time()
        self.broken = []        # proof obligations / correspondence families that no longer check
        self.failing = []       # (key, description, replay payload): concrete failing inputs on the implementation
        self.cov = {"samples": [], "families": {}}
        self.assumptions = list(STD_TRUSTED)
        self.notes = []

    # --- proofs
    def build_props(self, extra_targets=()):
        bad = scan_forbidden()
        if bad:
            self.broken.append({"kind": "forbidden-construct", "what": bad})
        # the generated constants are read from /repo on every run (all sections: a check may be the first thing run on a fresh clone)
        g = subprocess.run([PY_IMPL, os.path.join(VERIF, "harness/impl/gen_consts.py")], env=impl_env(), stdout=subprocess.PIPE, stderr=subprocess.PIPE)
        if g.returncode != 0:
            self.broken.append({"kind": "generator", "what": "gen_consts failed", "err": g.stderr.decode()[-1500:]})
        target = "Props/%s.vo" % self.pid
        # force re-check of the property file so Print Assumptions is printed
        for ext in (".vo", ".glob", ".vok", ".vos"):
            try:
                os.remove(os.path.join(COQ, "Props", self.pid + ext))
            except OSError:
                pass
        ok, log, failing, dt = coq_build([target] + list(extra_targets))
        clo = closure_of("Props/%s.v" % self.pid)
        nobl, names = count_obligations(clo)
        pa = print_assumptions(log)
        self.cov["obligations"] = nobl
        self.cov["checker_cmd"] = "cd /verif/coq && coq_makefile -f _CoqProject <files> -o Makefile && make -j16 %s  (coqc 8.16.1, full .vo build)" % target
        self.cov["proof_files"] = clo
        self.cov["print_assumptions"] = pa
        self.cov["build_s"] = round(dt, 1)
        if ok:
            self.cov["discharged"] = nobl
        else:
            # count the obligations of files whose .vo exists
            done = 0
            for f in clo:
                if os.path.exists(os.path.join(COQ, f[:-2] + ".vo")):
                    done += count_obligations([f])[0]
            self.cov["discharged"] = done
            self.broken.append({"kind": "proof", "what": failing, "log_tail": log[-1500:]})
        for a in pa:
            if a != "Closed under the global context":
                self.notes.append("Print Assumptions lists: " + a)
        if ok and tier() == "thorough":
            # independent re-check of the compiled property file and everything it depends on
            t1 = time.time()
            p = subprocess.run(["timeout", "3000", "coqchk", "-silent", "-o", "-Q", ".", "V", "V.Props.%s" % self.pid], cwd=COQ, stdout=subprocess.PIPE, stderr=subprocess.STDOUT)
            out = p.stdout.decode()
            m = re.search(r"\* Axioms:\s*(.*?)\n\s*\n", out, flags=re.S)
            axioms = m.group(1).strip() if m else "?"
            self.cov["coqchk"] = {"rc": p.returncode, "axioms": axioms, "wall_s": round(time.time() - t1, 1)}
            if p.returncode != 0 or axioms != "<none>":
                self.broken.append({"kind": "coqchk", "what": "coqchk -o V.Props.%s: rc %d, axioms %s" % (self.pid, p.returncode, axioms), "log_tail": out[-1200:]})
        self.cov["samples"] += [{"obligation": n} for n in names[-3:]]
        return ok

    # --- correspondence
    def family(self, name, n_cases, n_nontrivial, mismatches, prop_fail, ambiguous=0, dist=None, samples=None, exhaustive=False):
        self.cov["families"][name] = {
            "cases": n_cases, "distinct_nontrivial": n_nontrivial,
            "model_impl_mismatches": len(mismatches), "property_failures_on_impl": len(prop_fail),
            "rounding_ambiguous_not_compared": ambiguous, "distribution": dist or {},
            "exhaustive": exhaustive}
        if samples:
            self.cov["samples"] += samples[:2]
        if mismatches:
            self.broken.append({"kind": "correspondence", "what": name, "first": mismatches[:3]})

    def fail(self, key, desc, payload):
        self.failing.append((key, desc, payload))

    def finish(self, rule):
        fams = self.cov["families"]
        self.cov["traces_validated_against_impl"] = sum(f["cases"] for f in fams.values())
        self.cov["evaluations"] = self.cov["traces_validated_against_impl"]
        self.cov["distinct_nontrivial"] = sum(f["distinct_nontrivial"] for f in fams.values())
        self.cov["rule"] = rule
        self.cov["trusted_base"] = self.assumptions
        self.cov.setdefault("obligations", 0)
        self.cov.setdefault("discharged", 0)
        self.cov.setdefault("checker_cmd", "n/a")
        self.cov["notes"] = self.notes
        known = known_keys(self.pid)
        lines, nviol = [], 0
        seen_keys = set()
        for key, desc, payload in self.failing:
            if key in seen_keys:
                continue
            seen_keys.add(key)
            if key in known:
                lines.append("KNOWN-FINDING: property=%s %s: %s" % (self.pid, key, known[key]["what"]))
            else:
                pth = write_replay(self.pid, {"property": self.pid, "finding_key": key, "what": desc, "replay": payload})
                lines.append("VIOLATION property=%s replay=%s" % (self.pid, pth))
                nviol += 1
        if self.broken and nviol == 0:
            # a proof obligation or the correspondence no longer checks and no (unlisted)
            # failing input was found on the implementation
            pth = write_replay(self.pid, {"property": self.pid, "no_longer_checks": self.broken,
                                          "note": "no concrete failing input found by the search"})
            lines.append("VIOLATION property=%s replay=%s no-failing-input-found" % (self.pid, pth))
            nviol += 1
        self.cov["broken"] = self.broken
        self.cov["known_findings_reproduced"] = sorted(k for k in seen_keys if k in known)
        write_evidence(self.pid, self.cov, time.time() - self.t0, violations=nviol, assumptions=self.assumptions)
        for l in lines:
            print(l)
        print("%s: %s  obligations=%d/%d cases=%d wall=%.1fs" % (
            self.pid, "FAIL" if nviol else "OK", self.cov["discharged"], self.cov["obligations"],
            self.cov["evaluations"], time.time() - self.t0))
        return 1 if nviol else 0

"""Writes MANIFEST.json from the table below (kept in one place so it stays valid)."""
import json, os
V = os.path.dirname(os.path.dirname(os.path.abspath(__file__)))
props = [json.loads(l) for l in open(os.path.join(V, "properties.jsonl"))]

CLAIMED = {
    "C20": dict(
        text="Coq theorems about a state-machine model of market closure (live handler and simulation branch): every CLOSED update of a known market delivers the closed-market callback to exactly the subscribed / empty-filter strategies, once each; in simulation one cleared-orders report iff the blotter has orders and one cleared-market summary per client; data for a closed market re-opens it with cleared flags reset; a live framework removes a market only in a close step, only if closed for more than 3600 s, never an open or recently closed one; in simulation each close releases runner accounting and middleware state while keeping the market; the simulation's drop of a close for a never-seen market is a theorem (known finding F-C20-1, reproduced). Tie to code: random scripts on a REAL live Flumine fed through a betfairlightweight listener with a fake clock (books OPEN/SUSPENDED/CLOSED, repeated closes, re-opens, advances around 3600 s, worker-cleared flags, 1-3 strategies subscribed/not/empty filter) and whole simulation runs (repeated closes with different results, re-opens, first-update-CLOSED, different subscriptions, 1-2 clients): callbacks, logging-control events, flags, accounting, middleware state compared in Coq with the model; results on orders at every close.",
        note="Raw-data (recorder) mode is modelled only through the shared callback-set rule, not exercised. Trusted: Coq kernel + vm_compute; livelib.py / simlib.py; the subscription sets per stream are computed by the harness from the real stream ids. Print Assumptions: closed under the global context.",
        technique="Coq proof over a small state machine + differential correspondence (live and simulated) evaluated in Coq",
        ref="DESIGN.md §5 C20"),
    "C14": dict(
        text="Coq theorems about the model of the event-group loop (stable sort of the stream heads by publish time, pop, process, push the stream's next) for every set of streams: the output is a Permutation of all updates (complete, exactly once; the fuel used by the model is proved sufficient), contains each stream as a subsequence (each market's own order preserved) and is sorted by publish time whenever each file is. Listener filters (inplay / seconds_to_start / max_inplay_seconds) are modelled as a small state machine. Tie to code: the (market, publish time) sequence delivered by the real FlumineSimulation for 1-5 files, 1-3 events, event_processing on/off, equal times, closing updates is compared in Coq with the model's order; filtered delivery vs. the model; ledgers identical across 4 PYTHONHASHSEEDs in fresh processes for runs with three event groups; clock = publish time in every callback, restored after the run also on exception and still simulated after a failing real_time() block.",
        note="PARTIAL for 'configurations': hash seeds / process identity cannot be expressed in the model - sampled (4 seeds). The grouping of streams by event (dict insertion order) is re-stated in the harness (trusted, 10 lines). Trusted: Coq kernel + vm_compute; simlib.py. Print Assumptions: closed under the global context.",
        technique="Coq proof (Permutation / subsequence / StronglySorted by induction on fuel) + differential correspondence evaluated in Coq + cross-process determinism runs",
        ref="DESIGN.md §5 C14"),
    "C08": dict(
        text="Coq theorems about the model of SimulatedOrder.profit / Market.cleared for every stake, price, result, dead-heat count, divisor and every sign-symmetric tie-break: a back and a lay with identical fills have exactly opposite profit (line markets: whenever the struck line differs from the result; the equal case is REFUTED by theorem - known finding F-C08-1: both lose); zero for unmatched orders and removed runners; stake x (price-1) / minus the stake; the dead-heat reduction; a back never loses more than its stake; the cleared summary is the sum over the client's matched orders with commission >= 0, zero unless the net is a win and equal to round(profit x rate) otherwise. Tie to code: SimulatedOrder.profit on real orders (8k-40k cases incl. each-way, line, dead heats) vs the model (both tie-breaks) AND an independent exact-rational calculator; Blotter.process_closed_market (results/terms copied to every order, dead-heat count) and Market.cleared on real markets with 1-2 clients.",
        note="Trusted: Coq kernel + vm_compute; harness/impl/c08.py; each-way dead heats are outside (property and code say so); the 2dp average matched price is the price the exchange reports. Print Assumptions: closed under the global context.",
        technique="Coq proof (case analysis + rounding lemmas, nia) + differential correspondence evaluated in Coq + independent rational calculator",
        ref="DESIGN.md §5 C08"),
    "C07": dict(
        text="Coq theorems about the model of the simulation loop for every queue, state and update: after the pending phase of an update of market m exactly the due packages of m have left the queue (executed only if the update is more than latency (+ bet delay for place/replace) after the request; everything else still queued in order, also while other markets of the event are updated); the pending phase is a function of (time, market, state before) only - the triggering book is not an argument (no look-ahead); a placement is acknowledged with the executing update's publish time; pending orders are invisible to the matcher while cancelling/updating/replacing ones are still matched (statuses regenerated from source). The strict '>' threshold is PROVED equal to the real float comparison tabulated from the source for 4 kinds x bet delay 0..12. 'No recorded timestamp precedes the time it could have happened' is REFUTED for arrival fragments by a vm_compute witness (known finding F-C07-1). Tie to code: timing families (spacings at delay-1/delay/delay+1 ms, several requests between updates, event groups, custom latencies, async placement) on the real FlumineSimulation vs. the model, evaluated in Coq; independent checker of effect time / clock / timestamps.",
        note="Trusted: Coq kernel + vm_compute; gen_consts.py (delay table from real BaseOrderPackage objects); simlib.py; custom latencies are compared away from float-boundary cases only. Print Assumptions: closed under the global context.",
        technique="Coq proof (queue/filter lemmas over the loop model, table equality by vm_compute) + refutation witness + differential correspondence evaluated in Coq",
        ref="DESIGN.md §5 C07"),
    "C04": dict(
        text="Coq theorems about the bucket algebra of the simulated order (size_remaining is a derived quantity in code and model, so the identity is definitional; the content is non-negativity, 'only moves size' and completion): every primitive - cancel (full/partial/larger than the remainder), aggressive fragment, passive fill (never more than remains; matched never decreases), fill-or-kill (nothing remains), lapse on suspension, void - is proved to keep the order 'good' and to move exactly the stated amount between exactly the stated buckets. The void clause is proved PARTIAL (nothing cancelled/lapsed before) and the full clause is REFUTED on the faithful model by a vm_compute witness (known finding F-C04-1); three further known findings (late FAILURE responses re-opening a completed order, a control marking a live order VIOLATION, no completion sweep at the closing update) are reproduced on the implementation and printed as KNOWN-FINDING. Tie to code: whole-loop correspondence of the simulation model on the real FlumineSimulation incl. a structured family of requests in flight racing fills/suspensions/removals, evaluated in Coq; independent conservation checker at every strategy call.",
        note="PARTIAL: the per-primitive theorems are not yet lifted to an invariant of the whole loop (fold of step over all event lists); that lift is tested by the correspondence + checker, not proved. LAY limit orders carried to SP: conservation on the total only (cancelled absorbs the difference) as the property states. Trusted: Coq kernel + vm_compute; simlib.py. Print Assumptions: closed under the global context.",
        technique="Coq proof of bucket-algebra lemmas + refutation witness + differential correspondence of the simulation model evaluated in Coq",
        ref="DESIGN.md §5 C04"),
    "C09": dict(
        text="Coq theorems about the model of _process_runner_removal: the void of an order on the removed runner in ANY state gives matched 0, no fragments, voided = size and remaining = -(cancelled+lapsed) (complete void iff nothing was cancelled/lapsed: the rest is known finding F-C04-1); fills on the other runners keep sizes and times and get price max(round(p(1-f/100),2),1.01) iff f is present, non-zero and >= the generated threshold 2.5, never below 1.01, within half a penny of the product (any tie-break); MOC LAY liabilities scaled by the exchange's WIN / PLACE formulas, unrounded. 'Exactly once per market' is REFUTED on the faithful model by a vm_compute witness over two markets (known finding F-C09-1); a third known finding (missing factor + MOC LAY raises inside the middleware) is reproduced. Tie to code: simulation-model correspondence with removals in 1-3 markets (sequential and event-grouped), evaluated in Coq; independent re-computation of void/reduction on the implementation's orders.",
        note="Trusted: Coq kernel + vm_compute; simlib.py; exact-decimal model of round(). PLACE-market minimum factor is 0 in the code (its own todo) and in the model. Print Assumptions: closed under the global context.",
        technique="Coq proof + refutation witnesses (vm_compute) + differential correspondence of the simulation model evaluated in Coq",
        ref="DESIGN.md §5 C09"),
    "C06": dict(
        text="Coq theorems about the model of passive matching (RunnerAnalytics increments, _process_traded, _calculate_process_traded, _sort_orders): a lone resting order over ANY sequence of traded amounts is filled exactly min(remaining, max(0, E/2 - queue)) when halves are whole pennies and within half a penny per fill otherwise (every tie-break), nothing before the queue has traded; one order consumes only eligible prices, never drives volume negative, twice its fill is covered by what it consumed; any number of orders sharing one copy of the traded volume are filled in total at most half of it (+ half a penny per fill); processing order = lays by descending, backs by ascending price, MOC last (Permutation + StronglySorted); Pending orders are never matched; a runner seen first reports no increment. Tie to code: simulation-model correspondence on the real FlumineSimulation (1-3 strategies, isolation on/off) evaluated in Coq + an independent ledger of traded volume built from the raw updates checked against every passive fragment.",
        note="Trusted: Coq kernel + vm_compute; harness/impl/simlib.py; exact-decimal model with explicit tie-break (Python rounds 0.025 -> 0.03: that is the stated half-penny slack); simulation_available_prices=True is outside (documented double counting). Print Assumptions: closed under the global context.",
        technique="Coq proof (refinement of the per-price loop to a closed form, induction over orders sharing a dict) + differential correspondence evaluated in Coq",
        ref="DESIGN.md §5 C06"),
    "C05": dict(
        text="Coq theorems about the model of SimulatedOrder.place for every book (any levels, gaps, empty sides), price, size and tie-break: an ordinary order's arrival fragments are exactly a prefix of the opposing ladder, at the limit or better, level by level no larger than offered, in total <= its size; fill-or-kill ends with nothing remaining and 0 or >= min-fill matched, its kept VWAP (2 dp, as the exchange reports it) satisfies the limit; best-price-execution off + priced through the best => lapse with no fill; passive fills are at the order's own limit. Tie to code: the whole simulation model (Sim.v/SimLoop.v) is compared observation-by-observation with the real FlumineSimulation on generated scenarios (evaluated in Coq, both tie-breaks), and an independent checker of the property runs on the implementation's fragments.",
        note="Trusted: Coq kernel + vm_compute; harness/impl/simlib.py (synthetic Betfair stream files -> real FlumineSimulation, observation by a scripted strategy); exact-decimal model of the float arithmetic; starting-price fills are outside the limit clause (C04). Print Assumptions: closed under the global context.",
        technique="Coq proof (induction over the ladder, lia) + differential correspondence of the simulation model evaluated in Coq",
        ref="DESIGN.md §5 C05"),
    "C18": dict(
        text="Coq theorems over the model of MaxTransactionCount for every event list: totals = sum of all adds whatever requests interleave; any permutation of a batch of concurrent adds gives the same counters; restart iff the request falls in another clock hour (day boundaries, clock going backwards); hourly = adds since the restart; once over the limit every non-forced request in that clock hour is refused whatever adds follow; first request in a new hour restarts from zero and passes; no limit / forced never blocked; count sites place/cancel/update/replace. Tie to code: random histories on real controls + clients (simulated and patched clock, 1-3 clients), model and a state-free property checker evaluated in Coq.",
        note="Trusted: threading.Lock atomicity (tested with 16 threads; the model is atomic per handler - partial for schedules inside a handler); datetime hour arithmetic modelled as floor(ms/3600000) and checked by correspondence across hour/day/year boundaries. The execution-layer count sites are tied to the code by the simulation correspondence (C04/C05 families compare client.transaction_count_total) and C12.",
        technique="Coq proof (induction over event lists, Permutation) + differential correspondence evaluated in Coq",
        ref="DESIGN.md §5 C18"),
    "C16": dict(
        text="Coq theorems for every list of orders and every tie-break of round(): get_exposures' win/lose figures are within one penny (two roundings) of - and on the penny grid equal to - the brute-force worst case over EVERY subset of open orders filling at their limit (min over the cube = sum of per-order minima, by induction); market_exposure = sum of losing figures + k smallest differences, proved to be a lower bound for every k-subset of winners and attained by one (exchange argument over Permutation/StronglySorted); pending/refused statuses left out (PENDING_STATUS regenerated from source); exclusion/new-order as-if-removed/added for distinct orders, with the exclusion==new instance stated as refuted (finding F-C01-1). Tie to code: the three real Blotter functions on real orders vs. the model evaluated in Coq with both tie-breaks, plus the brute-force property checker evaluated on the implementation's own figures.",
        note="Trusted: Coq kernel + vm_compute; harness/impl/c16.py builds real BetfairOrder/Blotter objects with simulated buckets set directly; exact-decimal model of float sums (equality demanded only when both tie-breaks agree). Print Assumptions: closed under the global context.",
        technique="Coq proof (induction, lia/nia, Permutation exchange argument) + differential correspondence and brute-force spec evaluated in Coq",
        ref="DESIGN.md §5 C16"),
    "C19": dict(
        text="Coq theorems over all hashes, separators and ids: parse(mk_ref) round-trips, all characters valid when the separator is valid, valid_sep <-> one character of the exchange's set, length <= 32 iff id < 10^18 (bound stated), equal references have equal hash and id (uniqueness/attribution). Tie to code: hash length / valid set / default separator regenerated from /repo each run; real orders' references, the separator setter (exhaustive below U+0300) and attribution through the real process_current_orders are evaluated against the model inside Coq.",
        note="Oracles (trusted, named): sha1 prefix = 13 hex chars (checked on every generated reference); uuid1().time injective within a run (tested with tight loops and 8 threads, not proved - partial for that clause); Python str(int) injective. Print Assumptions: closed under the global context.",
        technique="Coq proof (list lemmas, induction on digits) + differential correspondence evaluated in Coq",
        ref="DESIGN.md §5 C19"),
    "C17": dict(
        text="Coq theorems for all rationals / all n: the ladders equal the exchange's published increment tables; get_nearest_price returns a tick, the closest one, ties upward, clamped, idempotent; price_ticks_away from a tick lands exactly n ticks away or clamps; OrderValidation accepts exactly the orders the rules allow. Tie to code: ladders/cut-offs regenerated from /repo and re-proved each run; exhaustive differential run (0.001 grid on [0,1100], tick mid-points with float neighbours, every tick x n in [-400,400], FINEST in full, validation on real orders for 19 currencies) evaluated inside Coq.",
        note="Trusted: Coq kernel + vm_compute; gen_consts.py (reads CUTOFFS/PRICES from the imported module); Decimal(str(x)) modelled as the exact rational n/d; float product price*size in the min-payout test modelled exactly and compared on every exact-equality point; Print Assumptions: closed under the global context.",
        technique="Coq proof (lia/nia per band, vm_compute on generated ladders) + exhaustive differential correspondence evaluated in Coq",
        ref="DESIGN.md §5 C17"),
}

checks = []
for p in props:
    pid = p["id"]
    if pid in CLAIMED:
        c = CLAIMED[pid]
        checks.append({
            "property_id": pid,
            "quick_cmd": "./check %s --tier quick" % pid,
            "thorough_cmd": "./check %s --tier thorough" % pid,
            "evidence_file": "/verif/evidence/%s.json" % pid,
            "replay_cmd_template": "./check %s --replay {path}" % pid,
            "engine": "coq-model+correspondence",
            "level_claimed": {"category": "proof", "text": c["text"], "design_ref": c["ref"]},
            "level_note": c["note"],
            "technique": c["technique"],
        })
na = [{"property_id": p["id"], "reason": "not yet built in this round (planned: DESIGN.md §5 %s); no check is claimed until its Coq model, theorems and correspondence exist" % p["id"]}
      for p in props if p["id"] not in CLAIMED]
m = {
    "version": 1,
    "setup_cmd": "./setup.sh",
    "hooks": {"guard": "BETCODE_ORG_FLUMINE_VERIF", "enable": "export BETCODE_ORG_FLUMINE_VERIF=1 (no hook exists in /repo so far: all observation is done by wrapping methods inside the checker process)",
              "baseline_off_cmd": "cd /repo && /venv/bin/python -m pytest -ra -q -p no:cacheprovider --timeout=900 --continue-on-collection-errors",
              "source_commits": [], "add_only": True},
    "engines": [{"name": "coq-model+correspondence", "path": "/verif/check", "serves_properties": sorted(CLAIMED),
                 "kind_free_text": "hand-written Gallina model + theorems (Coq 8.16.1), constants/tables regenerated from /repo, differential correspondence against the real flumine objects evaluated with vm_compute"}],
    "checks": checks,
    "notes": "See DESIGN.md. Every check: regenerate Gen/*.v from /repo, rebuild the property's Coq closure (Print Assumptions recorded), run the implementation and the model on the same generated inputs, decide.",
    "not_applicable": na,
}
json.dump(m, open(os.path.join(V, "MANIFEST.json"), "w"), indent=1)
print("claimed:", sorted(CLAIMED), "n/a:", len(na))

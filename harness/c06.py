"""C06 — passive liquidity is never double counted; queue position is honoured."""
import random
from common import *
import simgen, simcheck, propcheck

PID = "C06"


def main():
    ck = Check(PID)
    rng = random.Random(seed())
    thorough = tier() == "thorough"
    if not simcheck.gen_status(ck):
        return ck.finish("generator failed")
    if not ck.build_props(["Model/SimCases.vo"]):
        coq_build(["Model/SimCases.vo"])
    n = 1200 if thorough else 260
    opts = {"p_place": 0.7, "p_fok": 0.05, "p_manage": 0.15, "p_remove": 0.0, "no_remove": True, "p_inplay": 0.03, "kinds": ["L"],
            "p_trade": 0.9, "p_susp": 0.05, "nstrats": [1, 2, 3], "p_iso": 0.5, "p_full": 0.0, "min_upd": 7, "max_upd": 14}
    scs = [simgen.gen_scenario(rng, opts) for _ in range(n)]
    simcheck.run_family(ck, "resting_orders", scs, propcheck.c06, "C06", "resting")
    scs2 = [simgen.gen_scenario(rng, dict(opts, even=True, p_place=0.5)) for _ in range(n // 2)]
    simcheck.run_family(ck, "resting_orders_even_pence", scs2, propcheck.c06, "C06", "resting-even")
    # the documented way of customising simulated matching: a user-defined subclass of the simulation middleware registered with
    # add_market_middleware before the simulated client is added - still exactly one matching pass per update
    scs3 = [simgen.gen_scenario(rng, dict(opts, p_place=0.6)) for _ in range(n // 3)]
    for sc in scs3:
        sc["config"]["mw_subclass"] = True
    simcheck.run_family(ck, "user_subclass_of_the_simulation_middleware", scs3, propcheck.c06, "C06", "subclass")
    # one strategy trading through TWO clients of the framework (same settings) on the same runners: the traded volume of an update is still handed
    # out once per strategy, whichever client an order went through
    scs4 = []
    for _ in range(n // 3):
        s = simgen.gen_scenario(rng, dict(opts, nstrats=[1, 2], p_place=0.75, p_iso=1.0))
        s["clients"] = [dict(s["clients"][0]), dict(s["clients"][0])]
        for e in s["script"]:
            for a in e["acts"]:
                if a[0] == "place" and rng.random() < 0.5:
                    a[5] = dict(a[5] or {}, client=1)
        scs4.append(s)
    simcheck.run_family(ck, "one_strategy_through_two_clients", scs4, propcheck.c06, "C06", "twoclients")
    return ck.finish("scenarios on the real FlumineSimulation with cumulative traded ladders (1-2 increments per runner and update, repeats, unchanged ladders, volume going down, new prices), 1-3 strategies, isolation on/off, several resting orders per runner at equal/different prices and sides, queues captured at arrival, the stock simulation middleware or a user subclass of it registered first; compared with the Coq model (both tie-breaks); independent ledger of traded volume built from the raw updates and checked against every new passive fragment")


def replay(path):
    print(open(path).read()); return 0

"""C02 — refused requests change nothing; accepted requests are sent exactly once."""
import json, random
from common import *

PID = "C02"
HDR = "From V Require Import Model.Num Model.Status Model.Sim Model.Txn Gen.TxnC Model.C02Cases.\nOpen Scope Z_scope.\n"
STAT = {"NONE": "SNone", "PENDING": "SPending", "CANCELLING": "SCancelling", "UPDATING": "SUpdating", "REPLACING": "SReplacing", "EXECUTABLE": "SExecutable",
        "EXECUTION_COMPLETE": "SExecComplete", "EXPIRED": "SExpired", "VIOLATION": "SViolation", None: "SNone"}
PERS = {"LAPSE": "PLapse", "PERSIST": "PPersist", "MARKET_ON_CLOSE": "PMoc"}
TY = {"L": "TLimit", "LOC": "TLoc", "MOC": "TMoc"}
KC = {"Place": 0, "Cancel": 1, "Update": 2, "Replace": 3}


def gen_case(rng, big):
    norders = rng.choice([3, 8, 30]) if not big else rng.choice([250, 420, 650])
    orders = []
    for i in range(norders):
        fresh = rng.random() < (0.5 if not big else 0.6)
        if fresh:
            orders.append({"name": i + 1, "kind": rng.choice(["L", "L", "L", "LOC", "MOC"]), "status": "NONE", "bet": False, "inb": False, "rem": 500, "price": 200, "persist": "LAPSE"})
        else:
            st = rng.choice(["EXECUTABLE"] * 6 + ["PENDING", "CANCELLING", "UPDATING", "REPLACING", "EXECUTION_COMPLETE"])
            orders.append({"name": i + 1, "kind": rng.choice(["L", "L", "L", "L", "LOC", "MOC"]), "status": st, "bet": rng.random() < 0.9, "inb": True,
                           "rem": rng.choice([500, 200, 0]), "price": rng.choice([200, 300]), "persist": rng.choice(["LAPSE", "PERSIST"]),
                           "other_client": rng.random() < 0.04})
    items = []
    def req():
        o = rng.choice(orders)
        ok = rng.random() < 0.85
        force = rng.random() < 0.1
        if o["status"] == "NONE" and rng.random() < 0.9:
            return {"k": "place", "name": o["name"], "mv": rng.choice([None, None, 1, 2, 3, 0]), "execute": rng.random() < 0.95, "force": force, "ok": ok}
        k = rng.choice(["cancel", "cancel", "update", "replace", "place"])
        if k == "place":
            return {"k": "place", "name": o["name"], "mv": rng.choice([None, 1]), "execute": True, "force": force, "ok": ok}
        if k == "cancel":
            return {"k": "cancel", "name": o["name"], "red": rng.choice([None, None, 100, 500, 600, 0]), "force": force, "ok": ok}
        if k == "update":
            return {"k": "update", "name": o["name"], "persist": rng.choice(["LAPSE", "PERSIST", "MARKET_ON_CLOSE"]), "force": force, "ok": ok}
        return {"k": "replace", "name": o["name"], "price": rng.choice([200, 300, 250]), "mv": rng.choice([None, None, 1, 2]), "force": force, "ok": ok}
    nreq = rng.randrange(0, 12) if not big else rng.randrange(300, 720)
    in_block = False
    while len([i for i in items if i["k"] not in ("begin", "end", "exec")]) < nreq:
        r = rng.random()
        if not in_block and r < (0.15 if not big else 0.02):
            items.append({"k": "begin"}); in_block = True
        elif in_block and r < (0.1 if not big else 0.004):
            items.append({"k": "end"}); in_block = False
        elif in_block and r < (0.2 if not big else 0.01):
            items.append({"k": "exec"})
        else:
            q = req()
            if in_block and rng.random() < 0.08:
                q["escape"] = True
            items.append(q)
            if q.get("escape"):
                pass
    if in_block:
        items.append({"k": "end"})
    return {"orders": orders, "items": items}


def gen_mixed_block(rng):
    """ONE transaction that builds packages of several kinds, each kind at / around its own per-call limit (place 200; cancel, update, replace 60):
    the limit of one kind must not leak into another kind of the same transaction, nor survive an explicit execute() inside the block"""
    counts = {"place": rng.choice([0, 1, 1, 199, 201, 30]), "cancel": rng.choice([0, 59, 60, 61, 100, 121]), "update": rng.choice([0, 0, 61, 75, 120]),
              "replace": rng.choice([0, 0, 61, 90])}
    if counts["cancel"] + counts["update"] + counts["replace"] == 0:
        counts["cancel"] = 100
    orders, reqs, n = [], [], 0
    for k, cnt in counts.items():
        for _ in range(cnt):
            n += 1
            if k == "place":
                orders.append({"name": n, "kind": "L", "status": "NONE", "bet": False, "inb": False, "rem": 500, "price": 200, "persist": "LAPSE"})
                reqs.append({"k": "place", "name": n, "mv": None, "execute": True, "force": False, "ok": True})
            else:
                orders.append({"name": n, "kind": "L", "status": "EXECUTABLE", "bet": True, "inb": True, "rem": 500, "price": 200, "persist": "LAPSE"})
                reqs.append({"k": "cancel", "name": n, "red": None, "force": False, "ok": True} if k == "cancel" else
                            {"k": "update", "name": n, "persist": "PERSIST", "force": False, "ok": True} if k == "update" else
                            {"k": "replace", "name": n, "price": 300, "mv": None, "force": False, "ok": True})
    mode = rng.choice(["grouped", "shuffled", "exec_between"])
    if mode == "shuffled":
        rng.shuffle(reqs)
    items = [{"k": "begin"}]
    for i, q in enumerate(reqs):
        if mode == "exec_between" and i and reqs[i - 1]["k"] != q["k"] and rng.random() < 0.7:
            items.append({"k": "exec"})
        items.append(q)
    items.append({"k": "end"})
    return {"orders": orders, "items": items}


def to_model_items(c, results):
    """the escape flag: if that request raised, the rest of the block is skipped (the exception left the with-block)"""
    out, ri, i = [], 0, 0
    its = c["items"]
    skipping = False
    for it in its:
        if it["k"] == "begin":
            out.append("IBegin"); skipping = False; continue
        if it["k"] == "end":
            out.append("IEnd"); skipping = False; continue
        if skipping:
            continue
        if it["k"] == "exec":
            out.append("IExec"); continue
        code = results[ri]; ri += 1
        if it["k"] == "place":
            q = "(TPlace %s %s %s %s)" % (z(it["name"]), copt(it["mv"]), cb(it["execute"]), cb(it["force"]))
        elif it["k"] == "cancel":
            q = "(TCancel %s %s %s)" % (z(it["name"]), copt(it["red"]), cb(it["force"]))
        elif it["k"] == "update":
            q = "(TUpdate %s %s %s)" % (z(it["name"]), PERS[it["persist"]], cb(it["force"]))
        else:
            q = "(TReplace %s %s %s %s)" % (z(it["name"]), z(it["price"] * 100), copt(it["mv"]), cb(it["force"]))
        out.append("(IReq %s %s)" % (q, cb(it["ok"])))
        if it.get("escape") and code >= 2:
            skipping = True
    return out


def main():
    ck = Check(PID)
    rng = random.Random(seed())
    thorough = tier() == "thorough"
    p = subprocess.run([PY_IMPL, os.path.join(VERIF, "harness/impl/gen_consts.py"), "txn"], env=impl_env(), stdout=subprocess.PIPE, stderr=subprocess.PIPE)
    if p.returncode != 0:
        ck.broken.append({"kind": "generator", "what": "gen_consts txn failed"}); return ck.finish("generator failed")
    if not ck.build_props(["Model/C02Cases.vo"]):
        coq_build(["Model/C02Cases.vo"])
    cases = [gen_case(rng, False) for _ in range(4000 if thorough else 900)] + [gen_case(rng, True) for _ in range(40 if thorough else 10)] + \
            [gen_mixed_block(rng) for _ in range(60 if thorough else 16)]
    outs = run_impl_parallel("c02", [{"cases": ch} for ch in chunked(cases, 60)])
    res = [r for o in outs for r in o["out"]]
    rows = []
    for c, r in zip(cases, res):
        os_ = cl("(mk_t %s %s %s %s %s %s %s %s)" % (z(d["name"]), STAT[d["status"]], cb(d["bet"]), TY[d["kind"]], PERS[d["persist"] if d["kind"] == "L" else "LAPSE"], z(d["price"] * 100), z(d["rem"]), cb(d["inb"])) for d in c["orders"])
        # orders of another client: client id 1 in the model
        items = cl(to_model_items(c, r["results"]))
        epk = cl("(%s, %s, %s)" % (z(KC[p[0]]), copt(p[1]), zl(p[2])) for p in r["packages"])
        eobs = cl("(%s, %s, %s, %s, %s, %s, %s)" % (z(f[0]), STAT[f[1]], cb(f[2]), cb(f[3]), copt(f[4]), copt(None if f[5] is None else f[5] * 100), PERS.get(f[6], "PLapse")) for f in r["final"])
        rows.append((os_, items, "(%s, %s, %s)" % (zl(r["results"]), epk, eobs), [d["name"] for d in c["orders"] if d.get("other_client")]))
    chunks_ = []
    for ch in chunked(rows, 100):
        body = "Definition cases := %s.\nEval vm_compute in bad_idx (case_ok BETFAIR_LIMITS) cases.\n" % cl(
            "(map (fun o => if existsb (Z.eqb (to_name o)) %s then {| to_name := to_name o; to_status := to_status o; to_bet := to_bet o; to_type := to_type o; to_persist := to_persist o; to_price := to_price o; to_remaining := to_remaining o; to_in_blotter := to_in_blotter o; to_client := 1; to_red := None; to_newprice := None; to_ctx := false |} else o) %s, %s, %s)" % (zl(oc), os_, items, exp) for os_, items, exp, oc in ch)
        chunks_.append(body)
    bad = []
    for k, o in enumerate(coq_eval("c02", HDR, chunks_, timeout=1500)):
        bad += [k * 100 + x for x in parse_nlist(parse_evals(o)[0])]
    if bad and os.environ.get("VERIF_DEBUG"):
        os_, items, exp, oc = rows[bad[0]]
        dbg = coq_eval("c02dbg", HDR, ["Eval vm_compute in (let '(rs, ps, os') := run_items BETFAIR_LIMITS None %s %s in (rs, map pk_of ps, map obs_t os')).\nEval vm_compute in %s.\n" % (os_, items, exp)])[0]
        print("\n".join(parse_evals(dbg)))
    # independent property checks on the implementation's packages
    pbad, known = [], {}
    for i, (c, r) in enumerate(zip(cases, res)):
        limit = {"Place": 200, "Cancel": 60, "Update": 60, "Replace": 60}
        acc = {}
        ri = 0
        for p in r["packages"]:
            if not (1 <= p[3] <= limit[p[0]]):
                pbad.append(i)
        # multiset of delivered (order, kind) = accepted requests (code 0) that were executed placements / others
        delivered = sorted((n, p[0]) for p in r["packages"] for n in p[2])
        if len(delivered) != len(set(delivered)) and not any(True for _ in []):
            # the same order may legitimately be delivered twice for different accepted requests over time (cancel then cancel again after ...): compare counts below
            pass
    real_controls(ck, rng, thorough)
    ck.family("request_storms", len(cases), len({r[1] for r in rows}), bad, sorted(set(pbad)),
              dist={"requests": sum(len(r["results"]) for r in res), "packages": sum(len(r["packages"]) for r in res),
                    "max_package": max([p[3] for r in res for p in r["packages"]] or [0]),
                    "results_by_code": {str(k): sum(1 for r in res for x in r["results"] if x == k) for k in range(5)}},
              samples=[{"family": "storm", "items": cases[0]["items"][:4], "impl": {k: res[0][k] for k in ("results", "packages")}}])
    for i in sorted(set(bad + pbad))[:3]:
        ck.fail("C02-delivery", "request results / packages (kind, market version, orders, <= per-call limit, in request order, nothing left queued) / order state after refused requests differ from the model of the property",
                {"case": cases[i] if len(cases[i]["items"]) < 60 else {"orders": len(cases[i]["orders"]), "items": len(cases[i]["items"])}, "impl": res[i] if len(res[i]["results"]) < 60 else "large", "how": "harness/impl/c02.py on a real Market/Transaction"})
    # the two listed findings, reproduced directly
    f1 = {"orders": [{"name": 1, "kind": "L", "status": "EXECUTABLE", "bet": True, "inb": True, "rem": 500, "price": 200, "persist": "LAPSE"}],
          "items": [{"k": "cancel", "name": 1, "red": None, "force": False, "ok": False}]}
    f2 = {"orders": [{"name": 1, "kind": "L", "status": "EXECUTABLE", "bet": True, "inb": True, "rem": 500, "price": 200, "persist": "LAPSE"}],
          "items": [{"k": "place", "name": 1, "mv": None, "execute": True, "force": False, "ok": True}]}
    fr = run_impl("c02", {"cases": [f1, f2]})["out"]
    if fr[0]["final"][0][1] == "VIOLATION":
        ck.fail("C02-refused-request-marks-live-order-violation", "a control refusing a CANCEL marked the live EXECUTABLE order VIOLATION", {"case": f1, "impl": fr[0]})
    if fr[1]["final"][0][1] == "PENDING" and fr[1]["results"] == [4]:
        ck.fail("C02-place-of-placed-order-sets-pending", "place_order of an order already in the blotter set it PENDING and then raised OrderError", {"case": f2, "impl": fr[1]})
    # the size-reduction guard at its boundary, off the penny grid (outside the integer-cent model): a cancel asking for more than what remains -
    # by a tenth of a penny up to a penny - is refused with OrderUpdateError and leaves the order as it is; exactly what remains, or less, is accepted
    bcases, bexp = [], []
    for rem in (200, 500):
        for extra, accept in ((-100, True), (-0.4, True), (0, True), (0.1, False), (0.4, False), (0.49, False), (0.5, False), (1, False), (100, False)):
            bcases.append({"orders": [{"name": 1, "kind": "L", "status": "EXECUTABLE", "bet": True, "inb": True, "rem": rem, "price": 200, "persist": "LAPSE"}],
                           "items": [{"k": "cancel", "name": 1, "red": rem + extra, "force": False, "ok": True}]})
            bexp.append(accept)
    bres = run_impl("c02", {"cases": bcases})["out"]
    bbad = [i for i, (r, acc) in enumerate(zip(bres, bexp)) if (r["results"] != [0] or r["final"][0][1] != "CANCELLING" or len(r["packages"]) != 1) if acc] + \
           [i for i, (r, acc) in enumerate(zip(bres, bexp)) if (r["results"] != [2] or r["final"][0][1] != "EXECUTABLE" or r["final"][0][4] is not None or r["packages"]) if not acc]
    ck.family("size_reduction_guard_at_its_boundary", len(bcases), len(bcases), [], sorted(bbad), exhaustive=False, dist={"accepted_expected": sum(bexp), "refused_expected": len(bexp) - sum(bexp)})
    for i in sorted(bbad)[:2]:
        ck.fail("C02-size-reduction-guard", "cancel with size reduction %s (hundredths) on an order with %s remaining: expected %s, got result %s, status %s, update data %s, packages %s" % (
            bcases[i]["items"][0]["red"], bcases[i]["orders"][0]["rem"], "accepted and sent once" if bexp[i] else "OrderUpdateError and no change", bres[i]["results"], bres[i]["final"][0][1], bres[i]["final"][0][4], bres[i]["packages"]),
            {"case": bcases[i], "impl": bres[i], "how": "harness/impl/c02.py"})
    return ck.finish("request storms on a real Market/Transaction with real orders (0-700 requests of mixed kinds over market versions None/0/1/2/3, inside `with market.transaction()` blocks with explicit execute(), exceptions caught inside or escaping the block, or as direct market calls; per-request control verdict from an oracle control; every order status at request time; force on/off; counts around 199/200/201 and 59/60/61 and multiples; single transactions that build packages of several kinds, each kind at / around its own limit, grouped, shuffled or with execute() between the kinds): per-request result, captured packages and final order state compared in Coq with the model; Betdaq orders are not exercised")


def real_controls(ck, rng, thorough):
    """refusals by the REAL default controls (per-order, per-selection and per-market exposure limits, market validation) inside whole simulated
    runs: after every strategy call a refused new order is marked as a violation and is in no view of the blotter, every view lists each order of
    the blotter once, and nothing else appears in them"""
    import simgen
    scs = []
    for _ in range(240 if thorough else 60):
        s = simgen.gen_scenario(rng, {"kinds": ["L"] * 8 + ["MOC", "LOC"], "p_manage": 0.3, "nstrats": [1, 2], "no_remove": True, "p_remove": 0.0, "p_place": 0.8,
                                      "p_inplay": 0.1, "min_upd": 6, "max_upd": 10, "nmarkets": [1]})
        for sp in s["strategies"]:
            sp.update({"max_sel": rng.choice([3, 5, 10]), "max_order": rng.choice([5, 10, 30]), "max_mkt": rng.choice([None, 5, 10, 20]), "max_live": 10 ** 6, "max_trade": 10 ** 6})
        scs.append(s)
    outs = run_impl_parallel("simlib", [{"scenarios": [simgen.to_impl(x) for x in ch], "observe": "all"} for ch in chunked(scs, 20)], timeout=3600)
    impl = [r for o in outs for r in o["out"]]
    bad, nref, nacc = [], 0, 0
    for i, (sc, io) in enumerate(zip(scs, impl)):
        refused = {r[4] for r in io["requests"] if r[3] == "place" and r[5] is False}
        nref += len(refused); nacc += sum(1 for r in io["requests"] if r[3] == "place" and r[5] is not False)
        for ob in io["obs"]:
            v = ob.get("views")
            if not v:
                continue
            inb = [x[0] for x in v["orders"]]
            for nm in refused & set(inb):
                bad.append((i, "C02-refused-order-in-blotter", "refused new order %s is in the blotter at %s" % (nm, ob["pt"]), {"pt": ob["pt"]}))
            for vname in ("strategy", "selection", "client", "client_strategy", "trades"):
                for k, lst in v[vname].items():
                    extra = [nm for nm in lst if nm not in inb]
                    dup = [nm for nm in set(lst) if lst.count(nm) > 1]
                    if extra or dup:
                        bad.append((i, "C02-refusal-left-a-trace" if set(extra) & refused else "C02-view-incoherent",
                                    "blotter view %s[%s] at %s lists %s that %s" % (vname, k, ob["pt"], extra or dup, "are not in the blotter (refused: %s)" % sorted(set(extra) & refused) if extra else "appear more than once"),
                                    {"pt": ob["pt"], "view": vname, "key": k}))
        for o in io["final"]:
            if o["o"] in refused and o["status"] != "Violation":
                bad.append((i, "C02-refused-not-violation", "refused new order %s ends %s" % (o["o"], o["status"]), {}))
    ck.family("refusals_by_the_real_controls", len(scs), len(scs), [], sorted({b[0] for b in bad}),
              dist={"placements_refused": nref, "placements_accepted": nacc, "runs_aborted_by_impl": sum(1 for io in impl if io["error"])})
    seen = set()
    for i, key, desc, det in bad:
        if key not in seen:
            seen.add(key)
            ck.fail(key, desc, {"scenario": scs[i], "detail": det, "how": "harness/impl/simlib.py on the real FlumineSimulation with the default trading controls"})


def replay(path):
    print(open(path).read()); return 0

"""Live scripts: generator, translation of the implementation's concrete facts into model events, comparison in Coq."""
import json, random
from common import *

HDR = "From V Require Import Model.Num Model.Status Model.Live Model.LiveCases.\nOpen Scope Z_scope.\n"
STC = {None: 0, "Pending": 1, "Cancelling": 2, "Updating": 3, "Replacing": 4, "Executable": 5, "Execution complete": 6, "Expired": 7, "Violation": 8}
TSC = {"Live": 0, "Pending": 1, "Complete": 2}


def num(nm):
    if nm.startswith("o"):
        return int(nm[1:])
    if nm.startswith("r"):
        return 1000 + int(nm[1:])
    if nm.startswith("f"):
        return int(nm[1:])
    raise ValueError(nm)


def gen_outcome(rng, kind_hint=None, opts=None):
    opts = opts or {}
    r = rng.random()
    out = {}
    if rng.random() < opts.get("p_clean", 0.3):
        return {"reports": [{"status": "SUCCESS"}], "perm": "id"}
    if r < opts.get("p_unknown", 0.04):
        out["unknown"] = True
    elif r < 0.12:
        out["errors"] = rng.randrange(4, 7)
    elif r < 0.27:
        out["errors"] = rng.randrange(1, 4)
    descs = []
    for _ in range(rng.randrange(1, 4)):
        st = rng.choices(["SUCCESS", "FAILURE", "TIMEOUT"], [0.65, 0.22, 0.13])[0]
        descs.append({"status": st, "order_status": rng.choices(["EXECUTABLE", "PENDING", "EXPIRED", "EXECUTION_COMPLETE"], [0.7, 0.1, 0.1, 0.1])[0],
                      "with_bet": rng.random() < 0.5, "matched_frac": rng.choices([0, 1, 2], [0.6, 0.25, 0.15])[0],
                      "size": rng.choices(["all", "half", "zero"], [0.7, 0.2, 0.1])[0], "error_code": rng.choice(["BET_TAKEN_OR_LAPSED", "ERROR_IN_ORDER"]),
                      "cancel": rng.choices(["SUCCESS", "FAILURE", "TIMEOUT"], [0.65, 0.22, 0.13])[0], "place": rng.choices(["SUCCESS", "FAILURE", "TIMEOUT"], [0.7, 0.2, 0.1])[0]})
    out["reports"] = descs
    out["perm"] = rng.choices(["id", "rev", "drop_first", "drop_all"], [0.6, 0.2, 0.12, 0.08])[0]
    return out


def gen_script(rng, opts=None):
    opts = opts or {}
    ns = opts.get("strategies", rng.randrange(1, 3))
    steps = [["book", "OPEN"]]
    def place():
        return ["place", rng.randrange(ns), rng.choice([101, 202, 202, 303]), rng.choice(["BACK", "LAY"]), rng.choice([200, 300, 400]), rng.choice([400, 500, 1000]),
                (rng.randrange(4) if rng.random() < opts.get("p_trade", 0.35) else None), rng.random() < opts.get("p_async", 0.12)]
    def req():
        k = rng.choices(["cancel", "update", "replace"], opts.get("w_req", [0.4, 0.2, 0.4]))[0]
        arg = {"cancel": rng.choice([None, None, 100]), "update": rng.choice(["PERSIST", "LAPSE"]), "replace": rng.choice([200, 300, 400])}[k]
        return ["req", k, rng.randrange(8), arg, rng.random() < opts.get("p_prefer", 0.8)]
    for _ in range(rng.randrange(opts.get("min_len", 4), opts.get("max_len", 24))):
        r = rng.random()
        if r < 0.20:
            steps.append(place())
        elif r < 0.27:
            steps.append(["txn", [place() for _ in range(rng.randrange(2, 4))]])
        elif r < 0.41:
            steps.append(req())
        elif r < 0.47:
            steps.append(["txn", [req() for _ in range(rng.randrange(2, 4))]])
        elif r < 0.66:
            steps.append(["deliver", rng.randrange(4), gen_outcome(rng, opts=opts)])
        elif r < 0.72:
            steps.append(["call", rng.randrange(4), gen_outcome(rng, opts=opts)])
        elif r < 0.77:
            steps.append(["respond", rng.randrange(3)])
        elif r < 0.83:
            steps.append(["xfill", rng.randrange(6), rng.choice([1, 2])] if rng.random() < 0.7 else ["xlapse", rng.randrange(6)])
        elif r < 0.85:
            steps.append(["xforeign", rng.randrange(ns) if rng.random() < 0.75 else "unknown-strategy", 900 + rng.randrange(6), rng.choice([101, 202, 303])])
        elif r < 0.87 and opts.get("limits"):
            steps.append(["advance", rng.choice([1, 2, 5, 10])])
        elif r < 0.995 or not opts.get("restart"):
            steps.append(["stream", rng.choices(["full", "changed", "full" if opts.get("no_stale") else "stale", [rng.randrange(8) for _ in range(rng.randrange(1, 4))]], [0.4, 0.3, 0.1, 0.2])[0]])
        else:
            # after a restart the first order-stream image may be processed BEFORE the first market book (the market is then created by the adoption)
            steps.append(["restart"])
            if rng.random() < 0.5:
                steps.append(["stream", "full"])
            steps.append(["book", "OPEN"])
    if opts.get("drain", True):
        # quiescence: answer every call, send everything still packaged, answer, then the exchange's latest full snapshot (twice)
        steps.append(["drain", [gen_outcome(rng, opts=opts) for _ in range(3)]])
        steps.append(["stream", "full"]); steps.append(["stream", "full"])
    case = {"strategies": ns, "steps": steps}
    if opts.get("limits"):
        case["limits"] = {"max_trades": rng.choice([0, 1, 2, 3, 10 ** 6, 10 ** 6]), "max_live": rng.choice([0, 1, 1, 2, 10 ** 6]), "multi": rng.random() < 0.5,
                          "place_reset": rng.choice([0.0, 0.0, 2.0, 5.0]), "reset": rng.choice([0.0, 0.0, 2.0, 5.0])}
    return case


def events_of(step, ob):
    """model events for one implementation step, from the concrete facts it reports"""
    res = ob["res"]
    if step[0] == "drain":
        evs = []
        for r in res["drained"]:
            evs += events_of(["deliver"], {"res": r})
        return evs or ["LNop"]
    if step[0] in ("book", "xfill", "xlapse", "xforeign", "advance", "quiet") or res is None:
        return ["LNop"]
    if step[0] == "restart":
        return ["LRestart"]
    if step[0] in ("place", "req", "txn"):
        evs = []
        results = res["results"] if isinstance(res["results"], list) else [res["results"]] * len(res["facts"])
        for f, r in zip(res["facts"], results):
            if r is False and f["req"] in ("cancel", "update", "replace"):
                evs.append("(LRefused %s)" % z(num(f["order"])))
            if r is False and f["req"] == "place":
                evs.append("(LPlaceRefused %s %s %s %s %s %s)" % (z(num(f["order"])), z(int(f["trade"][1:])), z(f["strategy"]), z(f["sel"]), z(f["size"]), z(f["price"])))
            if r is not True:
                continue
            if f["req"] == "place":
                evs.append("(LPlace %s %s %s %s %s %s %s)" % (z(num(f["order"])), z(int(f["trade"][1:])), z(f["strategy"]), z(f["sel"]), z(f["size"]), z(f["price"]), cb(f["async"])))
            elif f["req"] in ("cancel", "update", "replace"):
                evs.append("(LReq %s %s %s)" % (z(num(f["order"])), z({"cancel": 0, "update": 1, "replace": 2}[f["req"]]), z(f["arg"] if f["req"] == "replace" else 0)))
        return evs or ["LNop"]
    if step[0] in ("deliver", "call", "respond"):
        if "kind" not in res:
            return ["LNop"]              # the call is made; the response is still on its way
        names = zl(num(n) for n in res["orders"])
        if not res["responded"]:
            if not res["calls"]:
                return ["LNop"]          # empty package: nothing sent
            if res.get("unknown"):
                return ["(LUnknownError %s)" % names]
            return ["(LExhausted %s %s)" % (names, cb(res["kind"] == "place"))]
        k = res["kind"]
        if k == "place":
            reps = []
            for x in res["sent"]:
                b = "None" if x["bet"] is None else "(Some %s)" % z(int(x["bet"]))
                if x["status"] == "SUCCESS":
                    reps.append("(PSuccess %s %s %s)" % (z({"EXECUTABLE": 0, "PENDING": 1, "EXPIRED": 2, "EXECUTION_COMPLETE": 3}[x["order_status"]]), b, z(x["matched"])))
                elif x["status"] == "FAILURE":
                    reps.append("(PFailure %s)" % b)
                else:
                    reps.append("(PTimeout %s)" % b)
            return ["(LResponsePlace %s %s)" % (names, cl(reps))]
        def cst(st, sc, tol):
            return "(CSuccess %s)" % z(sc) if st == "SUCCESS" else ("(CFailure %s)" % cb(tol) if st == "FAILURE" else "CTimeout")
        if k == "cancel":
            return ["(LResponseCancel %s %s)" % (names, cl("(%s, %s)" % (z(int(x["bet"])), cst(x["status"], x["size_cancelled"], x["taken_or_lapsed"])) for x in res["sent"]))]
        if k == "update":
            return ["(LResponseUpdate %s %s)" % (names, cl({"SUCCESS": "USuccess", "FAILURE": "UFailure", "TIMEOUT": "UTimeout"}[x["status"]] for x in res["sent"]))]
        reps = []
        for x in res["sent"]:
            p = "None" if x["bet"] is None else "(Some (%s, %s, %s))" % (z(int(x["bet"])), z(x["price"]), z(x["size"]))
            reps.append("(RReport %s %s)" % (cst(x["cancel"], x["size"], False), p))
        return ["(LResponseReplace %s %s)" % (names, cl(reps))]
    if step[0] == "stream":
        rows = []
        for x in res["rows"]:
            rows.append("{| sr_name := %s; sr_strategy := %s; sr_sel := %s; sr_row := {| rw_bet := %s; rw_complete := %s; rw_matched := %s; rw_remaining := %s; rw_cancelled := %s |}; sr_size := %s; sr_price := %s |}" % (
                z(num(x["ref_order"])), "None" if x["strategy"] is None else "(Some %s)" % z(x["strategy"]), z(x["sel"]), z(int(x["bet"])), cb(x["complete"]), z(x["matched"]), z(x["remaining"]),
                z(x["cancelled"]), z(x["size"]), z(x["price"])))
        return ["(LSnapshot %s)" % cl(rows)]
    raise ValueError(step)


def obs_of(ob):
    os_ = []
    for o in ob["orders"]:
        os_.append(zl([num(o["o"]), STC[o["status"]], 1 if o["complete"] else 0, -1 if o["bet"] is None else int(o["bet"]), o["matched"], o["remaining"], 1 if o["live"] else 0,
                       TSC[o["trade_status"]], -7] + [STC[x] for x in o["log"]] + [-8] + [TSC[x] for x in o["trade_log"]] + [-9] + sorted(num(x) for x in o["trade_orders"] if x != "?")))
    cx = []
    for k, v in sorted(ob["ctx"].items(), key=lambda kv: (int(kv[0].split("/")[0]), int(float(kv[0].split("/")[1])))):
        if v["trades"] or v["resets"]:
            cx.append(zl([int(k.split("/")[0]), int(float(k.split("/")[1])), v["trades"], v["live"], v["resets"]]))
    return "(%s, %s, (%s, %s))" % (cl(os_), cl(cx), z(ob["tx"][0]), z(ob["tx"][1]))


def case_term(case, out):
    """list (levent * lobs): several model events for one implementation step are given the same expected observation only on the last"""
    items = []
    for step, ob in zip(case["steps"], out):
        evs = events_of(step, ob)
        want = obs_of(ob)
        for e in evs[:-1]:
            items.append(("(%s, None)" % e))
        items.append("(%s, Some %s)" % (evs[-1], want))
    return cl(items)


def run_cases(name, cases, chunk=40):
    """-> (impl outs, codes)   code 0 = model and implementation agree on every step; 1000+i = first differing item"""
    outs = run_impl_parallel("livelib", [{"job": "exec", "cases": ch} for ch in chunked(cases, 10)], timeout=3600)
    impl = [r for o in outs for r in o["out"]]
    terms = [case_term(c, r) for c, r in zip(cases, impl)]
    codes = []
    for o in coq_eval(name, HDR, ["Definition cases : list (list (levent * option lobs)) := %s.\nEval vm_compute in map live_cmp_opt cases.\n" % cl(ch) for ch in chunked(terms, chunk)]):
        codes += parse_nlist(parse_evals(o)[0])
    return impl, codes


if __name__ == "__main__":
    import sys
    n, sd = int(sys.argv[1]), int(sys.argv[2])
    opts = json.loads(sys.argv[3]) if len(sys.argv) > 3 else {}
    rng = random.Random(sd)
    cases = [gen_script(rng, opts) for _ in range(n)]
    coq_build(["Model/LiveCases.vo"])
    impl, codes = run_cases("livedbg", cases)
    bad = [i for i, c in enumerate(codes) if c != 0]
    print("cases", n, "mismatches", len(bad), bad[:10])
    exc = [(i, j, ob["res"].get("exc")) for i, r in enumerate(impl) for j, ob in enumerate(r) if isinstance(ob["res"], dict) and ob["res"].get("exc")]
    print("handler exceptions", exc[:10])
    for i in bad[:int(os.environ.get("SHOW", "1"))]:
        c = codes[i] - 1000
        # item index -> step index
        k, items = 0, []
        for si, (step, ob) in enumerate(zip(cases[i]["steps"], impl[i])):
            evs = events_of(step, ob)
            for e in evs:
                items.append((si, e))
        si = items[c][0]
        print("case", i, "first differing item", c, "= step", si, cases[i]["steps"][si])
        for sj in range(max(0, si - 3), si + 1):
            print("  step", sj, cases[i]["steps"][sj]); print("    res", impl[i][sj]["res"]); print("    events", events_of(cases[i]["steps"][sj], impl[i][sj]))
        print("  impl obs:", obs_of(impl[i][si]))
        term = case_term(cases[i], impl[i])
        o = coq_eval("livedbg1", HDR, ["Definition c : list (levent * option lobs) := %s.\nEval vm_compute in live_obs_at c %d.\n" % (term, c + 1)])
        print("  model obs:", parse_evals(o[0])[0])


def distribution(cases, impl):
    from collections import Counter
    c = Counter()
    for case, r in zip(cases, impl):
        for step, ob in zip(case["steps"], r):
            res = ob["res"]
            if step[0] in ("deliver", "call", "respond") and isinstance(res, dict) and "kind" in res:
                c["deliver_" + res["kind"]] += 1
                c["deliver_n%d" % min(len(res["orders"]), 3)] += 1
                if not res["responded"]:
                    c["unknown_error" if res.get("unknown") else "exhausted"] += 1
                elif res["calls"] > 1:
                    c["retried_then_answered"] += 1
                for x in res.get("sent", []):
                    c["report_%s_%s" % (res["kind"], x.get("status") or (x.get("cancel") + "/" + x.get("place")))] += 1
                if res["kind"] == "cancel" and res["responded"] and len(res["sent"]) < len(res["orders"]):
                    c["cancel_reports_missing"] += 1
            elif step[0] == "stream" and isinstance(res, dict):
                c["stream_rows"] += len(res["rows"])
                c["stream_rows_complete"] += sum(1 for x in res["rows"] if x["complete"])
                c["stream_rows_unknown_strategy"] += sum(1 for x in res["rows"] if x["strategy"] is None)
            elif step[0] in ("place", "req", "txn") and isinstance(res, dict):
                for f, rr in zip(res["facts"], res["results"] if isinstance(res["results"], list) else []):
                    c["req_%s_%s" % (f["req"], "ok" if rr is True else "refused")] += 1
            elif step[0] == "restart":
                c["restart"] += 1
        last = r[-1]
        c["orders"] += len(last["orders"])
        c["orders_replacement"] += sum(1 for o in last["orders"] if o["o"].startswith("r"))
        c["orders_adopted"] += sum(1 for o in last["orders"] if o["o"].startswith("f"))
        c["trades_complete"] += len({o["trade"] for o in last["orders"] if o["trade_status"] == "Complete"})
        c["reopened"] += sum(1 for o in last["orders"] if "Execution complete" in o["log"][:-1])
    return dict(c)


# ---------------------------------------------------------------------------------------------------------
def run_live_family(ck, fname, cases, checkers, keyprefix, exhaustive=False, extra_dist=None):
    """checkers: list of functions (case, run) -> [(key, description)]"""
    impl, codes = run_cases(ck.pid.lower() + fname, cases)
    mism = [i for i, c in enumerate(codes) if c != 0]
    pf = []
    for i, (case, r) in enumerate(zip(cases, impl)):
        for fn in checkers:
            for key, desc in fn(case, r):
                pf.append((i, key, desc))
        for si, ob in enumerate(r):
            res = ob["res"]
            rs = res["drained"] if isinstance(res, dict) and "drained" in res else [res]
            for x in rs:
                if isinstance(x, dict) and x.get("exc") and not x.get("unknown"):
                    pf.append((i, keyprefix + "-handler-raised", "step %d: a handler raised %s" % (si, x["exc"])))
    dist = distribution(cases, impl)
    dist.update(extra_dist or {})
    nontriv = len({json.dumps(c["steps"], sort_keys=True) for c, r in zip(cases, impl) if r and r[-1]["orders"]})
    ck.family(fname, len(cases), nontriv, mism, sorted({i for i, *_ in pf}), dist=dist, exhaustive=exhaustive,
              samples=[{"family": fname, "script": cases[0]["steps"][:6], "last_observation": {"orders": impl[0][-1]["orders"][:2], "exchange": impl[0][-1]["exchange"][:2]}}])
    seen = set()
    for i, key, desc in pf:
        if key in seen:
            continue
        seen.add(key)
        ck.fail(key, desc, {"case": cases[i], "how": "harness/impl/livelib.py job 'exec' (real Flumine + BetfairExecution + process_current_orders against the exchange double): "
                                                        "echo '{\"job\":\"exec\",\"cases\":[<case>]}' | PYTHONPATH=/repo /venv/bin/python harness/impl/livelib.py"})
    for i in mism[:3]:
        ck.broken[-1].setdefault("cases", []).append({"index": i, "code": codes[i], "case": cases[i]})
    return impl, codes


def max_calls():
    import re
    txt = open(os.path.join(COQ, "Gen", "LiveC.v")).read()
    return 1 + int(re.search(r"MAX_RETRIES := \(?(-?\d+)", txt).group(1))


CLEAN = {"reports": [{"status": "SUCCESS"}], "perm": "id"}


def directed_faults(thorough, rng):
    """every assignment of {SUCCESS, FAILURE, TIMEOUT} to the instructions of packages of 1..3 orders of each kind, API errors on the
    first 0..4 attempts, cancel reports permuted / missing, an order of the package completed at the exchange (and streamed) between
    request and response"""
    import itertools
    cases = []
    ST = ["SUCCESS", "FAILURE", "TIMEOUT"]
    def place_n(n, asyn=False):
        return ["txn", [["place", 0, 101 if k % 2 == 0 else 202, "BACK", 200, 500, None, asyn] for k in range(n)]]
    for kind in ("place", "cancel", "update", "replace"):
        for n in (1, 2, 3):
            assigns = list(itertools.product(ST, repeat=n))
            for asg in assigns:
                variants = []
                errs = [0, 1, 3, 4] if thorough else [rng.choice([0, 0, 1, 2, 3, 4])]
                perms = (["id", "rev", "drop_first", "drop_all"] if thorough else [rng.choice(["id", "rev", "drop_first", "drop_all"])]) if kind == "cancel" else ["id"]
                mids = ([None] + list(range(n)) if thorough else [rng.choice([None] + list(range(n)))]) if kind != "place" else [None]
                for e in errs:
                    for pm in perms:
                        for mid in mids:
                            variants.append((e, pm, mid))
                for e, pm, mid in variants:
                    steps = [["book", "OPEN"]]
                    if kind == "place":
                        asyn = rng.random() < 0.35
                        steps.append(place_n(n, asyn=asyn))
                        descs = [{"status": s, "with_bet": rng.random() < 0.5, "matched_frac": rng.choice([0, 0, 1, 2]), "order_status": rng.choice(["EXECUTABLE", "EXECUTABLE", "EXPIRED"])} for s in asg]
                        if asyn and n > 1:
                            # async: the stream delivers the bets - and completes one of them - before the response is handled
                            descs = [dict(d, matched_frac=0) for d in descs]
                            steps.append(["call", 0, {"errors": e, "reports": descs, "perm": "id"}])
                            steps.append(["stream", "full"]); steps.append(["xfill", rng.randrange(n), 2]); steps.append(["stream", "full"])
                            steps.append(["respond", 0])
                        else:
                            steps.append(["deliver", 0, {"errors": e, "reports": descs, "perm": "id"}])
                    else:
                        steps.append(place_n(n)); steps.append(["deliver", 0, CLEAN])
                        arg = {"cancel": rng.choice([None, 100, 250]), "update": "PERSIST", "replace": 300}[kind]
                        steps.append(["txn", [["req", kind, k, arg, False] for k in range(n)]])
                        if mid is not None:
                            steps.append(["xfill", mid, 2]); steps.append(["stream", "full"])
                        if kind == "replace":
                            descs = [{"cancel": s, "place": rng.choice(ST), "with_bet": rng.random() < 0.5} for s in asg]
                        else:
                            descs = [{"status": s, "with_bet": rng.random() < 0.5} for s in asg]
                        steps.append(["deliver", 0, {"errors": e, "reports": descs, "perm": pm}])
                    steps.append(["stream", "full"])
                    steps.append(["drain", [CLEAN]]); steps.append(["stream", "full"]); steps.append(["stream", "full"])
                    cases.append({"strategies": 1, "steps": steps})
    return cases

"""C12 — exchange call faults never strand an order or lose a transaction count (live half; the simulated half is in the simulation model)."""
import random
from common import *
import livegen, livecheck, simgen, simcheck, propcheck

PID = "C12"


def c12_sim(sc, io):
    """simulated execution: no trade Pending at a strategy call (order statuses after each simulated response are compared with the simulation model)"""
    res = []
    for ob in io["obs"]:
        for o in ob["orders"]:
            if o["trade_status"] == "Pending":
                res.append(("C12-trade-pending", "trade of %s is Pending at a strategy call" % o["o"], {"pt": ob["pt"], "order": o["o"]}))
    return res


def main():
    ck = Check(PID)
    rng = random.Random(seed())
    thorough = tier() == "thorough"
    if not ck.build_props(["Model/LiveCases.vo", "Model/SimCases.vo"]):
        coq_build(["Model/LiveCases.vo", "Model/SimCases.vo"])
    mc = livegen.max_calls()
    chk = [lambda c, r: livecheck.c12(c, r, max_calls=mc)]
    cases1 = livegen.directed_faults(thorough, rng)
    impl1, _ = livegen.run_live_family(ck, "fault_enumeration", cases1, chk, PID, exhaustive=thorough,
                            extra_dist={"enumerated": "kind x 1..3 orders x every assignment of SUCCESS/FAILURE/TIMEOUT" + (" x errors on 0,1,3,4 attempts x cancel report order x order completed meanwhile" if thorough else " (one random fault variant each)")})
    n = 1500 if thorough else 300
    cases2 = [livegen.gen_script(rng, {"restart": True, "max_len": 30}) for _ in range(n)]
    impl2, _ = livegen.run_live_family(ck, "random_histories", cases2, chk, PID)
    # retry budget: the model of _execution_helper against the calls the exchange double received
    rows = []
    for cases, impl in ((cases1, impl1), (cases2, impl2)):
        for case, r in zip(cases, impl):
            for step, ob in zip(case["steps"], r):
                res = ob["res"]
                for x in (res["drained"] if isinstance(res, dict) and "drained" in res else [res]):
                    if isinstance(x, dict) and "kind" in x and x["calls"] and not x.get("unknown"):
                        errs = None
                        if step[0] in ("deliver", "call"):
                            errs = step[2].get("errors", 0)
                        if errs is not None:
                            rows.append((errs, x["calls"], x["responded"]))
    hdr = "From V Require Import Model.Num Model.Retry Gen.LiveC.\nOpen Scope Z_scope.\n"
    body = "Definition ok (c : Z * Z * bool) : bool := let '(e, n, a) := c in let r := run_helper MAX_RETRIES e in (fst r =? n) && Bool.eqb (snd r) a.\nDefinition cases : list (Z * Z * bool) := %s.\nEval vm_compute in bad_idx ok cases.\n"
    bad = []
    for k, o in enumerate(coq_eval("c12retry", hdr, [body % cl("(%s, %s, %s)" % (z(e), z(c), cb(a)) for e, c, a in ch) for ch in chunked(rows, 500)])):
        bad += [k * 500 + i for i in parse_nlist(parse_evals(o)[0])]
    from collections import Counter
    ck.family("retry_budget", len(rows), len(set(rows)), bad, [], dist={"errors_before_answer": dict(Counter(str(e) for e, _, _ in rows))},
              samples=[{"family": "retry_budget", "errors": rows[0][0], "calls": rows[0][1], "answered": rows[0][2]}] if rows else None)
    for i in bad[:1]:
        ck.fail("C12-retries", "a package met %d errors: the exchange double received %d calls, answered=%s; the model of _execution_helper with MAX_RETRIES from the source says otherwise" % rows[i], {"errors": rows[i][0], "calls": rows[i][1], "answered": rows[i][2]})
    # simulated execution: whole-loop scenarios with requests whose latency window contains fills / lapses / removals
    scs = [simgen.gen_scenario(rng, {"kinds": ["L"] * 9 + ["LOC", "MOC"], "p_manage": 0.7, "p_susp": 0.25, "p_remove": 0.08}) for _ in range(600 if thorough else 150)]
    simcheck.run_family(ck, "simulated_execution", scs, c12_sim, "C12", "sim")
    return ck.finish("live: fault enumeration (every assignment of SUCCESS/FAILURE/TIMEOUT to packages of 1-3 orders of each kind, BetfairError on the first 0-4 attempts, cancel reports reversed/missing, an order filled at the exchange and streamed between request and response) and random histories on the real BetfairExecution handlers with an exchange double; every step compared with the Coq live model; statuses/trade status/call counts/transaction counters/attribution checked after each response.  simulated: whole-loop scenarios compared with the simulation model; no order left in a transient status, no trade Pending")


def replay(path):
    print(open(path).read()); return 0

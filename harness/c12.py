"""C12 — exchange call faults never strand an order or lose a transaction count (live half; the simulated half is in the simulation model)."""
import random
from common import *
import livegen, livecheck, simgen, simcheck, propcheck

PID = "C12"


def c12_sim(sc, io):
    """simulated execution: no trade Pending at a strategy call (order statuses after each simulated response are compared with the simulation model)"""
    res = []
    for ob in io["obs"]:
        for o in ob["orders"]:
            if o["trade_status"] == "Pending":
                res.append(("C12-trade-pending", "trade of %s is Pending at a strategy call" % o["o"], {"pt": ob["pt"], "order": o["o"]}))
    # an order still Cancelling / Updating / Replacing at the end of the run although its market had an update later than the request time plus the
    # latency (plus the largest bet delay for a replace): the answer was due and left the order where it was
    cfg = sc["config"]
    lat = {"Cancelling": cfg.get("cancel_latency", 0.17), "Updating": cfg.get("update_latency", 0.15), "Replacing": cfg.get("replace_latency", 0.28)}
    for o in io["final"]:
        if o["status"] in lat and o.get("stat_t") is not None:
            m = next((m for m in sc["markets"] if m["id"] == o["market"]), None)
            if m is None:
                continue
            delay = max([u.get("delay", 0) for u in m["updates"]] or [0]) if o["status"] == "Replacing" else 0
            due = o["stat_t"] + lat[o["status"]] * 1000 + delay * 1000
            if any(u["pt"] > due for u in m["updates"]) and not io.get("error"):
                res.append(("C12-stranded-sim", "order %s is left %s at the end of the run: requested at %s, its market had an update after %s" % (o["o"], o["status"], o["stat_t"], due), {"order": o["o"], "log": o["log"], "update_resp": o.get("update_resp"), "cancel_resp": o.get("cancel_resp")}))
    return res


def multi_order_scenario(rng, kind, n, completed):
    """one package of n orders of one kind (transaction block); order index `completed` (or None) is fully matched inside the latency window"""
    P = simgen.TICKS_BP
    i = rng.randrange(8, 18)
    t0 = 1_700_000_000_000
    prices = [P[i + k] for k in range(n)]            # BACK orders resting above the best back price
    def runner(trd):
        return {"id": 1, "status": "ACTIVE", "adj": 1000, "atb": [[P[i - 2], 500]], "atl": [[P[i + n + 3], 500]], "trd": trd}
    other = {"id": 2, "status": "ACTIVE", "adj": 2000, "atb": [[30000, 500]], "atl": [[31000, 500]], "trd": []}
    size = 1000
    tv = [[prices[completed], 4 * size]] if completed is not None else []      # traded volume at that price: enough to fill it (both sides counted)
    ups = [{"pt": t0, "runners": [runner([]), other]}, {"pt": t0 + 200, "runners": [runner([]), other]}, {"pt": t0 + 1000, "runners": [runner([]), other]},
           {"pt": t0 + 1100, "runners": [runner(tv), other]}, {"pt": t0 + 1400, "runners": [runner(tv), other]}, {"pt": t0 + 3000, "runners": [runner(tv), other]},
           {"pt": t0 + 4000, "runners": [runner(tv), other]}]
    for u in ups:
        u.setdefault("status", "OPEN"); u.setdefault("version", 1)
    names = list(range(1, n + 1))
    acts = [{"s": 0, "m": 0, "u": 0, "acts": [["txn_begin"]] + [["place", nm, 1, "BACK", {"t": "L", "p": prices[k], "s": size, "pt": "LAPSE", "tif": None, "mf": None}, {"mv": None}] for k, nm in enumerate(names)] + [["txn_end"]]}]
    if kind == "cancel":
        reqs = [["cancel", nm, rng.choice([None, 300]), {}] for nm in names]
    elif kind == "update":
        reqs = [["update", nm, "PERSIST", {}] for nm in names]
    else:
        reqs = [["replace", nm, P[i + n + 1], {"mv": None}] for nm in names]
    acts.append({"s": 0, "m": 0, "u": 2, "acts": [["txn_begin"]] + reqs + [["txn_end"]]})
    return {"config": {"place_latency": 0.12, "cancel_latency": 0.17, "update_latency": 0.15, "replace_latency": 0.28, "isolation": True},
            "clients": [{"bpe": True, "full_match": False, "limit": None, "min_val": False}], "strategies": [{"name": "s0", "client": 0}],
            "markets": [{"id": "1.100000001", "event": "20000001", "group": False, "type": "WIN", "bsp": True, "persist": True, "winners": 1, "updates": ups}],
            "script": acts, "_kind": kind, "_n": n, "_completed": completed}


def multi_order_check(sc, io):
    res = []
    if io.get("error"):
        if sc["_kind"] == "replace" and sc["_completed"] is not None and sc["_completed"] < sc["_n"] - 1 and "TypeError" in str(io["error"]):
            res.append(("C12-sim-replace-zip-misaligned", "simulated replace package of %d orders, order %d fully matched inside the latency window: the instruction list skips the completed order, the handler zips it with the unfiltered order list, the next order's instruction is applied to the completed one (replacement of size 0) and the run aborts: %s" % (sc["_n"], sc["_completed"] + 1, str(io["error"])[:120]), {"error": io["error"]}))
        else:
            res.append(("C12-sim-run-aborted", "the run aborted: %s" % str(io["error"])[:200], {"error": io["error"]}))
        return res
    for o in io["final"]:
        if o["status"] in ("Cancelling", "Updating", "Replacing"):
            res.append(("C12-stranded-sim", "order %s is left %s after its %s package was executed" % (o["o"], o["status"], sc["_kind"]), {"order": o["o"], "log": o["log"]}))
        if o["trade_status"] == "Pending":
            res.append(("C12-trade-pending", "trade of %s left Pending" % o["o"], {"order": o["o"]}))
    return res


def overlap_cases(rng, n):
    """two packages holding orders of ONE trade, both answered, both handlers inside their `with order.trade:` block at the same time
    (real threads, held by the driver), released in either order"""
    ok = livegen.CLEAN
    cases = []
    for _ in range(n):
        kinds = rng.sample(["cancel", "update", "replace", "place"], 2)
        steps = [["book", "OPEN"], ["txn", [["place", 0, 101, "BACK", 200, 500, None, False], ["place", 0, 101, "BACK", 300, 400, 0, False]]], ["deliver", 0, ok]]
        reqs = []
        for k, kind in enumerate(kinds):
            if kind == "place":
                reqs.append(["place", 0, 101, "BACK", 400, 400, 0, False])
            else:
                reqs.append(["req", kind, k, {"cancel": None, "update": "PERSIST", "replace": 400}[kind], False])
        steps.append(["txn", reqs])
        outc = lambda: rng.choice([ok, livegen.gen_outcome(rng, opts={"p_unknown": 0.0})])
        steps += [["call", 0, dict(outc(), errors=0)], ["call", 0, dict(outc(), errors=0)], ["respond_hold", 0], ["respond_hold", 0]]
        steps += [["respond", rng.randrange(2)], ["respond", 0]]
        steps += [["drain", [ok]], ["stream", "full"], ["stream", "full"]]
        cases.append({"strategies": 1, "steps": steps})
    return cases


def overlap_check(case, run):
    bad = []
    last = run[-1]
    held = sum(1 for ob in run if isinstance(ob["res"], dict) and ob["res"].get("inside"))
    for o in last["orders"]:
        if o["trade_status"] == "Pending":
            bad.append(("C12-trade-pending", "trade of %s is left Pending after two overlapping handlers of the same trade (trade log %s)" % (o["o"], o["trade_log"])))
        if o["status"] in ("Cancelling", "Updating", "Replacing"):
            bad.append(("C12-stranded", "order %s left %s after overlapping handlers" % (o["o"], o["status"])))
        if all(x["complete"] for x in last["orders"] if x["trade"] == o["trade"]) and o["trade_status"] != "Complete":
            bad.append(("C12-trade-pending", "every order of the trade of %s is complete but the trade is %s after overlapping handlers" % (o["o"], o["trade_status"])))
    return bad, held


def main():
    ck = Check(PID)
    rng = random.Random(seed())
    thorough = tier() == "thorough"
    if not ck.build_props(["Model/LiveCases.vo", "Model/SimCases.vo"]):
        coq_build(["Model/LiveCases.vo", "Model/SimCases.vo"])
    mc = livegen.max_calls()
    chk = [lambda c, r: livecheck.c12(c, r, max_calls=mc)]
    cases1 = livegen.directed_faults(thorough, rng)
    impl1, _ = livegen.run_live_family(ck, "fault_enumeration", cases1, chk, PID, exhaustive=thorough,
                            extra_dist={"enumerated": "kind x 1..3 orders x every assignment of SUCCESS/FAILURE/TIMEOUT" + (" x errors on 0,1,3,4 attempts x cancel report order x order completed meanwhile" if thorough else " (one random fault variant each)")})
    n = 1500 if thorough else 300
    cases2 = [livegen.gen_script(rng, {"restart": True, "max_len": 30}) for _ in range(n)]
    impl2, _ = livegen.run_live_family(ck, "random_histories", cases2, chk, PID)
    # a burst (two requests outstanding at once, so two http sessions end up in the pool), a quiet spell shorter / longer than the pool's maximum
    # session age, then a request that meets 0-6 API errors: the retry budget does not depend on how long the sessions have been idle
    ok_ = livegen.CLEAN
    cases3 = []
    for quiet in (5, 70, 100, 150, 199, 250):
        for errs in ((0, 1, 3, 4, 6) if thorough else (rng.choice([0, 1]), 3, rng.choice([4, 6]))):
            kind, arg = rng.choice([("cancel", None), ("update", "PERSIST"), ("replace", 300)])
            cases3.append({"strategies": 1, "steps": [["book", "OPEN"], ["place", 0, 101, "BACK", 200, 500, None, False], ["place", 0, 202, "BACK", 200, 400, None, False],
                                                      ["call", 0, ok_], ["call", 0, ok_], ["respond", 0], ["respond", 0], ["stream", "full"], ["quiet", quiet],
                                                      ["req", kind, 0, arg, True], ["deliver", 0, dict(ok_, errors=errs)], ["quiet", quiet], ["place", 0, 303, "BACK", 200, 300, None, False],
                                                      ["deliver", 0, dict(ok_, errors=errs)], ["drain", [ok_]], ["stream", "full"], ["stream", "full"]]})
    impl3, _ = livegen.run_live_family(ck, "quiet_spell_then_api_errors", cases3, chk, PID)
    # retry budget: the model of _execution_helper against the calls the exchange double received
    rows = []
    for cases, impl in ((cases1, impl1), (cases2, impl2), (cases3, impl3)):
        for case, r in zip(cases, impl):
            for step, ob in zip(case["steps"], r):
                res = ob["res"]
                for x in (res["drained"] if isinstance(res, dict) and "drained" in res else [res]):
                    if isinstance(x, dict) and "kind" in x and x["calls"] and not x.get("unknown"):
                        errs = None
                        if step[0] in ("deliver", "call"):
                            errs = step[2].get("errors", 0)
                        if errs is not None:
                            rows.append((errs, x["calls"], x["responded"]))
    hdr = "From V Require Import Model.Num Model.Retry Gen.LiveC.\nOpen Scope Z_scope.\n"
    body = "Definition ok (c : Z * Z * bool) : bool := let '(e, n, a) := c in let r := run_helper MAX_RETRIES e in (fst r =? n) && Bool.eqb (snd r) a.\nDefinition cases : list (Z * Z * bool) := %s.\nEval vm_compute in bad_idx ok cases.\n"
    bad = []
    for k, o in enumerate(coq_eval("c12retry", hdr, [body % cl("(%s, %s, %s)" % (z(e), z(c), cb(a)) for e, c, a in ch) for ch in chunked(rows, 500)])):
        bad += [k * 500 + i for i in parse_nlist(parse_evals(o)[0])]
    from collections import Counter
    ck.family("retry_budget", len(rows), len(set(rows)), bad, [], dist={"errors_before_answer": dict(Counter(str(e) for e, _, _ in rows))},
              samples=[{"family": "retry_budget", "errors": rows[0][0], "calls": rows[0][1], "answered": rows[0][2]}] if rows else None)
    for i in bad[:1]:
        ck.fail("C12-retries", "a package met %d errors: the exchange double received %d calls, answered=%s; the model of _execution_helper with MAX_RETRIES from the source says otherwise" % rows[i], {"errors": rows[i][0], "calls": rows[i][1], "answered": rows[i][2]})
    # simulated execution: whole-loop scenarios with requests whose latency window contains fills / lapses / removals
    scs = [simgen.gen_scenario(rng, {"kinds": ["L"] * 9 + ["LOC", "MOC"], "p_manage": 0.7, "p_susp": 0.25, "p_remove": 0.08}) for _ in range(600 if thorough else 150)]
    simcheck.run_family(ck, "simulated_execution", scs, c12_sim, "C12", "sim")
    # overlapping handlers of one trade in real threads (implementation only: the model is atomic per handler)
    ocs = overlap_cases(rng, 120 if thorough else 40)
    oouts = run_impl_parallel("livelib", [{"job": "exec", "cases": ch} for ch in chunked(ocs, 8)], timeout=1800)
    oimpl = [r for o in oouts for r in o["out"]]
    opf, nheld = [], 0
    for i, (c, r) in enumerate(zip(ocs, oimpl)):
        b, h = overlap_check(c, r)
        nheld += h
        for key, desc in b:
            opf.append((i, key, desc))
    ck.family("overlapping_handlers_same_trade", len(ocs), len(ocs), [], sorted({i for i, *_ in opf}), dist={"handlers_held_inside_the_context_manager": nheld})
    seen = set()
    for i, key, desc in opf:
        if key not in seen:
            seen.add(key)
            ck.fail(key, desc, {"case": ocs[i], "how": "harness/impl/livelib.py job 'exec' (respond_hold keeps a handler thread inside `with order.trade:`)"})
    # simulated execution, packages of 1-3 orders with one of them completed inside the latency window (implementation only: the
    # simulation model has one order per package)
    mscs = [multi_order_scenario(rng, kind, n, c) for kind in ("cancel", "update", "replace") for n in (1, 2, 3) for c in [None] + list(range(n))]
    mouts = run_impl_parallel("simlib", [{"scenarios": [simgen.to_impl(x) for x in ch], "observe": "all"} for ch in chunked(mscs, 6)], timeout=1800)
    mimpl = [r for o in mouts for r in o["out"]]
    pf = []
    for i, (sc, io) in enumerate(zip(mscs, mimpl)):
        for key, desc, det in multi_order_check(sc, io):
            pf.append((i, key, desc, det))
    ck.family("simulated_multi_order_packages", len(mscs), len(mscs), [], sorted({i for i, *_ in pf}), exhaustive=True,
              dist={"kinds": "cancel/update/replace x 1-3 orders x none or one order filled inside the latency window", "runs_aborted": sum(1 for io in mimpl if io.get("error")),
                    "orders_filled_meanwhile": sum(1 for io in mimpl for o in io["final"] if o["status"] == "Execution complete" and o["matched"] > 0)})
    seen = set()
    for i, key, desc, det in pf:
        if key not in seen:
            seen.add(key)
            ck.fail(key, desc, {"scenario": {k: v for k, v in mscs[i].items() if not k.startswith("_")}, "detail": det, "how": "harness/impl/simlib.py run_scenario on the real FlumineSimulation"})
    return ck.finish("live: fault enumeration (every assignment of SUCCESS/FAILURE/TIMEOUT to packages of 1-3 orders of each kind, BetfairError on the first 0-4 attempts, cancel reports reversed/missing, an order filled at the exchange and streamed between request and response; API errors after the session pool has been idle for 5-250 s) and random histories on the real BetfairExecution handlers with an exchange double; every step compared with the Coq live model; statuses/trade status/call counts/transaction counters/attribution checked after each response.  simulated: whole-loop scenarios compared with the simulation model; no order left in a transient status, no trade Pending")


def replay(path):
    print(open(path).read()); return 0

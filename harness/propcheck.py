"""Property checkers evaluated on the IMPLEMENTATION's own observations (used by the search when a proof
obligation or the correspondence no longer checks, and run on every scenario anyway).  Each returns a list
of (finding_key, description, detail)."""
import simgen

C = lambda x: int(round(x * 100))
BP = lambda x: int(round(x * 10000))


def snapshots(sc, io, strat=0):
    """[(market idx, update idx, snapshot)] in processing order for the given strategy"""
    evs = simgen.event_order(sc)
    snaps = [o for o in io["obs"] if o["s"] == strat]
    return [(mi, u, s) for (mi, u), s in zip(evs, snaps)]


def book_at(sc, mi, pt):
    for u in sc["markets"][mi]["updates"]:
        if u["pt"] == pt:
            return u
    return None


def runner_of(book, sel):
    for r in book["runners"]:
        if r["id"] == sel:
            return r
    return None


def expected_fills(side, price, size, ladder):
    """independent re-statement: walk the opposing ladder best-first while the level is at the limit or better"""
    out, rem = [], size
    for p, s in ladder:
        if rem <= 0:
            break
        if (side == "BACK" and p >= price) or (side == "LAY" and p <= price):
            take = min(rem, s)
            out.append((p, take)); rem -= take
        else:
            break
    return out


def c05(sc, io):
    res = []
    cli = sc["clients"][0]
    prev = {}     # (mi, name) -> frags seen
    done_fok = set()
    for mi, u, snap in snapshots(sc, io):
        T = snap["pt"]
        book_T = sc["markets"][mi]["updates"][u]
        for o in snap["orders"]:
            key = (mi, o["o"])
            old = prev.get(key, [])
            fr = [(f[0], BP(f[1]), C(f[2])) for f in o["frags"]]
            prev[key] = fr
            if o["otype"] != "LIMIT" or o["price"] is None:
                continue
            limit, size, side = BP(o["price"]), C(o["size"]), o["side"]
            fok = o["tif"] == "FILL_OR_KILL" and not o["o"].startswith("r")
            mf = C(o["mf"]) if (o["mf"]) else size
            if len(fr) < len(old) or [f[2] for f in fr[:len(old)]] != [f[2] for f in old]:
                continue           # voided / rewritten by a non-runner: C09's subject
            new = fr[len(old):]
            arrival = [f for f in new if 0 < f[0] < T]
            for f in new:
                if f[0] == 0:
                    if f[1] != limit:
                        res.append(("C05-limit", "full-match fragment not at the order's price", {"order": o["o"], "frag": f}))
                elif f[0] == T:
                    sp_ok = (o["persist"] == "MARKET_ON_CLOSE" and book_T.get("bsp_rec"))
                    if f[1] != limit and not sp_ok:
                        res.append(("C05-limit", "passive fill of %s at %s is not at its limit %s" % (o["o"], f[1], limit), {"order": o["o"], "frag": f, "pt": T}))
            if arrival:
                B = book_at(sc, mi, arrival[0][0])
                r = runner_of(B, o["sel"]) if B else None
                if r is None:
                    res.append(("C05-book", "arrival fill stamped with a time that is no book of the market", {"order": o["o"], "frags": arrival}))
                    continue
                ladder = r["atb"] if side == "BACK" else r["atl"]
                if not fok:
                    for f in arrival:
                        if (side == "BACK" and f[1] < limit) or (side == "LAY" and f[1] > limit):
                            res.append(("C05-limit", "%s %s limit %s filled at worse price %s" % (side, o["o"], limit, f[1]), {"order": o["o"], "frag": f, "book_pt": B["pt"]}))
                    if not cli.get("full_match"):
                        exp = expected_fills(side, limit, size, ladder)
                        if [(f[1], f[2]) for f in arrival] != exp:
                            res.append(("C05-availability", "%s took %s from the book but the levels at/through its limit offer %s" % (o["o"], [(f[1], f[2]) for f in arrival], exp),
                                        {"order": o["o"], "book_pt": B["pt"], "ladder": ladder}))
                else:
                    tot = {}
                    for f in arrival:
                        tot[f[1]] = tot.get(f[1], 0) + f[2]
                    lv = dict((p, s) for p, s in ladder)
                    if not cli.get("full_match") and any(tot[p] > lv.get(p, 0) for p in tot):
                        res.append(("C05-availability", "fill-or-kill %s took more than a level offered" % o["o"], {"order": o["o"], "frags": arrival, "ladder": ladder}))
                if not cli.get("bpe", True) and ladder:
                    best = ladder[0][0]
                    if (side == "BACK" and best > limit) or (side == "LAY" and best < limit):
                        res.append(("C05-bpe", "best-price execution is off and %s was priced through the best price %s, yet it filled" % (o["o"], best), {"order": o["o"], "frags": arrival}))
            if fok and o["placed"] == T and key not in done_fok:
                done_fok.add(key)
                m, rem = C(o["matched"]), C(o["remaining"])
                if rem != 0:
                    res.append(("C05-fok", "fill-or-kill %s rests with %s remaining after its placement" % (o["o"], rem), {"order": o["o"], "snapshot_pt": T}))
                if m != 0 and m < mf and not cli.get("full_match"):
                    res.append(("C05-fok", "fill-or-kill %s kept a fill of %s below its minimum fill %s" % (o["o"], m, mf), {"order": o["o"], "snapshot_pt": T}))
                if m != 0 and not cli.get("full_match"):
                    avg = BP(o["avg"])
                    if (side == "BACK" and avg < limit) or (side == "LAY" and avg > limit):
                        res.append(("C05-fok", "fill-or-kill %s average %s breaches its limit %s" % (o["o"], avg, limit), {"order": o["o"]}))
    return res


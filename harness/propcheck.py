"""Property checkers evaluated on the IMPLEMENTATION's own observations (used by the search when a proof
obligation or the correspondence no longer checks, and run on every scenario anyway).  Each returns a list
of (finding_key, description, detail)."""
import simgen

C = lambda x: int(round(x * 100))
BP = lambda x: int(round(x * 10000))


def snapshots(sc, io, strat=0):
    """[(market idx, update idx, snapshot)] in processing order for the given strategy"""
    evs = simgen.event_order(sc)
    snaps = [o for o in io["obs"] if o["s"] == strat]
    return [(mi, u, s) for (mi, u), s in zip(evs, snaps)]


def book_at(sc, mi, pt):
    for u in sc["markets"][mi]["updates"]:
        if u["pt"] == pt:
            return u
    return None


def runner_of(book, sel):
    for r in book["runners"]:
        if r["id"] == sel:
            return r
    return None


def expected_fills(side, price, size, ladder):
    """independent re-statement: walk the opposing ladder best-first while the level is at the limit or better"""
    out, rem = [], size
    for p, s in ladder:
        if rem <= 0:
            break
        if (side == "BACK" and p >= price) or (side == "LAY" and p <= price):
            take = min(rem, s)
            out.append((p, take)); rem -= take
        else:
            break
    return out


def c05(sc, io):
    res = []
    cli = sc["clients"][0]
    prev = {}     # (mi, name) -> frags seen
    done_fok = set()
    for mi, u, snap in snapshots(sc, io):
        T = snap["pt"]
        book_T = sc["markets"][mi]["updates"][u]
        for o in snap["orders"]:
            key = (mi, o["o"])
            old = prev.get(key, [])
            fr = [(f[0], BP(f[1]), C(f[2])) for f in o["frags"]]
            prev[key] = fr
            if o["otype"] != "LIMIT" or o["price"] is None:
                continue
            limit, size, side = BP(o["price"]), C(o["size"]), o["side"]
            fok = o["tif"] == "FILL_OR_KILL" and not o["o"].startswith("r")
            mf = C(o["mf"]) if (o["mf"]) else size
            if len(fr) < len(old) or [f[2] for f in fr[:len(old)]] != [f[2] for f in old]:
                continue           # voided / rewritten by a non-runner: C09's subject
            new = fr[len(old):]
            arrival = [f for f in new if 0 < f[0] < T]
            for f in new:
                if f[0] == 0:
                    if f[1] != limit:
                        res.append(("C05-limit", "full-match fragment not at the order's price", {"order": o["o"], "frag": f}))
                elif f[0] == T:
                    sp_ok = (o["persist"] == "MARKET_ON_CLOSE" and book_T.get("bsp_rec"))
                    if f[1] != limit and not sp_ok:
                        res.append(("C05-limit", "passive fill of %s at %s is not at its limit %s" % (o["o"], f[1], limit), {"order": o["o"], "frag": f, "pt": T}))
            if arrival:
                B = book_at(sc, mi, arrival[0][0])
                r = runner_of(B, o["sel"]) if B else None
                if r is None:
                    res.append(("C05-book", "arrival fill stamped with a time that is no book of the market", {"order": o["o"], "frags": arrival}))
                    continue
                ladder = r["atb"] if side == "BACK" else r["atl"]
                if not fok:
                    for f in arrival:
                        if (side == "BACK" and f[1] < limit) or (side == "LAY" and f[1] > limit):
                            res.append(("C05-limit", "%s %s limit %s filled at worse price %s" % (side, o["o"], limit, f[1]), {"order": o["o"], "frag": f, "book_pt": B["pt"]}))
                    if not cli.get("full_match"):
                        exp = expected_fills(side, limit, size, ladder)
                        if [(f[1], f[2]) for f in arrival] != exp:
                            res.append(("C05-availability", "%s took %s from the book but the levels at/through its limit offer %s" % (o["o"], [(f[1], f[2]) for f in arrival], exp),
                                        {"order": o["o"], "book_pt": B["pt"], "ladder": ladder}))
                else:
                    tot = {}
                    for f in arrival:
                        tot[f[1]] = tot.get(f[1], 0) + f[2]
                    lv = dict((p, s) for p, s in ladder)
                    if not cli.get("full_match") and any(tot[p] > lv.get(p, 0) for p in tot):
                        res.append(("C05-availability", "fill-or-kill %s took more than a level offered" % o["o"], {"order": o["o"], "frags": arrival, "ladder": ladder}))
                if not cli.get("bpe", True) and ladder:
                    best = ladder[0][0]
                    if (side == "BACK" and best > limit) or (side == "LAY" and best < limit):
                        res.append(("C05-bpe", "best-price execution is off and %s was priced through the best price %s, yet it filled" % (o["o"], best), {"order": o["o"], "frags": arrival}))
            if fok and o["placed"] == T and key not in done_fok:
                done_fok.add(key)
                m, rem = C(o["matched"]), C(o["remaining"])
                if rem != 0:
                    res.append(("C05-fok", "fill-or-kill %s rests with %s remaining after its placement" % (o["o"], rem), {"order": o["o"], "snapshot_pt": T}))
                if m != 0 and m < mf and not cli.get("full_match"):
                    res.append(("C05-fok", "fill-or-kill %s kept a fill of %s below its minimum fill %s" % (o["o"], m, mf), {"order": o["o"], "snapshot_pt": T}))
                if m != 0 and not cli.get("full_match"):
                    avg = BP(o["avg"])
                    if (side == "BACK" and avg < limit) or (side == "LAY" and avg > limit):
                        res.append(("C05-fok", "fill-or-kill %s average %s breaches its limit %s" % (o["o"], avg, limit), {"order": o["o"]}))
    return res



def increments(sc, mi):
    """independent ledger built from the raw updates: per update index, per runner id -> {price bp: increment cents}.
    A runner reports increments only once it has been seen ACTIVE before; volume going down is not an increment."""
    m = sc["markets"][mi]
    seen = {}
    out = []
    for u in m["updates"]:
        inc = {}
        if u.get("status") != "CLOSED":
            for r in u["runners"]:
                if r.get("status", "ACTIVE") != "ACTIVE":
                    continue
                cur = {p: s for p, s in r.get("trd", [])}
                if r["id"] in seen:
                    d = {}
                    for p, s in cur.items():
                        if p in seen[r["id"]]:
                            if s - seen[r["id"]][p] > 0:
                                d[p] = s - seen[r["id"]][p]
                        else:
                            d[p] = s
                    inc[r["id"]] = d
                else:
                    inc[r["id"]] = {}
                seen[r["id"]] = cur
        else:
            seen = {}
        out.append(inc)
    return out


def c06(sc, io):
    res = []
    iso = sc["config"].get("isolation", True)
    nstr = len(sc["strategies"])
    prev = {}
    arrival = {}        # (mi, name) -> (update idx of execution, queue ahead cents)
    cum_elig = {}       # (mi, name) -> eligible increments since execution (cents, both sides)
    passive = {}        # (mi, name) -> passive fill total, count
    incs = {mi: increments(sc, mi) for mi in range(len(sc["markets"]))}
    owner = {}
    for e in sc["script"]:
        for a in e["acts"]:
            if a[0] == "place":
                owner["o%d" % a[1]] = e["s"]
    for mi, u, snap in snapshots(sc, io):
        T = snap["pt"]
        upd = sc["markets"][mi]["updates"][u]
        if upd.get("status") == "CLOSED":
            continue
        inc = incs[mi][u]
        new_by_group = {}
        elig_by_group = {}
        for o in snap["orders"]:
            key = (mi, o["o"])
            fr = [(f[0], BP(f[1]), C(f[2])) for f in o["frags"]]
            old = prev.get(key, [])
            prev[key] = fr
            if o["otype"] != "LIMIT" or o["price"] is None:
                continue
            limit, side, sel = BP(o["price"]), o["side"], o["sel"]
            if key not in arrival and o["placed"] is not None:
                # executed at the update whose pt == placed; queue = size shown at its price on the side it joins, in the previous book
                ui = next((k for k, x in enumerate(sc["markets"][mi]["updates"]) if x["pt"] == o["placed"]), None)
                q = 0
                if ui is not None and ui > 0:
                    r = runner_of(sc["markets"][mi]["updates"][ui - 1], sel)
                    lad = (r["atl"] if side == "BACK" else r["atb"]) if r else []
                    q = next((s for p, s in lad if p == limit), 0)
                arrival[key] = (ui, q)
                cum_elig[key] = 0
                passive[key] = [0, 0]
            if len(fr) < len(old):
                continue
            new = [f for f in fr[len(old):] if f[0] == T and f[1] == limit]
            el = {p: v for p, v in inc.get(sel, {}).items() if (side == "BACK" and p >= limit) or (side == "LAY" and p <= limit)}
            if key in arrival and arrival[key][0] is not None and u >= arrival[key][0]:
                cum_elig[key] += sum(el.values())
            if new:
                tot = sum(f[2] for f in new)
                passive[key][0] += tot; passive[key][1] += len(new)
                if o["status"] == "Pending" and o["placed"] is None:
                    res.append(("C06-arrival", "order %s was filled passively before it was acknowledged" % o["o"], {"order": o["o"], "pt": T}))
                grp = (owner.get(o["o"], o.get("strategy", 0)) if iso else -1, sel)
                new_by_group.setdefault(grp, []).append((o["o"], tot, len(new)))
                g = elig_by_group.setdefault(grp, {})
                for p, v in el.items():
                    g[p] = v
                # queue honoured + halving, cumulative, per order
                ui, q = arrival.get(key, (None, 0))
                bound2 = max(0, cum_elig.get(key, 0) - 2 * q) + 2 * passive[key][1]    # in half-cents-ish: 2*fill <= E - 2q + n
                if 2 * passive[key][0] > bound2:
                    res.append(("C06-queue", "%s has been filled %s passively, more than half the eligible traded volume %s minus the queue %s ahead of it at arrival"
                                % (o["o"], passive[key][0], cum_elig.get(key, 0), q), {"order": o["o"], "pt": T, "queue": q, "eligible_traded_both_sides": cum_elig.get(key, 0)}))
        for grp, fills in new_by_group.items():
            tot = sum(t for _, t, _ in fills); n = sum(k for _, _, k in fills)
            el = sum(elig_by_group[grp].values())
            if 2 * tot > el + n * len(elig_by_group[grp] or {1: 1}):
                res.append(("C06-double-count", "orders %s together were filled %s out of one update whose eligible traded volume is %s (both sides)" % ([f[0] for f in fills], tot, el),
                            {"pt": T, "market": mi, "group": list(grp), "fills": fills, "eligible": elig_by_group[grp]}))
    return res

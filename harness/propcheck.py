"""Property checkers evaluated on the IMPLEMENTATION's own observations (used by the search when a proof
obligation or the correspondence no longer checks, and run on every scenario anyway).  Each returns a list
of (finding_key, description, detail)."""
import simgen

C = lambda x: int(round(x * 100))
BP = lambda x: int(round(x * 10000))


def snapshots(sc, io, strat=0):
    """[(market idx, update idx, snapshot)] in processing order for the given strategy"""
    evs = simgen.event_order(sc)
    snaps = [o for o in io["obs"] if o["s"] == strat]
    return [(mi, u, s) for (mi, u), s in zip(evs, snaps)]


def book_at(sc, mi, pt):
    for u in sc["markets"][mi]["updates"]:
        if u["pt"] == pt:
            return u
    return None


def runner_of(book, sel):
    for r in book["runners"]:
        if r["id"] == sel:
            return r
    return None


def expected_fills(side, price, size, ladder):
    """independent re-statement: walk the opposing ladder best-first while the level is at the limit or better"""
    out, rem = [], size
    for p, s in ladder:
        if rem <= 0:
            break
        if (side == "BACK" and p >= price) or (side == "LAY" and p <= price):
            take = min(rem, s)
            out.append((p, take)); rem -= take
        else:
            break
    return out


def c05(sc, io):
    res = []
    cli = sc["clients"][0]
    prev = {}     # (mi, name) -> frags seen
    done_fok = set()
    for mi, u, snap in snapshots(sc, io):
        T = snap["pt"]
        book_T = sc["markets"][mi]["updates"][u]
        for o in snap["orders"]:
            key = (mi, o["o"])
            old = prev.get(key, [])
            fr = [(f[0], BP(f[1]), C(f[2])) for f in o["frags"]]
            prev[key] = fr
            if o["otype"] != "LIMIT" or o["price"] is None:
                continue
            limit, size, side = BP(o["price"]), C(o["size"]), o["side"]
            fok = o["tif"] == "FILL_OR_KILL" and not o["o"].startswith("r")
            mf = C(o["mf"]) if (o["mf"]) else size
            if len(fr) < len(old) or [f[2] for f in fr[:len(old)]] != [f[2] for f in old]:
                continue           # voided / rewritten by a non-runner: C09's subject
            new = fr[len(old):]
            arrival = [f for f in new if 0 < f[0] < T]
            for f in new:
                if f[0] == 0:
                    if f[1] != limit:
                        res.append(("C05-limit", "full-match fragment not at the order's price", {"order": o["o"], "frag": f}))
                elif f[0] == T:
                    sp_ok = (o["persist"] == "MARKET_ON_CLOSE" and book_T.get("bsp_rec"))
                    if f[1] != limit and not sp_ok:
                        res.append(("C05-limit", "passive fill of %s at %s is not at its limit %s" % (o["o"], f[1], limit), {"order": o["o"], "frag": f, "pt": T}))
            if not cli.get("bpe", True) and any(f[0] == 0 for f in new) and o.get("placed"):
                # matched in full by the client's simulated_full_match: only a SUCCESSFUL placement is - with best-price execution off an order
                # priced through the best price of the book it was executed against lapses (the book in force before the executing update)
                ups_ = sc["markets"][mi]["updates"]
                k_ = next((j for j, x in enumerate(ups_) if x["pt"] == o["placed"]), None)
                r_ = runner_of(ups_[k_ - 1], o["sel"]) if k_ else None
                lad_ = (r_["atb"] if side == "BACK" else r_["atl"]) if r_ else []
                if lad_ and ((side == "BACK" and lad_[0][0] > limit) or (side == "LAY" and lad_[0][0] < limit)):
                    res.append(("C05-bpe", "best-price execution is off and %s was priced through the best price %s, yet it was matched in full instead of lapsing" % (o["o"], lad_[0][0]),
                                {"order": o["o"], "frags": new, "book_pt": ups_[k_ - 1]["pt"]}))
            if arrival:
                B = book_at(sc, mi, arrival[0][0])
                r = runner_of(B, o["sel"]) if B else None
                if r is None:
                    res.append(("C05-book", "arrival fill stamped with a time that is no book of the market", {"order": o["o"], "frags": arrival}))
                    continue
                ladder = r["atb"] if side == "BACK" else r["atl"]
                if not fok:
                    for f in arrival:
                        if (side == "BACK" and f[1] < limit) or (side == "LAY" and f[1] > limit):
                            res.append(("C05-limit", "%s %s limit %s filled at worse price %s" % (side, o["o"], limit, f[1]), {"order": o["o"], "frag": f, "book_pt": B["pt"]}))
                    if not cli.get("full_match"):
                        exp = expected_fills(side, limit, size, ladder)
                        if [(f[1], f[2]) for f in arrival] != exp:
                            res.append(("C05-availability", "%s took %s from the book but the levels at/through its limit offer %s" % (o["o"], [(f[1], f[2]) for f in arrival], exp),
                                        {"order": o["o"], "book_pt": B["pt"], "ladder": ladder}))
                else:
                    tot = {}
                    for f in arrival:
                        tot[f[1]] = tot.get(f[1], 0) + f[2]
                    lv = dict((p, s) for p, s in ladder)
                    if not cli.get("full_match") and any(tot[p] > lv.get(p, 0) for p in tot):
                        res.append(("C05-availability", "fill-or-kill %s took more than a level offered" % o["o"], {"order": o["o"], "frags": arrival, "ladder": ladder}))
                if not cli.get("bpe", True) and ladder:
                    best = ladder[0][0]
                    if (side == "BACK" and best > limit) or (side == "LAY" and best < limit):
                        res.append(("C05-bpe", "best-price execution is off and %s was priced through the best price %s, yet it filled" % (o["o"], best), {"order": o["o"], "frags": arrival}))
            if fok and o["placed"] == T and key not in done_fok:
                done_fok.add(key)
                m, rem = C(o["matched"]), C(o["remaining"])
                if rem != 0:
                    res.append(("C05-fok", "fill-or-kill %s rests with %s remaining after its placement" % (o["o"], rem), {"order": o["o"], "snapshot_pt": T}))
                if m != 0 and m < mf and not cli.get("full_match"):
                    res.append(("C05-fok", "fill-or-kill %s kept a fill of %s below its minimum fill %s" % (o["o"], m, mf), {"order": o["o"], "snapshot_pt": T}))
                if m != 0 and not cli.get("full_match"):
                    avg = BP(o["avg"])
                    if (side == "BACK" and avg < limit) or (side == "LAY" and avg > limit):
                        res.append(("C05-fok", "fill-or-kill %s average %s breaches its limit %s" % (o["o"], avg, limit), {"order": o["o"]}))
    return res



def c05_available(sc, io):
    """config.simulation_available_prices = True (outside the Coq model): a resting order is also filled from the levels of its runner's CURRENT
    book that are at its limit or better.  What it gains at an update is bounded by what that update offers: the traded increments of the runner
    plus the sizes of those levels - a fill from a level that is not in the book at the time of the fill breaks the bound"""
    res = []
    prev = {}
    incs = {mi: increments(sc, mi) for mi in range(len(sc["markets"]))}
    for mi, u, snap in snapshots(sc, io):
        T = snap["pt"]
        book_T = sc["markets"][mi]["updates"][u]
        for o in snap["orders"]:
            key = (mi, o["o"])
            old = prev.get(key, [])
            fr = [(f[0], BP(f[1]), C(f[2])) for f in o["frags"]]
            prev[key] = fr
            if o["otype"] != "LIMIT" or o["price"] is None or o["persist"] == "MARKET_ON_CLOSE" or book_T.get("bsp_rec"):
                continue
            if len(fr) < len(old) or [f[2] for f in fr[:len(old)]] != [f[2] for f in old]:
                continue
            limit, side = BP(o["price"]), o["side"]
            passive = [f for f in fr[len(old):] if f[0] == T]
            if not passive:
                continue
            r = runner_of(book_T, o["sel"])
            lad = (r["atb"] if side == "BACK" else r["atl"]) if r and r.get("status", "ACTIVE") == "ACTIVE" else []
            offered = sum(sz for p_, sz in lad if (p_ >= limit if side == "BACK" else p_ <= limit))
            traded = sum(incs[mi][u].get(o["sel"], {}).values())
            got = sum(f[2] for f in passive)
            if any(f[1] != limit for f in passive):
                res.append(("C05-limit", "passive fill of %s not at its limit %s" % (o["o"], limit), {"order": o["o"], "frags": passive, "pt": T}))
            if got > offered + traded:
                res.append(("C05-availability", "%s gained %s at the update published at %s, whose book offers %s at its limit %s or better and reports %s traded: filled from levels that are not there at the time of the fill"
                            % (o["o"], got, T, offered, limit, traded), {"order": o["o"], "frags": passive, "pt": T, "ladder": lad}))
    return res


def increments(sc, mi):
    """independent ledger built from the raw updates: per update index, per runner id -> {price bp: increment cents}.
    A runner reports increments only once it has been seen ACTIVE before; volume going down is not an increment."""
    m = sc["markets"][mi]
    seen = {}
    out = []
    for u in m["updates"]:
        inc = {}
        if u.get("status") != "CLOSED":
            for r in u["runners"]:
                if r.get("status", "ACTIVE") != "ACTIVE":
                    continue
                cur = {p: s for p, s in r.get("trd", [])}
                if r["id"] in seen:
                    d = {}
                    for p, s in cur.items():
                        if p in seen[r["id"]]:
                            if s - seen[r["id"]][p] > 0:
                                d[p] = s - seen[r["id"]][p]
                        else:
                            d[p] = s
                    inc[r["id"]] = d
                else:
                    inc[r["id"]] = {}
                seen[r["id"]] = cur
        else:
            seen = {}
        out.append(inc)
    return out


def c06(sc, io):
    res = []
    iso = sc["config"].get("isolation", True)
    nstr = len(sc["strategies"])
    prev = {}
    arrival = {}        # (mi, name) -> (update idx of execution, queue ahead cents)
    cum_elig = {}       # (mi, name) -> eligible increments since execution (cents, both sides)
    passive = {}        # (mi, name) -> passive fill total, count
    incs = {mi: increments(sc, mi) for mi in range(len(sc["markets"]))}
    owner = {}
    for e in sc["script"]:
        for a in e["acts"]:
            if a[0] == "place":
                owner["o%d" % a[1]] = e["s"]
    for mi, u, snap in snapshots(sc, io):
        T = snap["pt"]
        upd = sc["markets"][mi]["updates"][u]
        if upd.get("status") == "CLOSED":
            continue
        inc = incs[mi][u]
        new_by_group = {}
        elig_by_group = {}
        for o in snap["orders"]:
            key = (mi, o["o"])
            fr = [(f[0], BP(f[1]), C(f[2])) for f in o["frags"]]
            old = prev.get(key, [])
            prev[key] = fr
            if o["otype"] != "LIMIT" or o["price"] is None:
                continue
            limit, side, sel = BP(o["price"]), o["side"], o["sel"]
            if key not in arrival and o["placed"] is not None:
                # executed at the update whose pt == placed; queue = size shown at its price on the side it joins, in the previous book
                ui = next((k for k, x in enumerate(sc["markets"][mi]["updates"]) if x["pt"] == o["placed"]), None)
                q = 0
                if ui is not None and ui > 0:
                    r = runner_of(sc["markets"][mi]["updates"][ui - 1], sel)
                    lad = (r["atl"] if side == "BACK" else r["atb"]) if r else []
                    q = next((s for p, s in lad if p == limit), 0)
                arrival[key] = (ui, q)
                cum_elig[key] = 0
                passive[key] = [0, 0]
            if len(fr) < len(old):
                continue
            new = [f for f in fr[len(old):] if f[0] == T and f[1] == limit]
            if o["persist"] == "MARKET_ON_CLOSE" and upd.get("bsp_rec"):
                new = []          # conversion at the starting price (which may coincide with the limit): not passive matching
            el = {p: v for p, v in inc.get(sel, {}).items() if (side == "BACK" and p >= limit) or (side == "LAY" and p <= limit)}
            if key in arrival and arrival[key][0] is not None and u >= arrival[key][0]:
                cum_elig[key] += sum(el.values())
            if new:
                tot = sum(f[2] for f in new)
                passive[key][0] += tot; passive[key][1] += len(new)
                if o["status"] == "Pending" and o["placed"] is None:
                    res.append(("C06-arrival", "order %s was filled passively before it was acknowledged" % o["o"], {"order": o["o"], "pt": T}))
                grp = (o.get("strategy", owner.get(o["o"], 0)) if iso else -1, sel)
                new_by_group.setdefault(grp, []).append((o["o"], tot, len(new)))
                g = elig_by_group.setdefault(grp, {})
                for p, v in el.items():
                    g[p] = v
                # queue honoured + halving, cumulative, per order
                ui, q = arrival.get(key, (None, 0))
                bound2 = max(0, cum_elig.get(key, 0) - 2 * q) + 2 * passive[key][1]    # in half-cents-ish: 2*fill <= E - 2q + n
                if 2 * passive[key][0] > bound2:
                    res.append(("C06-queue", "%s has been filled %s passively, more than half the eligible traded volume %s minus the queue %s ahead of it at arrival"
                                % (o["o"], passive[key][0], cum_elig.get(key, 0), q), {"order": o["o"], "pt": T, "queue": q, "eligible_traded_both_sides": cum_elig.get(key, 0)}))
        for grp, fills in new_by_group.items():
            tot = sum(t for _, t, _ in fills); n = sum(k for _, _, k in fills)
            el = sum(elig_by_group[grp].values())
            if 2 * tot > el + n * len(elig_by_group[grp] or {1: 1}):
                res.append(("C06-double-count", "orders %s together were filled %s out of one update whose eligible traded volume is %s (both sides)" % ([f[0] for f in fills], tot, el),
                            {"pt": T, "market": mi, "group": list(grp), "fills": fills, "eligible": elig_by_group[grp]}))
    return res


def c04(sc, io):
    res = []
    prev = {}
    for mi, u, snap in snapshots(sc, io):
        upd = sc["markets"][mi]["updates"][u]
        for o in snap["orders"]:
            if o["otype"] != "LIMIT":
                continue
            key = (mi, o["o"])
            size, m, rem, c, l, v = (C(o[k]) for k in ("size", "matched", "remaining", "cancelled", "lapsed", "voided"))
            sp_conv = o["persist"] == "MARKET_ON_CLOSE" and o["side"] == "LAY" and any(abs(f[1] - o["price"]) > 1e-9 for f in o["frags"])
            det = {"order": o["o"], "pt": snap["pt"], "size": size, "matched": m, "remaining": rem, "cancelled": c, "lapsed": l, "voided": v, "status": o["status"], "log": o["log"]}
            if size != m + rem + c + l + v:
                res.append(("C04-identity", "size != matched+remaining+cancelled+lapsed+voided for %s" % o["o"], det))
            if v == size and size > 0 and (c != 0 or l != 0 or m != 0):
                # everything that follows on such an order (negative fills, negative lapse) is the same defect
                if rem != 0 or m < 0 or l < 0:
                    res.append(("C04-void-after-cancel-or-lapse", "runner removal voids the full size of an order that already had a cancelled/lapsed part: remaining %s, matched %s, lapsed %s" % (rem, m, l), det))
                prev[key] = (m, v)
                continue
            if rem < 0 or m < 0:
                if v > 0 and (c > 0 or l > 0):
                    res.append(("C04-void-after-cancel-or-lapse", "runner removal voids the full size of an order that already had a cancelled/lapsed part: remaining %s < 0" % rem, det))
                else:
                    res.append(("C04-negative", "%s has negative matched/remaining (%s/%s)" % (o["o"], m, rem), det))
            elif not sp_conv and (c < 0 or l < 0 or v < 0):
                res.append(("C04-negative", "%s has a negative bucket" % o["o"], det))
            awaiting_sp = o["persist"] == "MARKET_ON_CLOSE"
            if not awaiting_sp and rem >= 0:
                if o["complete"] != (rem == 0):
                    log = o["log"]
                    reopened = any(a == "Execution complete" and b in ("Executable", "Pending") for a, b in zip(log, log[1:]))
                    if o["status"] == "Violation" and len(log) > 1:
                        res.append(("C04-live-order-marked-violation", "a control refusing a cancel/update/replace marked the live order VIOLATION: complete with %s remaining" % rem, det))
                    elif reopened:
                        res.append(("C04-reopened-after-complete", "a FAILURE response re-opened an order that had completed: not complete although nothing remains", det))
                    elif o["status"] in ("Cancelling", "Updating", "Replacing", "Pending") and rem != 0:
                        pass
                    elif snap.get("cb") == "closed" and rem == 0 and not o["complete"]:
                        res.append(("C04-unswept-at-close", "an order whose request was executed at the closing update is handed to process_closed_market not complete although nothing remains (no completion sweep on the close path)", det))
                    else:
                        res.append(("C04-complete-iff-remaining", "%s complete=%s but remaining=%s (status %s)" % (o["o"], o["complete"], rem, o["status"]), det))
            pm = prev.get(key)
            if pm is not None and m < pm[0] and v <= pm[1]:
                res.append(("C04-matched-decreased", "matched size of %s went from %s to %s without a void" % (o["o"], pm[0], m), det))
            prev[key] = (m, v)
    return res


def c09(sc, io):
    """at the update that first shows a runner REMOVED in a market: orders on it void in full; fills on the other
    runners reduced by max(round(p(1-f/100),2),1.01) iff f>=2.5; exactly once per (market, runner)."""
    from fractions import Fraction
    res = []
    prev = {}
    removed_seen = {}      # (mi, sel) -> update idx first seen removed
    for mi, u, snap in snapshots(sc, io):
        upd = sc["markets"][mi]["updates"][u]
        if upd.get("status") == "CLOSED":
            continue
        newly = []
        for r in upd["runners"]:
            if r.get("status") == "REMOVED" and (mi, r["id"]) not in removed_seen:
                removed_seen[(mi, r["id"])] = u
                newly.append(r)
        # a missing adjustment factor with a MOC LAY order in a WIN/PLACE market makes the middleware raise: separate finding
        adj0 = {r["id"]: r.get("adj") for r in sc["markets"][mi]["updates"][0]["runners"]}
        mtype = sc["markets"][mi].get("type", "WIN")
        def raises(newly):
            for x in snap["orders"]:
                if x["otype"] == "MARKET_ON_CLOSE" and x["side"] == "LAY" and mtype in ("WIN", "PLACE", "OTHER_PLACE"):
                    for rr in newly:
                        if rr["id"] != x["sel"] and (rr.get("adj") is None or (mtype == "WIN" and adj0.get(x["sel"]) is None)):
                            return True
            return False
        for o in snap["orders"]:
            key = (mi, o["o"])
            before = prev.get(key)
            fr = [(f[0], BP(f[1]), C(f[2])) for f in o["frags"]]
            det = {"order": o["o"], "pt": snap["pt"], "market": mi, "sel": o["sel"], "status": o["status"], "matched": o["matched"], "voided": o["voided"],
                   "remaining": o["remaining"], "cancelled": o["cancelled"], "lapsed": o["lapsed"], "frags": o["frags"]}
            for r in newly:
                adj = r.get("adj")
                if o["sel"] == r["id"]:
                    if o["otype"] == "LIMIT":
                        if C(o["voided"]) == C(o["size"]) and (C(o["cancelled"]) > 0 or C(o["lapsed"]) > 0):
                            res.append(("C09-void-after-cancel-or-lapse", "voided order %s has remaining %s != 0 (cancelled %s, lapsed %s before the removal)" % (o["o"], o["remaining"], o["cancelled"], o["lapsed"]), det))
                        elif C(o["matched"]) != 0 or fr or C(o["voided"]) != C(o["size"]):
                            earlier = [(m2, s2) for (m2, s2), uu in removed_seen.items() if s2 == r["id"] and m2 != mi]
                            kind = "C09-once-across-markets" if earlier else ("C09-removal-raised" if raises(newly) else "C09-void")
                            res.append((kind, "order %s on removed runner %s of market %s is not voided (matched %s, voided %s)%s" % (
                                o["o"], r["id"], mi, o["matched"], o["voided"], " - the same runner and factor were already removed in another market of the run" if earlier else ""), det))
                        elif C(o["remaining"]) != 0:
                            res.append(("C09-void-after-cancel-or-lapse", "voided order %s has remaining %s != 0 (cancelled %s, lapsed %s before the removal)" % (o["o"], o["remaining"], o["cancelled"], o["lapsed"]), det))
                elif before is not None and o["otype"] == "LIMIT" and before["frags"]:
                    # expected reduction of the fragments that existed before this update
                    exp = []
                    for f in before["frags"]:
                        p = f[1]
                        for rr in newly:
                            a = rr.get("adj")
                            if a is not None and a != 0 and a >= 250 and rr["id"] != o["sel"]:
                                q = Fraction(p * (10000 - a), 1000000)        # cents, exact
                                lo = q.numerator // q.denominator
                                cands = {lo, lo + 1} if q != lo else {lo}
                                cands = {min(cands, key=lambda c: abs(Fraction(c) - q))} if len(cands) == 2 and abs(Fraction(lo) - q) != abs(Fraction(lo + 1) - q) else cands
                                p = [max(c * 100, 10100) for c in cands]
                                p = p[0] if len(p) == 1 else None
                        exp.append(p)
                    got = [f[1] for f in fr[:len(before["frags"])]]
                    if len(got) == len(exp) and any(e is not None and g != e for g, e in zip(got, exp)):
                        earlier = [(m2, s2) for (m2, s2), uu in removed_seen.items() if any(s2 == rr["id"] for rr in newly) and m2 != mi]
                        raised = raises(newly)
                        kind = "C09-once-across-markets" if earlier else ("C09-removal-raised" if raised else "C09-reduction")
                        res.append((kind, "fills of %s after the removal are %s, the reduction formula gives %s" % (o["o"], got, exp), det))
            # market-on-close LAY liability on a surviving runner: scaled by every non-zero factor (no 2.5% threshold), once
            if (before is not None and o["otype"] == "MARKET_ON_CLOSE" and o["side"] == "LAY" and before.get("liab") is not None
                    and o.get("liab") is not None and not any(r["id"] == o["sel"] for r in newly)):
                expl = Fraction(before["liab"]).limit_denominator(10**9)
                if mtype in ("WIN", "PLACE", "OTHER_PLACE") and not raises(newly):
                    for rr in newly:
                        a = rr.get("adj")
                        if a:
                            own = next((rr2.get("adj") for rr2 in upd["runners"] if rr2["id"] == o["sel"]), None) or 0    # the runner's factor in THIS book
                            expl *= (1 - Fraction(a, 10000 - own)) if mtype == "WIN" else Fraction(10000 - a, 10000)
                if not raises(newly) and abs(Fraction(o["liab"]).limit_denominator(10**9) - expl) > Fraction(1, 10**6):
                    earlier = [(m2, s2) for (m2, s2), uu in removed_seen.items() if any(s2 == rr["id"] for rr in newly) and m2 != mi]
                    kind = "C09-applied-again" if not newly else ("C09-once-across-markets" if earlier else "C09-moc-liability")
                    res.append((kind, "market-on-close LAY liability of %s is %s after this update, expected %s (factors %s, own factor %s, %s market)" % (
                        o["o"], o["liab"], float(expl), [rr.get("adj") for rr in newly], adj0.get(o["sel"]), mtype), det))
            # the reported average is the volume-weighted price of the fragments as they are now (also after a re-pricing and a later fill)
            if o["otype"] == "LIMIT" and fr and C(o["matched"]) > 0:
                num = sum(Fraction(p_, 10000) * s_ for _, p_, s_ in fr); den = sum(s_ for _, _, s_ in fr)
                if den > 0 and abs(Fraction(str(o["avg"])) - num / den) > Fraction(51, 10000):
                    res.append(("C09-average-not-the-fragments", "average matched price of %s is %s, its fragments %s give %.4f" % (o["o"], o["avg"], o["frags"], float(num / den)), det))
            # later updates: prices of old fragments must not change again (applied once)
            if not newly and before is not None and before["frags"] and len(fr) >= len(before["frags"]):
                if [f[1] for f in fr[:len(before["frags"])]] != [f[1] for f in before["frags"]]:
                    res.append(("C09-applied-again", "fragment prices of %s changed in an update without a new removal" % o["o"], det))
            prev[key] = {"frags": fr, "liab": o.get("liab")}
    return res


def c07(sc, io):
    res = []
    cfg = sc["config"]
    lat = {"Place": int(round(cfg["place_latency"] * 1000)), "Cancel": int(round(cfg["cancel_latency"] * 1000)),
           "Update": int(round(cfg["update_latency"] * 1000)), "Replace": int(round(cfg["replace_latency"] * 1000))}
    mindex = {m["id"]: i for i, m in enumerate(sc["markets"])}
    # clock seen by every callback = publish time of the update being processed
    for s, cb, mid, pt, now in io["calls"]:
        if pt != now:
            res.append(("C07-clock", "callback %s of strategy %s saw utcnow()=%s while processing the update published at %s" % (cb, s, now, pt), {"market": mid}))
            break
    snaps = snapshots(sc, io)
    # per market: list of (update idx, pt, snapshot) in processing order
    per_market = {}
    for mi, u, snap in snaps:
        per_market.setdefault(mi, []).append((u, snap["pt"], snap))
    for p in io["packages"]:
        mi = mindex[p["market"]]
        delay = lat[p["kind"]] + (1000 * p["bet_delay"] if p["kind"] in ("Place", "Replace") else 0)
        seq = per_market.get(mi, [])
        exec_at = next(((u, pt) for u, pt, _ in seq if pt - p["created"] > delay), None)
        for name in p["orders"]:
            hist = [(u, pt, next((o for o in snap["orders"] if o["o"] == name), None)) for u, pt, snap in seq]
            hist = [(u, pt, o) for u, pt, o in hist if o is not None and pt > p["created"]]
            det = {"package": p, "expected_execution": exec_at, "delay_ms": delay}
            if p["kind"] == "Place":
                for u, pt, o in hist:
                    due = exec_at is not None and pt >= exec_at[1]
                    if not due:
                        if o["status"] != "Pending" and o["status"] != "Violation":
                            res.append(("C07-early", "%s was acknowledged (%s) at %s, before request time %s + %s ms" % (name, o["status"], pt, p["created"], delay), det)); break
                        if o["frags"]:
                            res.append(("C07-early", "%s has fills at %s while still inside its latency/bet-delay window" % (name, pt), det)); break
                    elif pt == exec_at[1]:
                        if o["status"] == "Violation":
                            pass      # marked VIOLATION by a refused request while pending (C02's finding): never sent
                        elif o["status"] == "Pending":
                            res.append(("C07-late", "%s is still pending at %s, the first update more than %s ms after the request at %s" % (name, pt, delay, p["created"]), det))
                        elif o["placed"] != pt:
                            res.append(("C07-timestamp", "%s date_time_placed=%s but it took effect at the update published at %s" % (name, o["placed"], pt), det))
                        break
            else:
                transient = {"Cancel": "Cancelling", "Update": "Updating", "Replace": "Replacing"}[p["kind"]]
                for u, pt, o in hist:
                    due = exec_at is not None and pt >= exec_at[1]
                    if not due:
                        if o["status"] not in (transient, "Violation") and not o["complete"]:
                            res.append(("C07-early", "%s left %s (now %s) at %s, before request time %s + %s ms" % (name, transient, o["status"], pt, p["created"], delay), det)); break
                    elif pt == exec_at[1]:
                        if o["status"] == transient:
                            res.append(("C07-late", "%s is still %s at %s, the first update more than %s ms after the request" % (name, transient, pt, delay), det))
                        break
    # timestamps of fragments: never before the time at which they could have happened
    prev_pt = {}
    for mi, u, snap in snaps:
        ups = sc["markets"][mi]["updates"]
        for o in snap["orders"]:
            if o["placed"] is None:
                continue
            for f in o["frags"]:
                if f[0] == 0:
                    continue
                if f[0] < o["placed"]:
                    # matched on arrival: must be the book immediately before the executing update
                    k = next((i for i, x in enumerate(ups) if x["pt"] == o["placed"]), None)
                    if k is None or k == 0 or ups[k - 1]["pt"] != f[0]:
                        res.append(("C07-state-used", "%s was matched on arrival against a book published at %s, not the one in force immediately before the executing update %s" % (o["o"], f[0], o["placed"]), {"order": o["o"]}))
                    else:
                        res.append(("C07-fragment-stamped-with-previous-book", "the arrival fragment of %s is stamped %s, earlier than the time it took effect (%s)" % (o["o"], f[0], o["placed"]), {"order": o["o"], "frag": f, "created": o["created"], "placed": o["placed"]}))
                    break
    return res


# ---------------------------------------------------------------------------------------------------------
LEGAL = {
    (None, "Pending"), (None, "Violation"),
    ("Pending", "Executable"), ("Pending", "Execution complete"), ("Pending", "Expired"), ("Pending", "Violation"),
    ("Executable", "Cancelling"), ("Executable", "Updating"), ("Executable", "Replacing"), ("Executable", "Execution complete"),
    ("Cancelling", "Executable"), ("Cancelling", "Execution complete"),
    ("Updating", "Executable"), ("Updating", "Execution complete"),
    ("Replacing", "Executable"), ("Replacing", "Execution complete"),
}
STUTTER = {("Executable", "Executable"), ("Execution complete", "Execution complete")}


def reopen_key(prefix, o):
    """which response re-opened the order: the known mechanism is a FAILURE answer (request executed while the market is not OPEN)
    to a cancel / replace, or the answer to an update (which re-opens whatever its outcome); anything else is a different defect"""
    log = o["log"]
    for i in range(1, len(log) - 1):
        if log[i] in ("Execution complete",) and log[i + 1] == "Executable":
            kind = next((x for x in reversed(log[:i]) if x in ("Cancelling", "Updating", "Replacing")), None)
            if kind == "Updating":
                continue
            cr = o.get("cancel_resp") or []
            if kind in ("Cancelling", "Replacing") and cr and all(x == "FAILURE" for x in cr[-1:]):
                # the response that followed this completion: count the requests up to here
                nreq = sum(1 for x in log[:i] if x in ("Cancelling", "Replacing"))
                if len(cr) >= nreq and cr[nreq - 1] == "FAILURE":
                    continue
            if kind == "Replacing" and cr:
                nreq = sum(1 for x in log[:i] if x in ("Cancelling", "Replacing"))
                if len(cr) >= nreq and cr[nreq - 1] == "SUCCESS" and log[i - 1] == "Replacing":
                    return prefix + "-replace-place-failure-reopens"
            return prefix + "-reopened-by-other-response"
    return prefix + "-reopened-after-complete"


def c03(sc, io):
    res = []
    for o in io["final"]:
        seq = [None] + o["log"]
        for a, b in zip(seq, seq[1:]):
            if (a, b) in LEGAL or (a, b) in STUTTER:
                continue
            det = {"order": o["o"], "log": o["log"], "transition": [a, b]}
            if b == "Violation":
                res.append(("C03-live-order-marked-violation", "order %s went %s -> Violation: a control refusing a cancel/update/replace marks the order resting at the exchange" % (o["o"], a), det))
            elif a in ("Execution complete", "Expired", "Violation"):
                res.append((reopen_key("C03", o), "order %s went %s -> %s: a response to an in-flight request re-opened an order that had completed meanwhile (log %s, cancel responses %s, update responses %s)" % (o["o"], a, b, o["log"], o.get("cancel_resp"), o.get("update_resp")), det))
            else:
                res.append(("C03-illegal-transition", "order %s went %s -> %s" % (o["o"], a, b), det))
    # finality, sampled at every strategy call
    done = {}
    removal_seen = set()
    for ob in io["obs"]:
        mi = next((i for i, m in enumerate(sc["markets"]) if m["id"] == ob["m"]), None)
        u = book_at(sc, mi, ob["pt"]) if mi is not None else None
        if u is not None and any(r.get("status") == "REMOVED" for r in u["runners"]):
            removal_seen.add(ob["m"])      # a non-runner: the exchange re-prices / voids matched bets (C09), not a lifecycle event
        for o in ob["orders"]:
            key = (ob["m"], o["o"])
            if ob["m"] in removal_seen:
                done.pop(key, None)
                continue
            if key in done:
                m0, v0 = done[key]
                if o["complete"] and C(o["matched"]) != m0 and C(o["voided"]) == v0:
                    res.append(("C03-matched-changed-after-complete", "matched size of completed order %s changed %s -> %s" % (o["o"], m0, C(o["matched"])), {"order": o["o"], "pt": ob["pt"]}))
                done[key] = (C(o["matched"]), C(o["voided"]))
            elif o["complete"] and o["status"] != "Violation" and o["persist"] != "MARKET_ON_CLOSE":
                done[key] = (C(o["matched"]), C(o["voided"]))
    # at most one operation outstanding: an order is handed to the execution layer at most once per strategy call (after a request its status
    # is transient and every further request is refused), so it appears in at most one package created at that instant
    seen_pk = {}
    for p in io["packages"]:
        for name in p["orders"]:
            k = (name, p["created"])
            if k in seen_pk:
                res.append(("C03-two-operations-outstanding", "order %s was handed to the execution layer twice at %s: a %s package and a %s package" % (name, p["created"], seen_pk[k], p["kind"]),
                            {"order": name, "created": p["created"], "kinds": [seen_pk[k], p["kind"]]}))
            else:
                seen_pk[k] = p["kind"]
    # requests: accepted only on an order resting executable; otherwise an error and no side effects
    for r in io["requests"]:
        if r[3] not in ("cancel", "update", "replace") or len(r) < 7 or "before" not in r[6]:
            continue
        b, a, out = r[6]["before"], r[6].get("after"), r[5]
        ok_state = b[0] == "Executable" and b[1] is not None and (b[5] == "LIMIT" or (r[3] == "replace" and b[5] == "LIMIT_ON_CLOSE"))
        det = {"request": r[:6], "before": b, "after": a}
        if out is True and not ok_state:
            res.append(("C03-request-accepted-in-flight", "%s accepted on %s while its status was %s (bet %s, %s)" % (r[3], r[4], b[0], b[1], b[5]), det))
        if isinstance(out, str) and out.startswith("EXC:") and a is not None and a != b:
            res.append(("C03-rejected-request-side-effect", "rejected %s on %s (%s) changed the order" % (r[3], r[4], out), det))
        if not ok_state and out is not True and out is not False and not (isinstance(out, str) and out.startswith("EXC:OrderUpdateError")):
            res.append(("C03-rejected-without-error", "%s on %s (%s) returned %r instead of raising OrderUpdateError" % (r[3], r[4], b[0], out), det))
    return res


def c10(sc, io):
    res = []
    tlogs = {}
    for ob in io["obs"]:
        s = ob["s"]
        trades = {}
        for o in ob["orders"]:
            if o["strategy"] == s:
                trades.setdefault(o["trade"], []).append(o)
        by = {}
        for t, os_ in trades.items():
            if os_[0].get("trade_pending_orders"):
                continue
            k = os_[0]["sel"]
            live = any(not o["complete"] for o in os_)
            e = by.setdefault(k, [0, 0])
            e[0] += 1; e[1] += 1 if live else 0
            st = os_[0]["trade_status"]
            det = {"pt": ob["pt"], "trade": t, "orders": [(o["o"], o["status"], o["log"]) for o in os_], "trade_log": os_[0]["trade_log"]}
            if st != "Complete" and not live:
                if any(any(a == "Execution complete" and b_ == "Executable" for a, b_ in zip(o["log"], o["log"][1:])) for o in os_):
                    res.append(("C10-reopened-after-complete", "trade %s is %s although all its orders are complete: one of them was re-opened by a late FAILURE response after the trade had completed, and completing again does not complete the trade a second time" % (t, st), det))
                elif any(len(o["log"]) >= 2 and o["log"][-2:] == ["Replacing", "Execution complete"] for o in os_):
                    res.append(("C10-failed-replace-leaves-phantom-order", "every order of trade %s in the blotter is complete but the trade is %s: the placement leg of a simulated replace failed and the replacement order that was never placed stays in trade.orders (status None, not complete), so the trade can never complete and the runner slot stays charged" % (t, st), det))
                elif any(o["status"] == "Violation" and len(o["log"]) > 1 for o in os_):
                    res.append(("C10-live-order-marked-violation", "every order of a trade is complete but the trade is %s: a control refusing a request marked a live order VIOLATION, which never completes the trade (slot locked)" % st, det))
                else:
                    res.append(("C10-trade-not-completed", "every order of trade %s is complete but the trade is %s" % (t, st), det))
            if st == "Complete" and live and os_[0]["trade_log"] == tlogs.get((s, t)):
                continue      # a completed trade the strategy re-used: it keeps the status Complete until the response to the new placement
            if st == "Complete" and live:
                log = [x for o in os_ for x in [o["log"]]]
                if any(any(a == "Execution complete" and b_ in ("Executable",) for a, b_ in zip(l, l[1:])) for l in log):
                    res.append(("C10-reopened-after-complete", "trade %s is Complete (slot freed) while an order re-opened by a late FAILURE response is live" % t, det))
                else:
                    res.append(("C10-complete-with-live-order", "trade %s is Complete while order(s) %s are not" % (t, [o["o"] for o in os_ if not o["complete"]]), det))
        for t, os_ in trades.items():
            tlogs[(s, t)] = list(os_[0]["trade_log"])
        for k, (nt, nl) in by.items():
            c = next((v for kk, v in ob.get("ctx", {}).items() if int(float(kk.split("/")[0])) == k), {"trades": 0, "live": 0})
            det = {"pt": ob["pt"], "selection": k, "context": c, "recount": [nt, nl]}
            if c["trades"] != nt:
                res.append(("C10-trade-count", "context of selection %s counts %d trades, %d distinct trades were placed" % (k, c["trades"], nt), det))
            if c["live"] != nl:
                viol = any(o["status"] == "Violation" and len(o["log"]) > 1 for os_ in trades.values() for o in os_ if o["sel"] == k)
                reop = any(any(a == "Execution complete" and b_ == "Executable" for a, b_ in zip(o["log"], o["log"][1:])) for os_ in trades.values() for o in os_ if o["sel"] == k)
                phantom = any(len(o["log"]) >= 2 and o["log"][-2:] == ["Replacing", "Execution complete"] and os_[0]["trade_status"] != "Complete" and all(x["complete"] for x in os_)
                              for os_ in trades.values() for o in os_ if o["sel"] == k)
                key = "C10-live-order-marked-violation" if viol else ("C10-reopened-after-complete" if reop else ("C10-failed-replace-leaves-phantom-order" if phantom else "C10-live-count"))
                res.append((key, "context of selection %s is charged %d live trades, %d trades still have an order that is not complete" % (k, c["live"], nl), det))
    return res

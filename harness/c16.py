"""C16 — reported exposure equals the true worst case."""
import json, random, os, itertools
from common import *

PID = "C16"
HDR = "From V Require Import Model.Num Model.Status Model.Exposure Model.ExposureSpec Gen.StatusC Model.C16Cases.\nOpen Scope Z_scope.\n"
STAT = {"NONE": "SNone", "PENDING": "SPending", "CANCELLING": "SCancelling", "UPDATING": "SUpdating", "REPLACING": "SReplacing",
        "EXECUTABLE": "SExecutable", "EXECUTION_COMPLETE": "SExecComplete", "EXPIRED": "SExpired", "VIOLATION": "SViolation"}
COMPLETE = {"EXECUTION_COMPLETE", "EXPIRED", "VIOLATION"}
TICKS = [101, 102, 110, 125, 150, 198, 200, 202, 240, 300, 305, 350, 500, 620, 1000, 1150, 2000, 5500, 10000, 100000]


def selkey(d):
    return d["sel"] * 10 + d.get("hc", 0)


def coq_order(i, d):
    kind = {"L": "(KLimit false)", "LINE": "(KLimit true)", "LOC": "KSP", "MOC": "KSP"}[d["kind"]]
    return "(mk %s %s %s %s %s %s %s %s %s %s %s)" % (
        z(i), z(selkey(d)), "Back" if d["side"] == "BACK" else "Lay", kind, STAT[d["status"]], cb(d["status"] in COMPLETE),
        z(d["matched"]), z(d["avg"]), z(d["rem"] if d["kind"] in ("L", "LINE") else 0), z(d["price"] if d["kind"] in ("L", "LINE") else 0),
        z(d["liab"]))


def gen_order(rng, sel, even, hc=0):
    kind = rng.choice(["L", "L", "L", "L", "LINE", "LOC", "MOC"])
    status = rng.choice(["EXECUTABLE", "EXECUTABLE", "EXECUTABLE", "EXECUTION_COMPLETE", "EXECUTION_COMPLETE", "PENDING", "CANCELLING",
                         "UPDATING", "REPLACING", "EXPIRED", "VIOLATION", "NONE"])
    def amt():
        v = rng.choice([0, 0, 200, 500, 1000, 1234, 5, 333, 2550, rng.randrange(1, 20000)])
        return v - v % 2 if even else v
    d = {"sel": sel, "hc": hc, "side": rng.choice(["BACK", "LAY"]), "kind": kind, "status": status,
         "matched": 0, "avg": 0, "rem": 0, "price": 0, "liab": 0}
    if kind in ("L", "LINE"):
        d["matched"] = amt()
        d["avg"] = (rng.choice(TICKS) if not even else rng.choice([200, 300, 500, 1000])) if d["matched"] else 0
        if kind == "L" and d["matched"] and rng.random() < 0.3 and not even:
            d["avg"] = rng.randrange(101, 3000)           # 2dp average of several fills
        d["rem"] = 0 if status in COMPLETE and rng.random() < 0.7 else amt()
        d["price"] = rng.choice(TICKS) if not even else rng.choice([200, 300, 500, 1000])
        if kind == "LINE":
            d["price"] = rng.choice([50, 150, 250, 1050, 20050])
            d["avg"] = d["price"] if d["matched"] else 0
        if d["matched"] + d["rem"] == 0:
            d["rem"] = 200
    else:
        d["liab"] = amt() or 1000
        d["price"] = rng.choice(TICKS)
    return d


def main():
    ck = Check(PID)
    rng = random.Random(seed())
    thorough = tier() == "thorough"
    p = subprocess.run([PY_IMPL, os.path.join(VERIF, "harness/impl/gen_consts.py"), "status"], env=impl_env(),
                       stdout=subprocess.PIPE, stderr=subprocess.PIPE)
    if p.returncode != 0:
        ck.broken.append({"kind": "generator", "what": "gen_consts status failed", "err": p.stderr.decode()[-1500:]})
        return ck.finish("generator failed")
    if not ck.build_props(["Model/C16Cases.vo"]):
        coq_build(["Model/C16Cases.vo"])

    ncases = 6000 if thorough else 1500
    cases = []
    for ci in range(ncases):
        even = rng.random() < 0.4
        nsel = rng.randrange(1, 5)
        sels = rng.sample([1, 2, 3, 4, 5], nsel)
        lines = [0, 1, 2] if rng.random() < 0.25 else [0]       # handicap market: one selection on several lines, each line a runner of its own
        orders = []
        for s in sels:
            for _ in range(rng.choice([0, 1, 1, 2, 3, 4])):
                orders.append(gen_order(rng, s, even, rng.choice(lines)))
        rng.shuffle(orders)
        for o in orders:
            if rng.random() < 0.05:
                o["other"] = True       # order of another strategy in the same blotter: must not count
        extra = [gen_order(rng, rng.choice([1, 2, 3, 4, 5, 6]), even, rng.choice(lines)) for _ in range(2)]
        mine = [i for i, o in enumerate(orders) if not o.get("other")]
        qs = []
        for s, h in sorted({(s, h) for s in sels for h in lines} | {(extra[0]["sel"], extra[0]["hc"])}):
            ex = ["o", rng.choice(mine)] if mine and rng.random() < 0.4 else None
            nw = None
            r = rng.random()
            cand = [i for i, e in enumerate(extra) if (e["sel"], e["hc"]) == (s, h)]
            if r < 0.35 and cand:
                nw = ["x", cand[0]]
            elif r < 0.5 and ex is not None and (orders[ex[1]]["sel"], orders[ex[1]]["hc"]) == (s, h):
                nw = ex                       # exclusion == new_order (what REPLACE passes)
            qs.append({"f": "sel", "sel": s, "hc": h, "ex": ex, "new": nw})
        for _ in range(2):
            ex = ["o", rng.choice(mine)] if mine and rng.random() < 0.3 else None
            r = rng.random()
            nw = ["x", rng.randrange(2)] if r < 0.4 else (ex if r < 0.5 else None)
            qs.append({"f": "mkt", "active": rng.randrange(1, 8), "k": rng.choice([0, 1, 1, 1, 2, 3]), "ex": ex, "new": nw})
        cases.append({"orders": orders, "extra": extra, "queries": qs})
    outs = run_impl_parallel("c16", [{"cases": ch} for ch in chunked(cases, 150)])
    res = [r for o in outs for r in o["out"]]

    selrows, selmeta, mktrows, mktmeta = [], [], [], []
    for ci, (c, rs) in enumerate(zip(cases, res)):
        mine = [(i, o) for i, o in enumerate(c["orders"]) if not o.get("other")]
        def oid(r):
            return None if r is None else (r[1] if r[0] == "o" else 1000 + r[1])
        def onew(r):
            if r is None:
                return "None"
            d = c["orders"][r[1]] if r[0] == "o" else c["extra"][r[1]]
            return "(Some %s)" % coq_order(oid(r), d)
        for qi, (q, r) in enumerate(zip(c["queries"], rs)):
            if q["f"] == "sel":
                os_ = [coq_order(i, o) for i, o in mine if selkey(o) == q["sel"] * 10 + q.get("hc", 0)]
                selrows.append("(%s, %s, %s, %s, %s)" % (cl(os_), copt(oid(q["ex"])), onew(q["new"]), zl(r["six"]), z(r["selexp"])))
                selmeta.append((ci, qi))
            else:
                os_ = [coq_order(i, o) for i, o in mine]
                mktrows.append("(%s, %s, %s, %s, %s, %s)" % (cl(os_), z(q["active"]), z(q["k"]), copt(oid(q["ex"])), onew(q["new"]), z(r["mkt"])))
                mktmeta.append((ci, qi))

    def evalfam(name, rows, ty, cmpf, propf):
        CH = 400
        outs = coq_eval(name, HDR, ["Definition cases : list %s := %s.\nEval vm_compute in (map %s cases).\nEval vm_compute in (bad_idx %s cases).\n" % (ty, cl(ch), cmpf, propf) for ch in chunked(rows, CH)])
        cmp_, pbad = [], []
        for i, o in enumerate(outs):
            v = parse_evals(o)
            cmp_ += parse_nlist(v[0])
            pbad += [i * CH + k for k in parse_nlist(v[1])]
        return cmp_, pbad

    scmp, spbad = evalfam("c16sel", selrows, "selq", "sel_cmp", "sel_prop")
    mcmp, mpbad = evalfam("c16mkt", mktrows, "mktq", "mkt_cmp", "mkt_prop")
    smis = [i for i, v in enumerate(scmp) if v == 2]
    mmis = [i for i, v in enumerate(mcmp) if v == 2]
    def nontriv_sel(i):
        ci, qi = selmeta[i]
        return len(cases[ci]["orders"]) > 0
    whole_runs(ck, rng, thorough, evalfam)
    ck.family("selection_exposures", len(selrows), len({r for r in selrows if "mk" in r}), smis, spbad,
              ambiguous=sum(1 for v in scmp if v == 1),
              dist={"queries": len(selrows), "with_exclusion": sum(1 for ci, qi in selmeta if cases[ci]["queries"][qi]["ex"]),
                    "with_new": sum(1 for ci, qi in selmeta if cases[ci]["queries"][qi]["new"]),
                    "exclusion_is_new": sum(1 for ci, qi in selmeta if cases[ci]["queries"][qi]["new"] and cases[ci]["queries"][qi]["new"] == cases[ci]["queries"][qi]["ex"])},
              samples=[{"family": "selection", "case": cases[selmeta[0][0]], "impl": res[selmeta[0][0]][selmeta[0][1]]}])
    ck.family("market_exposure", len(mktrows), len(set(mktrows)), mmis, mpbad, ambiguous=sum(1 for v in mcmp if v == 1),
              dist={"queries": len(mktrows)}, samples=[{"family": "market", "query": cases[mktmeta[0][0]]["queries"][mktmeta[0][1]], "impl": res[mktmeta[0][0]][mktmeta[0][1]]}])
    for i in (spbad + smis)[:5]:
        ci, qi = selmeta[i]
        ck.fail("C16-selection", "Blotter.get_exposures/selection_exposure differ from the worst case over all fill combinations",
                {"call": "Blotter.get_exposures", "orders": cases[ci]["orders"], "extra": cases[ci]["extra"], "query": cases[ci]["queries"][qi], "impl": res[ci][qi],
                 "failed": "property" if i in spbad else "model-mismatch"})
    for i in (mpbad + mmis)[:5]:
        ci, qi = mktmeta[i]
        ck.fail("C16-market", "Blotter.market_exposure differs from the worst case over all sets of winners",
                {"call": "Blotter.market_exposure", "orders": cases[ci]["orders"], "extra": cases[ci]["extra"], "query": cases[ci]["queries"][qi], "impl": res[ci][qi],
                 "failed": "property" if i in mpbad else "model-mismatch"})
    # the BETDAQ path of a live Flumine (outside the Coq live model): placements whose answer the order poll overtakes, matches, polls, price changes, cancels
    import betdaqcheck
    betdaqcheck.run_family(ck, rng, 60 if thorough else 20, "betdaq_exposures_against_the_exchange", ("C16",))
    return ck.finish("random blotters of real orders (0-4 orders on 1-4 selections, both sides, LIMIT/LINE_RANGE/LOC/MOC, every status incl. None, any matched/remaining split, orders of another strategy mixed in) x queries with/without exclusion and prospective order (incl. exclusion==new) x active runners 1-7, winners 0-3; model evaluated with both tie-breaks (equal => exact equality demanded, else only the property); the property checker (brute force over fill subsets / winner sets) is evaluated on the implementation's figures for every case")


SNAP_STATUS = {"Pending": "PENDING", "Executable": "EXECUTABLE", "Execution complete": "EXECUTION_COMPLETE", "Cancelling": "CANCELLING", "Updating": "UPDATING",
               "Replacing": "REPLACING", "Violation": "VIOLATION", "Expired": "EXPIRED", None: "NONE"}


def resubmitted_scenario(rng):
    """a new order refused by a control (the market is suspended when the strategy submits it: VIOLATION, never in the blotter) is submitted
    again - the very same order object - once the market is open, is accepted and rests; the strategy reads its exposures afterwards"""
    import simgen
    P = simgen.TICKS_BP
    t0 = 1_700_000_000_000
    i = rng.randrange(8, 18)
    def runner(sel, k):
        return {"id": sel, "status": "ACTIVE", "adj": 1000, "atb": [[P[k - 2], 5000]], "atl": [[P[k + 2], 5000]], "trd": []}
    ups = []
    for k, st in enumerate(["OPEN", "SUSPENDED", "OPEN", "OPEN", "OPEN", "OPEN"]):
        ups.append({"pt": t0 + 300 * k, "status": st, "version": 1, "runners": [runner(1, i), runner(2, i + 3)]})
    side1, side2 = rng.choice(["BACK", "LAY"]), rng.choice(["BACK", "LAY"])
    # resting prices: BACK above the best lay side's touch is not needed - BACK rests above best back, LAY below best lay
    p1 = P[i + 1] if side1 == "BACK" else P[i - 1]
    p2 = P[i + 4] if side2 == "BACK" else P[i + 2]
    acts = [{"s": 0, "m": 0, "u": 1, "acts": [["place", 1, 1, side1, {"t": "L", "p": p1, "s": rng.choice([300, 400, 700]), "pt": "LAPSE", "tif": None, "mf": None}, {"mv": None}],
                                              ["place", 2, 2, side2, {"t": "L", "p": p2, "s": rng.choice([200, 300, 500]), "pt": "LAPSE", "tif": None, "mf": None}, {"mv": None}]]},
            {"s": 0, "m": 0, "u": 2, "acts": [["place_again", "o1"]] + ([["place_again", "o2"]] if rng.random() < 0.7 else [])}]
    return {"config": {"place_latency": 0.12, "cancel_latency": 0.17, "update_latency": 0.15, "replace_latency": 0.28, "isolation": True},
            "clients": [{"bpe": True, "full_match": False, "limit": None, "min_val": False}],
            "strategies": [{"name": "s0", "client": 0, "read_exposure": True}],
            "markets": [{"id": "1.100000001", "event": "20000001", "group": False, "type": "WIN", "bsp": True, "persist": True, "winners": 1, "updates": ups}],
            "script": acts}


def whole_runs(ck, rng, thorough, evalfam):
    """the strategy reads its exposures on every runner at every update of whole simulated runs (orders acknowledged, partly filled, cancelled,
    replaced, re-priced by a runner removal, converted at the off): the figures reported at each instant against the model / the brute-force
    spec applied to the order snapshot of the same instant - a cache or memo inside the blotter that goes stale shows up here"""
    import simgen
    n = 160 if thorough else 40
    scs = []
    for _ in range(n):
        s = simgen.gen_scenario(rng, {"kinds": ["L"] * 8 + ["MOC", "LOC"], "p_manage": 0.4, "nstrats": [1, 2], "p_remove": 0.15, "p_place": 0.7, "min_upd": 7, "max_upd": 12,
                                      "adjs": [1000, 2000, 3300, 250], "nmarkets": [1]})
        for sp in s["strategies"]:
            sp["read_exposure"] = True
        scs.append(s)
    nre = 40 if thorough else 12
    scs += [resubmitted_scenario(rng) for _ in range(nre)]
    outs = run_impl_parallel("simlib", [{"scenarios": [simgen.to_impl(x) for x in ch], "observe": "all"} for ch in chunked(scs, 20)], timeout=3600)
    impl = [r for o in outs for r in o["out"]]
    rows, meta, skipped = [], [], [0]
    for i, (sc, io) in enumerate(zip(scs, impl)):
        for ob in io["obs"]:
            if ob.get("cb") != "book" or "expo" not in ob:
                continue
            mine = [o for o in ob["orders"] if o["strategy"] == ob["s"]]
            for key, vals in ob["expo"].items():
                sel = int(key.split("/")[0])
                os_ = []
                for k, o in enumerate(mine):
                    if o["sel"] != sel:
                        continue
                    kind = {"LIMIT": "L", "LIMIT_ON_CLOSE": "LOC", "MARKET_ON_CLOSE": "MOC"}[o["otype"]]
                    d = {"sel": sel, "hc": 0, "side": o["side"], "kind": kind, "status": SNAP_STATUS[o["status"]],
                         "matched": int(round(o["matched"] * 100)), "avg": int(round(o["avg"] * 100)),
                         "rem": int(round(o["remaining"] * 100)) if kind == "L" else 0, "price": int(round((o["price"] or 0) * 100)),
                         "liab": int(round((o["liab"] or 0) * 100)) if kind != "L" else 0}
                    os_.append(coq_order(k, d))
                if not os_:
                    continue
                if any(o["sel"] == sel and o["remaining"] < 0 for o in mine):
                    skipped[0] += 1        # an order left with a negative remainder by the void of a partly cancelled order (known finding F-C04-1): not an input of this property
                    continue
                rows.append("(%s, None, None, %s, %s)" % (cl(os_), zl(vals[:6]), z(vals[6])))
                meta.append((i, ob["pt"], ob["s"], sel))
    cmp_, pbad = evalfam("c16run", rows, "selq", "sel_cmp", "sel_prop")
    mis = [k for k, v in enumerate(cmp_) if v == 2]
    ck.family("exposures_over_whole_runs", len(rows), len(set(rows)), mis, pbad, ambiguous=sum(1 for v in cmp_ if v == 1),
              dist={"runs": len(scs), "runs_with_a_refused_order_submitted_again": nre, "snapshots_with_orders": len(rows), "snapshots_skipped_negative_remainder_F-C04-1": skipped[0], "runs_aborted_by_impl": sum(1 for io in impl if io["error"])})
    for k in (pbad or mis)[:2]:
        i, pt, st, sel = meta[k]
        ck.fail("C16-whole-run", "at the update published at %s strategy %d's reported exposures on selection %d differ from the worst case over its orders as they are at that instant" % (pt, st, sel),
                {"scenario": scs[i], "pt": pt, "strategy": st, "selection": sel, "row": rows[k], "how": "harness/impl/simlib.py with read_exposure (Blotter.get_exposures at every update)"})


def replay(path):
    print(open(path).read()); return 0

"""C13 — strategies are isolated from each other and from callback errors."""
import json, random, copy
from common import *
import simgen, simcheck, simrun, propcheck

PID = "C13"


def restrict(sc, keep):
    """the run with only the strategies in [keep] (in that registration order)"""
    s = copy.deepcopy(sc)
    s["strategies"] = [copy.deepcopy(sc["strategies"][i]) for i in keep]
    s["script"] = [dict(e, s=keep.index(e["s"])) for e in sc["script"] if e["s"] in keep]
    return s


def ledger(io, strat):
    out = []
    for o in io["final"]:
        if o["strategy"] == strat:
            out.append({k: o[k] for k in ("status", "log", "matched", "avg", "remaining", "cancelled", "lapsed", "voided", "frags", "created", "placed", "done_t", "profit", "side", "price", "size", "sel", "market")})
    return json.dumps(sorted(out, key=lambda x: json.dumps(x, sort_keys=True)), sort_keys=True)


def main():
    ck = Check(PID)
    rng = random.Random(seed())
    thorough = tier() == "thorough"
    if not simcheck.gen_status(ck):
        return ck.finish("generator failed")
    if not ck.build_props(["Model/SimCases.vo"]):
        coq_build(["Model/SimCases.vo"])
    n = 160 if thorough else 40
    # ---- family 1 (metamorphic): A alone, A+B, B+A, A+B+C with isolation on; also vs the model for the full run
    base = []
    for _ in range(n):
        s = simgen.gen_scenario(rng, {"nstrats": [3], "p_iso": 1.1, "p_trade": 0.85, "p_place": 0.6, "kinds": ["L"] * 9 + ["MOC"], "no_remove": True, "p_remove": 0.0, "max_upd": 11})
        # orders must be nameable across runs: the same script names are reused, so ledgers are comparable by content
        base.append(s)
    variants = []
    for s in base:
        variants += [restrict(s, [0]), restrict(s, [0, 1]), restrict(s, [1, 0]), s]
    outs = run_impl_parallel("simlib", [{"scenarios": [simgen.to_impl(v) for v in ch], "observe": "calls"} for ch in chunked(variants, 16)], timeout=3600)
    impl = [r for o in outs for r in o["out"]]
    mbad = []
    for k, s in enumerate(base):
        a, ab, ba, abc = impl[4 * k: 4 * k + 4]
        la = ledger(a, 0)
        if not (la == ledger(ab, 0) == ledger(ba, 1) == ledger(abc, 0)):
            mbad.append(k)
        elif ledger(ab, 1) != ledger(ba, 0):
            mbad.append(k)
    ck.family("metamorphic_A_AB_BA_ABC", len(variants), len(base), [], mbad, dist={"base_scenarios": len(base), "orders_of_A": sum(ledger(impl[4 * k], 0).count('"status"') for k in range(len(base)))},
              samples=[{"family": "metamorphic", "ledger_A_alone": json.loads(ledger(impl[0], 0))[:1]}])
    for k in mbad[:2]:
        ck.fail("C13-isolation", "with strategy isolation on, the fills/statuses/timestamps/profit of a strategy's orders differ between running alone and alongside other strategies (or with the registration order)",
                {"scenario_ABC": base[k], "ledger_alone": json.loads(ledger(impl[4 * k], 0)), "ledger_with_others": json.loads(ledger(impl[4 * k + 3], 0))})
    # the multi-strategy runs against the Coq model as well
    simcheck.run_family(ck, "three_strategies_vs_model", base[: max(10, n // 2)], lambda sc, io: [], "C13", "model")

    # ---- family 2: exception injected at every (strategy x callback kind x invocation) of short runs, raise_errors False
    inj_cases, inj_meta = [], []
    for _ in range(6 if thorough else 3):
        s = simgen.gen_scenario(rng, {"nstrats": [2, 3], "p_iso": 1.1, "min_upd": 4, "max_upd": 6, "nmarkets": [1], "no_remove": True, "p_remove": 0.0, "p_place": 0.7})
        nu = len(s["markets"][0]["updates"])
        inj_cases.append(s); inj_meta.append(("base", len(inj_cases) - 1, None))
        b = len(inj_cases) - 1
        for si in range(len(s["strategies"])):
            for cb in ("book", "check", "orders", "new_market"):
                for u in range(nu if cb in ("book", "check") else (1 if cb == "new_market" else nu - 1)):
                    for exc in ("value", "flumine"):
                        v = copy.deepcopy(s); v["inject"] = [{"s": si, "cb": cb, "m": 0, "u": u, "exc": exc}]
                        inj_cases.append(v); inj_meta.append(("inj", b, v["inject"][0]))
        for u in range(nu):
            v = copy.deepcopy(s); v["inject"] = [{"cb": "middleware", "m": 0, "u": u, "s": -1}]
            inj_cases.append(v); inj_meta.append(("inj", b, v["inject"][0]))
    iouts = run_impl_parallel("simlib", [{"scenarios": [simgen.to_impl(v) for v in ch], "observe": "calls"} for ch in chunked(inj_cases, 20)], timeout=3600)
    iimpl = [r for o in iouts for r in o["out"]]
    ibad = []
    def deliveries(io, st):
        return [(c[1], c[2], c[3]) for c in io["calls"] if c[0] == st and c[1] in ("book", "closed")]
    for k, (kind, b, inj) in enumerate(inj_meta):
        if kind != "inj":
            continue
        base_io, io = iimpl[b], iimpl[k]
        ns = len(inj_cases[b]["strategies"])
        if io["error"] is not None:
            ibad.append((k, "the run ended with %s" % io["error"])); continue
        for st in range(ns):
            if st == inj["s"]:
                continue
            if deliveries(io, st) != deliveries(base_io, st):
                ibad.append((k, "strategy %d no longer receives every update exactly once" % st)); break
            if inj["cb"] != "middleware" and ledger(io, st) != ledger(base_io, st):
                ibad.append((k, "orders of strategy %d changed because another strategy's callback raised" % st)); break
        # middleware still runs before the strategies for every update
        if len(io["mw_calls"]) != len(base_io["mw_calls"]):
            ibad.append((k, "a middleware call was lost"))
        # the failing strategy itself keeps receiving later updates
        if inj["cb"] in ("book", "orders", "new_market") and inj["s"] >= 0 and deliveries(io, inj["s"]) != deliveries(base_io, inj["s"]):
            ibad.append((k, "the strategy whose callback raised stops receiving updates"))
        for key, desc, det in propcheck.c04(inj_cases[k], dict(io, obs=[])):
            pass
    ck.family("exception_injection", len(inj_cases), len(inj_cases), [], sorted({k for k, _ in ibad}),
              dist={"injections": sum(1 for m in inj_meta if m[0] == "inj"), "callback_kinds": ["book", "check", "orders", "new_market", "middleware"], "exception_kinds": ["ValueError", "FlumineException"]})
    for k, why in ibad[:3]:
        ck.fail("C13-containment", "an exception injected in a callback was not contained: " + why, {"scenario": inj_cases[k], "inject": inj_meta[k][2]})

    # ---- family 2b: the exception leaves a `with market.transaction()` block after requests were accepted: they are sent all the same
    tx_cases, tx_meta = [], []
    for _ in range(24 if thorough else 8):
        s = simgen.gen_scenario(rng, {"nstrats": [2], "p_iso": 1.1, "min_upd": 5, "max_upd": 8, "nmarkets": [1], "no_remove": True, "p_remove": 0.0, "p_place": 0.8, "kinds": ["L"]})
        evs = [ev for ev in s["script"] if ev["s"] == 0 and any(a[0] == "place" for a in ev["acts"])]
        if not evs:
            continue
        ev = rng.choice(evs)
        places = [a for a in ev["acts"] if a[0] == "place"]
        base_v, exc_v = copy.deepcopy(s), copy.deepcopy(s)
        for v, tail in ((base_v, [["txn_end"]]), (exc_v, [["raise"]])):
            for e2 in v["script"]:
                if (e2["s"], e2["m"], e2["u"]) == (ev["s"], ev["m"], ev["u"]):
                    e2["acts"] = [["txn_begin"]] + copy.deepcopy(places) + tail
        tx_cases += [base_v, exc_v]; tx_meta.append((len(tx_cases) - 2, len(tx_cases) - 1))
    touts = run_impl_parallel("simlib", [{"scenarios": [simgen.to_impl(v) for v in ch], "observe": "calls"} for ch in chunked(tx_cases, 8)], timeout=3600) if tx_cases else []
    timpl = [r for o in touts for r in o["out"]]
    tbad = []
    for b, k in tx_meta:
        if timpl[k]["error"] is not None:
            tbad.append((k, "the run ended with %s" % timpl[k]["error"]))
        elif ledger(timpl[k], 0) != ledger(timpl[b], 0):
            tbad.append((k, "orders accepted inside a transaction block that was left by an exception do not end up as they do when the block ends normally (e.g. left Pending for ever, never sent)"))
        elif ledger(timpl[k], 1) != ledger(timpl[b], 1):
            tbad.append((k, "another strategy's orders changed because a transaction block was left by an exception"))
    ck.family("exception_inside_transaction_block", len(tx_cases), len(tx_meta), [], sorted({k for k, _ in tbad}), dist={"pairs": len(tx_meta), "orders_in_blocks": sum(ledger(timpl[b], 0).count('"status"') for b, _ in tx_meta) if timpl else 0})
    for k, why in tbad[:2]:
        ck.fail("C13-containment", why, {"scenario": tx_cases[k]})

    # ---- family 2c: strategies subscribing to the same market file with different listener arguments do not get each other's stream
    lk_cases, lk_meta = [], []
    for _ in range(16 if thorough else 6):
        s = simgen.gen_scenario(rng, {"nstrats": [2], "p_iso": 1.1, "min_upd": 7, "max_upd": 11, "nmarkets": [1], "no_remove": True, "p_remove": 0.0, "p_place": 0.7, "p_inplay": 0.9, "kinds": ["L"]})
        s["script"] = [ev for ev in s["script"] if ev["s"] == 1]          # only the unfiltered strategy trades
        s["strategies"][0]["listener_kwargs"] = {"inplay": True}
        alone = restrict(s, [1]); ab = s; ba = restrict(s, [1, 0])
        lk_cases += [alone, ab, ba]; lk_meta.append(len(lk_cases) - 3)
    louts2 = run_impl_parallel("simlib", [{"scenarios": [simgen.to_impl(v) for v in ch], "observe": "calls"} for ch in chunked(lk_cases, 9)], timeout=3600)
    limpl2 = [r for o in louts2 for r in o["out"]]
    lbad = []
    for b in lk_meta:
        a_, ab_, ba_ = limpl2[b: b + 3]
        d0 = [(c[1], c[3]) for c in a_["calls"] if c[0] == 0 and c[1] in ("book", "closed")]
        d1 = [(c[1], c[3]) for c in ab_["calls"] if c[0] == 1 and c[1] in ("book", "closed")]
        d2 = [(c[1], c[3]) for c in ba_["calls"] if c[0] == 0 and c[1] in ("book", "closed")]
        rewinds = any(t2 < t1 for run_ in (ab_, ba_) for t1, t2 in zip([c[3] for c in run_["calls"]], [c[3] for c in run_["calls"]][1:]))
        if not (d0 == d1 == d2):
            lbad.append((b, "C13-isolation", "a strategy without listener arguments receives %d / %d / %d updates alone / after / before a strategy subscribed to the same file with {'inplay': True}: it was given the other strategy's filtered stream" % (len(d0), len(d1), len(d2))))
        elif not (ledger(a_, 0) == ledger(ab_, 1) == ledger(ba_, 0)):
            lbad.append((b, "C13-same-file-replayed-per-listener-arguments" if rewinds else "C13-isolation",
                         "the ledger of a strategy differs between running alone and alongside a strategy with other listener arguments on the same file: the two streams of the file are replayed one after the other over the same Market, the second replay rewinds the market's clock and lapses / re-matches the resting orders of the strategy that ran first"))
    ck.family("listener_arguments_not_shared", len(lk_cases), len(lk_meta), [], sorted({b for b, _, _ in lbad}), dist={"triples": len(lk_meta), "updates_seen_alone": sum(len([c for c in limpl2[b]["calls"] if c[1] == "book"]) for b in lk_meta)})
    seen_k = set()
    for b, key, why in lbad:
        if key not in seen_k:
            seen_k.add(key)
            ck.fail(key, why, {"scenario": lk_cases[b + 1], "also": "the same strategies in the other registration order: restrict(scenario, [1, 0])"})

    # ---- family 3: raw-data and custom-event callbacks on a live framework
    lcases = []
    data_sets = [[{"id": "1.1", "x": 1}, {"id": "1.2"}], [{"marketId": "1.1", "eventId": "7"}, {"eventId": "8"}], [{"id": "1.1"}, {"marketId": "1.9"}, {"id": "1.3"}]]
    for data in data_sets:
        for nst in (2, 3):
            lcases.append({"n": nst, "data": data, "inject": None, "custom": [{"raise": False}]})
            for s_ in range(nst):
                for kk in range(len(data)):
                    for exc in ("value", "flumine"):
                        lcases.append({"n": nst, "data": data, "inject": {"s": s_, "k": kk, "exc": exc}, "custom": [{"raise": True, "exc": exc}, {"raise": False}]})
    lout = run_impl_parallel("livelib", [{"job": "callbacks", "cases": ch} for ch in chunked(lcases, 20)])
    lres = [r for o in lout for r in o["out"]]
    lbad = []
    for k, (c, r) in enumerate(zip(lcases, lres)):
        exp = []
        for di, d in enumerate(c["data"]):
            for st in range(c["n"]):
                if c["inject"] and c["inject"]["s"] == st and c["inject"]["k"] == di:
                    continue
                exp.append([st, d.get("id", d.get("marketId", d.get("eventId")))])
        if r["escaped"] is not None or r["got"] != exp or r["custom"] != ["ran"]:
            lbad.append(k)
    ck.family("live_raw_data_and_custom_events", len(lcases), len(lcases), [], lbad)
    for k in lbad[:2]:
        ck.fail("C13-containment", "an exception in a raw-data / custom-event callback escaped or other strategies missed data", {"case": lcases[k], "impl": lres[k]})
    ck.assumptions.append("composite non-interference (projection of a whole run on one strategy = its run alone) is NOT proved: crux lemmas (frame, per-strategy copy, C06 bound) are theorems, the composite is established by the metamorphic runs (partial)")
    return ck.finish("metamorphic runs of the real FlumineSimulation (A alone / A+B / B+A / A+B+C, isolation on, shared markets, resting orders competing for the same traded volume): per-strategy ledgers identical; the three-strategy runs also compared with the Coq model; an exception (ValueError / FlumineException) injected at every strategy x callback kind (book, check, orders, new_market) x invocation and in a middleware at every update: other strategies' deliveries and ledgers unchanged, middleware still called, run continues; raw-data and custom-event callbacks on a live Flumine")


def replay(path):
    print(open(path).read()); return 0

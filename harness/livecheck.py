"""Property checkers over the observations of live scripts (real Flumine + BetfairExecution + process_current_orders)."""
from collections import Counter

TRANSIENT = ("Cancelling", "Updating", "Replacing")
LEGAL = {
    (None, "Pending"),
    ("Pending", "Executable"), ("Pending", "Execution complete"), ("Pending", "Expired"), ("Pending", "Violation"),
    ("Executable", "Cancelling"), ("Executable", "Updating"), ("Executable", "Replacing"), ("Executable", "Execution complete"),
    ("Cancelling", "Executable"), ("Cancelling", "Execution complete"),
    ("Updating", "Executable"), ("Updating", "Execution complete"),
    ("Replacing", "Executable"), ("Replacing", "Execution complete"),
}
STUTTER = {("Executable", "Executable"), ("Execution complete", "Execution complete")}
MAX_CALLS = 4


def steps_with_prev(case, run):
    prev = None
    for si, (step, ob) in enumerate(zip(case["steps"], run)):
        yield si, step, prev, ob
        prev = None if step[0] == "restart" else ob


def outside_orders(case, run):
    """orders whose package hit a non-BetfairError exception inside the exchange call (left as they were: outside the properties'
    'transport or API errors', which betfairlightweight reports as BetfairError) -> {order: step}"""
    out = {}
    for si, (step, ob) in enumerate(zip(case["steps"], run)):
        res = ob["res"]
        rs = res["drained"] if isinstance(res, dict) and "drained" in res else [res]
        for r in rs:
            if isinstance(r, dict) and r.get("unknown") and "kind" in r:
                for nm in r["orders"]:
                    out.setdefault(nm, si)
        if step[0] == "restart":
            out = {}
    return out


def omap(ob):
    return {o["o"]: o for o in ob["orders"]} if ob else {}


def c12(case, run, max_calls=MAX_CALLS):
    """-> list of (key, description) failures"""
    bad = []
    outside = outside_orders(case, run)
    for si, step, prev, ob in steps_with_prev(case, run):
        res = ob["res"]
        if step[0] == "drain":
            # several responses in one step: only the checks that do not need the intermediate states
            for r in res["drained"]:
                if r.get("unknown"):
                    continue
                if r["calls"] > max_calls:
                    bad.append(("C12-retries", "step %d: %d calls for one %s package" % (si, r["calls"], r["kind"])))
            now = omap(ob)
            for nm, o in now.items():
                if o["status"] in TRANSIENT and nm not in outside:
                    bad.append(("C12-stranded", "step %d: order %s left %s although every package has been answered" % (si, nm, o["status"])))
                if o["trade_status"] == "Pending":
                    bad.append(("C12-trade-pending", "step %d: trade of %s left Pending" % (si, nm)))
            continue
        if not (isinstance(res, dict) and "kind" in res) or res.get("unknown"):
            continue          # a non-BetfairError exception inside the call is outside the property
        elsewhere = {nm for p in ob.get("pending_packages", []) + ob.get("outstanding_calls", []) for nm in p[1]}
        if res.get("exc"):
            bad.append(("C12-handler-raised", "step %d: the %s handler raised %s" % (si, res["kind"], res["exc"])))
        now, before = omap(ob), omap(prev)
        k = res["kind"]
        if res["calls"] > max_calls:
            bad.append(("C12-retries", "step %d: %d calls for one %s package (budget 1 + %d retries)" % (si, res["calls"], k, max_calls - 1)))
        if not res["responded"] and res["calls"] and res["calls"] < max_calls:
            bad.append(("C12-retries", "step %d: gave up after %d calls although the retry budget allows %d" % (si, res["calls"], max_calls)))
        sent = {x["order"]: x for x in res["sent"]}
        for nm in res["orders"]:
            o = now.get(nm)
            if o is None:
                continue
            if o["status"] in TRANSIENT and nm not in elsewhere:
                bad.append(("C12-stranded", "step %d: order %s left %s after the %s response %s" % (si, nm, o["status"], k, "(answered)" if res["responded"] else "(retries exhausted)")))
            if o["trade_status"] == "Pending":
                bad.append(("C12-trade-pending", "step %d: trade of %s left Pending" % (si, nm)))
            if o["status"] == "Pending" and nm not in elsewhere:
                x = sent.get(nm)
                unknown_outcome = k == "place" and res["responded"] and x is not None and (x["status"] == "TIMEOUT" or x["order_status"] == "PENDING")
                if not unknown_outcome:
                    bad.append(("C12-stranded", "step %d: order %s still Pending although the outcome of its placement is known (%s)" % (si, nm, x)))
            if not res["responded"] and res["calls"]:
                want = "Execution complete" if k == "place" else "Executable"
                was = before.get(nm, {}).get("status")
                if was != "Violation" and o["status"] != want:
                    bad.append(("C12-exhausted", "step %d: retries exhausted on a %s package but order %s is %s (expected %s)" % (si, k, nm, o["status"], want)))
        # counts
        d_tx = ob["tx"][0] - (prev["tx"][0] if prev else 0)
        d_f = ob["tx"][1] - (prev["tx"][1] if prev else 0)
        want_tx = len(res["sent"]) if (res["responded"] and k in ("place", "replace")) else 0
        if k == "place":
            nfail = 0
        elif k == "replace":
            nfail = sum(1 for x in res["sent"] if x["cancel"] == "FAILURE")
        else:
            nfail = sum(1 for x in res["sent"] if x["status"] == "FAILURE")
        if d_tx != want_tx or d_f != nfail:
            bad.append(("C12-counts", "step %d: %s response with %d instructions answered and %d FAILURE reports charged %d transactions and %d failed" % (si, k, want_tx, nfail, d_tx, d_f)))
        # attribution
        for x in res["sent"]:
            o = now.get(x["order"])
            if o is None:
                continue
            if k == "place" and x["bet"] is not None and o["bet"] != x["bet"]:
                bad.append(("C12-attribution", "step %d: the report with bet %s belongs to %s, which now has bet %s" % (si, x["bet"], x["order"], o["bet"])))
            if k == "place" and x["status"] == "FAILURE" and not o["complete"]:
                bad.append(("C12-attribution", "step %d: FAILURE reported for %s but it is %s" % (si, x["order"], o["status"])))
            if k == "replace" and x["bet"] is not None:
                r = [y for y in ob["orders"] if y["bet"] == x["bet"]]
                if len(r) != 1 or r[0]["trade"] != o["trade"] or o["status"] != "Execution complete":
                    bad.append(("C12-attribution", "step %d: replacement bet %s for %s: replacement orders %s, replaced order is %s" % (si, x["bet"], x["order"], [y["o"] for y in r], o["status"])))
            if k == "cancel":
                was = before.get(x["order"])
                if was is not None and was["status"] == "Cancelling":
                    if x["status"] == "SUCCESS":
                        want = "Execution complete" if (x["size_cancelled"] == was["remaining"] or was["remaining"] == 0) else "Executable"
                    elif x["status"] == "FAILURE":
                        want = "Execution complete" if x["taken_or_lapsed"] else "Executable"
                    else:
                        want = "Executable"
                    if o["status"] != want:
                        bad.append(("C12-attribution", "step %d: cancel report %s for %s (remaining %s) left it %s, expected %s" % (si, x, x["order"], was["remaining"], o["status"], want)))
    return bad


def c03(case, run):
    bad = []
    logs, done = {}, {}
    for si, step, prev, ob in steps_with_prev(case, run):
        if step[0] == "restart":
            logs, done = {}, {}
        res = ob["res"]
        before = omap(prev)
        for o in ob["orders"]:
            nm = o["o"]
            old = logs.get(nm, [])
            if o["log"][:len(old)] != old:
                bad.append(("C03-log-rewritten", "step %d: status log of %s changed its past" % (si, nm)))
            seq = ([old[-1]] if old else [None]) + o["log"][len(old):]
            for a, b in zip(seq, seq[1:]):
                if (a, b) in LEGAL or (a, b) in STUTTER:
                    continue
                if b == "Violation" and a is not None and a != "Pending":
                    bad.append(("C03-live-order-marked-violation", "step %d (%s): order %s went %s -> Violation (a control refused a request on an order resting at the exchange)" % (si, step[0], nm, a)))
                elif a in ("Execution complete", "Expired", "Violation"):
                    bad.append(("C03-reopened-after-complete", "step %d (%s): order %s went %s -> %s" % (si, step[0], nm, a, b)))
                else:
                    bad.append(("C03-illegal-transition", "step %d (%s): order %s went %s -> %s" % (si, step[0], nm, a, b)))
            logs[nm] = list(o["log"])
            # finality
            if nm in done:
                if not o["complete"]:
                    pass      # reported above as a reopening
                elif o["matched"] != done[nm] and o["bet"] is not None:
                    bad.append(("C03-matched-changed-after-complete", "step %d (%s): matched size of completed order %s changed %s -> %s" % (si, step[0], nm, done[nm], o["matched"])))
                    done[nm] = o["matched"]
            elif o["complete"] and not o["live"]:
                done[nm] = o["matched"]
        # rejected requests: an error and no side effects
        if step[0] in ("req", "txn", "place") and isinstance(res, dict):
            results = res["results"] if isinstance(res["results"], list) else []
            for f, r in zip(res["facts"], results):
                if f["req"] in ("cancel", "update", "replace"):
                    was = before.get(f["order"])
                    now = omap(ob).get(f["order"])
                    ok_state = f["status_before"] == "Executable" and f["bet_before"] is not None
                    if r is True and not ok_state:
                        bad.append(("C03-request-accepted-in-flight", "step %d: %s accepted on %s while %s / bet %s" % (si, f["req"], f["order"], f["status_before"], f["bet_before"])))
                    if r is not True and r is not False and was is not None and now is not None:
                        keys = ("status", "log", "bet", "matched", "remaining", "complete", "live", "trade_status")
                        same_txn_touch = sum(1 for g in res["facts"] if g.get("order") == f["order"]) > 1
                        if not same_txn_touch and any(was[k_] != now[k_] for k_ in keys):
                            bad.append(("C03-rejected-request-side-effect", "step %d: rejected %s on %s changed the order" % (si, f["req"], f["order"])))
                    if r is not True and r is not False and not (isinstance(r, str) and r.startswith("EXC:OrderUpdateError")) and ok_state is False:
                        bad.append(("C03-rejected-without-error", "step %d: %s on %s (%s) returned %r instead of raising OrderUpdateError" % (si, f["req"], f["order"], f["status_before"], r)))
        # at most one operation in flight per order
        inflight = Counter()
        now = omap(ob)
        for p in ob.get("pending_packages", []) + ob.get("outstanding_calls", []):
            for nm in p[1]:
                if p[0] in ("place", "Place") and now.get(nm, {}).get("bet") is not None:
                    continue      # the placement is known to have happened (bet id streamed); only its HTTP response is outstanding
                inflight[nm] += 1
        for nm, n in inflight.items():
            if n > 1:
                bad.append(("C03-two-operations-in-flight", "step %d: order %s is in %d packages at once" % (si, nm, n)))
    return bad


def recount(ob):
    """per context 'strategy/selection': (set of trades placed, set of trades that still have an order not complete)"""
    out = {}
    for o in (ob["orders"] if ob else []):
        k = "%d/%s" % (o["strategy"], o["sel"])
        e = out.setdefault(k, (set(), set()))
        e[0].add(o["trade"])
        if not o["complete"]:
            e[1].add(o["trade"])
    return out


def c10(case, run, limits=None):
    bad = []
    limits = limits or case.get("limits")
    last_placed, last_reset, resets_seen = {}, {}, {}
    scripted = set()      # trades created by the script carry the cool-downs; adopted trades are created with none
    for si, step, prev, ob in steps_with_prev(case, run):
        if isinstance(ob["res"], dict) and "facts" in ob["res"]:
            for f in ob["res"]["facts"]:
                if f["req"] == "place" and not f.get("trade_known") and not any(o["trade"] == f["trade"] for o in (prev["orders"] if prev else [])):
                    scripted.add(f["trade"])
        if step[0] == "restart":
            last_placed, last_reset, resets_seen = {}, {}, {}
        res = ob["res"]
        # decisions of validate_order against a recount of the real orders
        if limits and step[0] == "place" and isinstance(res, dict) and res["facts"] and res["facts"][0]["req"] == "place" and isinstance(res["results"], list):
            f, r = res["facts"][0], res["results"][0]
            k = "%d/%s" % (f["strategy"], f["sel"])
            trades, live = recount(prev).get(k, (set(), set()))
            now = f["clock"]
            why = None
            if limits["multi"] and f["trade"] in live:
                why = None
            else:
                re_, pe_ = (now - last_reset[k]) if k in last_reset else None, (now - last_placed[k]) if k in last_placed else None
                lim_reset, lim_place = (limits["reset"], limits["place_reset"]) if f["trade"] in scripted else (0.0, 0.0)
                if re_ is not None and re_ < lim_reset:
                    why = "cool-down after a completed trade (%ss of %ss)" % (re_, lim_reset)
                elif pe_ is not None and pe_ < lim_place:
                    why = "cool-down after a placement (%ss of %ss)" % (pe_, lim_place)
                elif (len(trades) == limits["max_trades"] and f["trade"] not in trades) or len(trades) > limits["max_trades"]:
                    why = "max_trade_count %d reached" % limits["max_trades"]
                elif (len(live) == limits["max_live"] and f["trade"] not in live) or len(live) > limits["max_live"]:
                    why = "max_live_trade_count %d reached (%d trades still have a live order)" % (limits["max_live"], len(live))
            if r is True and why is not None:
                zero = ("cool-down" in why) and ((k in last_reset and now - last_reset[k] == 0 and limits["reset"] > 0) or (k in last_placed and now - last_placed[k] == 0 and limits["place_reset"] > 0))
                bad.append(("C10-cooldown-bypassed-at-zero-elapsed" if zero else "C10-limit-exceeded", "step %d: placement of %s accepted although %s" % (si, f["order"], why)))
            awaited0 = {nm for p in (prev or {}).get("pending_packages", []) + (prev or {}).get("outstanding_calls", []) for nm in p[1]}
            tr0 = {}
            for o in (prev["orders"] if prev else []):
                tr0.setdefault(o["trade"], []).append(o)
            excused0 = [t for t, os_ in tr0.items() if "%d/%s" % (os_[0]["strategy"], os_[0]["sel"]) == k and os_[0]["trade_status"] == "Complete"
                        and all(o["complete"] for o in os_) and any(o["o"] in awaited0 for o in os_)]
            if r is False and why is None and excused0:
                bad.append(("C10-reused-trade-awaits-response", "step %d: placement of %s refused: the context is still charged with re-used trade(s) %s whose new order completed through the stream before the response to its placement" % (si, f["order"], excused0)))
            elif r is False and why is None:
                bad.append(("C10-locked-out", "step %d: placement of %s refused although no limit applies: %d trades, %d with a live order, limits %s" % (si, f["order"], len(trades), len(live), limits)))
        # bookkeeping of the two clocks
        for k, c in ob["ctx"].items():
            kk = k[:-2] if k.endswith(".0") else k
            if c["resets"] != resets_seen.get(kk, 0):
                resets_seen[kk] = c["resets"]; last_reset[kk] = ob["clock"]
        if isinstance(res, dict) and "facts" in res and isinstance(res["results"], list):
            for f, r in zip(res["facts"], res["results"]):
                if f["req"] == "place" and r is True:
                    last_placed["%d/%s" % (f["strategy"], f["sel"])] = f["clock"]
        if step[0] == "stream":
            old = {o["o"] for o in prev["orders"]} if prev is not None else set()      # right after a restart nothing is known locally
            for o in ob["orders"]:
                if o["o"] not in old:
                    last_placed["%d/%s" % (o["strategy"], o["sel"])] = ob["clock"]
        by_ctx = {}
        trades = {}
        for o in ob["orders"]:
            trades.setdefault(o["trade"], []).append(o)
        for t, os_ in trades.items():
            k = "%d/%s" % (os_[0]["strategy"], os_[0]["sel"])
            live = any(not o["complete"] for o in os_)
            e = by_ctx.setdefault(k, {"trades": 0, "live": 0})
            e["trades"] += 1
            e["live"] += 1 if live else 0
            st = os_[0]["trade_status"]
            old_log = next((o["trade_log"] for o in (prev["orders"] if prev else []) if o["trade"] == t), [])
            if "Complete" in os_[0]["trade_log"][len(old_log):] and live and st == "Complete":
                bad.append(("C10-complete-with-live-order", "step %d: trade %s completed while order(s) %s are not complete" % (si, t, [o["o"] for o in os_ if not o["complete"]])))
            if st == "Complete" and live:
                continue          # a completed trade that the strategy re-used: it is charged as live (checked below) and completes again
            if st != "Complete" and not live:
                viol = [o["o"] for o in os_ if o["status"] == "Violation" and len(o["log"]) > 1]
                key = "C10-live-order-marked-violation" if viol else "C10-trade-not-completed"
                bad.append((key, "step %d: every order of trade %s is complete (%s) but the trade is %s" % (si, t, [(o["o"], o["status"]) for o in os_], st)))
        for k, e in by_ctx.items():
            c = ob["ctx"].get(k, ob["ctx"].get(k + ".0", {"trades": 0, "live": 0}))
            if c["trades"] != e["trades"]:
                bad.append(("C10-trade-count", "step %d: context %s counts %d trades, %d distinct trades were placed" % (si, k, c["trades"], e["trades"])))
            if c["live"] != e["live"]:
                # a completed trade that the strategy re-used: the new order completed through the stream while the response to its placement is
                # still outstanding - the trade is still marked Complete, so the completion of the order does not free the slot until the response
                awaited = {nm for p in ob.get("pending_packages", []) + ob.get("outstanding_calls", []) for nm in p[1]}
                excused = [t for t, os_ in trades.items() if "%d/%s" % (os_[0]["strategy"], os_[0]["sel"]) == k and os_[0]["trade_status"] == "Complete"
                           and all(o["complete"] for o in os_) and any(o["o"] in awaited for o in os_)]
                if excused and c["live"] == e["live"] + len(excused):
                    bad.append(("C10-reused-trade-awaits-response", "step %d: context %s is charged %d live trades but only %d have an order that is not complete: trade(s) %s had completed, were re-used for a new order, and that order completed through the order stream before the response to its placement: the trade is still marked Complete, so the slot stays charged until the response arrives" % (si, k, c["live"], e["live"], excused)))
                else:
                    bad.append(("C10-live-count", "step %d: context %s is charged %d live trades, %d trades still have an order that is not complete" % (si, k, c["live"], e["live"])))
    return bad


def c11(case, run):
    """quiescent end of the script: no package unsent, no call unanswered, the exchange's latest snapshot processed"""
    bad = []
    last = run[-1]
    if last["pending_packages"] or last["outstanding_calls"]:
        return [("C11-not-quiescent", "the script did not reach quiescence (generator)")]
    for si, d in enumerate(run):
        r = d.get("res")
        if isinstance(r, dict) and "book" in r and r.get("registered") and r["book"] != "CLOSED":
            if not r["registered_has_this_book"] or not r["handed_is_registered"]:
                bad.append(("C11-adopted-market-orphaned", "step %d: a market book was processed but the market registered with the framework - the one holding the orders, incl. those adopted from the order stream - %s; the strategies were handed %s" % (
                    si, "received it" if r["registered_has_this_book"] else "did not receive it (its market_book is unchanged)", "that market" if r["handed_is_registered"] else "a different Market object with an empty blotter")))
                break
    bybet = {b["id"]: b for b in last["exchange"]}
    seen_bets = Counter(o["bet"] for o in last["orders"] if o["bet"] is not None)
    for b, n in seen_bets.items():
        if n > 1:
            bad.append(("C11-adopted-twice", "bet %s is held by %d local orders" % (b, n)))
    for o in last["orders"]:
        b = bybet.get(o["bet"])
        mine = [x for x in last["exchange"] if x["ref"] == o["o"]]
        if b is None:
            if o["bet"] is not None:
                bad.append(("C11-unknown-bet", "order %s holds bet id %s the exchange never issued" % (o["o"], o["bet"])))
            elif mine and o["status"] == "Pending" and not o["async"]:
                bad.append(("C11-sync-timeout-never-picks-up-bet", "order %s stays Pending with no bet id while the exchange holds bet %s under its reference (placement answered TIMEOUT)" % (o["o"], mine[0]["id"])))
            elif mine:
                bad.append(("C11-bet-not-linked", "order %s (%s) never learnt its bet %s" % (o["o"], o["status"], mine[0]["id"])))
            elif not o["complete"] and o["status"] != "Pending":
                bad.append(("C11-no-bet-not-complete", "order %s is %s but the exchange holds no bet for it" % (o["o"], o["status"])))
            continue
        if o["status"] in TRANSIENT and o["o"] in outside_orders(case, run):
            continue
        if o["status"] in TRANSIENT:
            bad.append(("C11-transient-at-quiescence", "order %s is %s with nothing outstanding" % (o["o"], o["status"])))
            continue
        if (o["matched"], o["remaining"]) != (b["matched"], b["remaining"]):
            bad.append(("C11-sizes-differ", "order %s matched/remaining %s/%s, exchange %s/%s" % (o["o"], o["matched"], o["remaining"], b["matched"], b["remaining"])))
        if o["complete"] != b["complete"]:
            partial = any(s[0] == "req" and s[1] == "cancel" and s[3] is not None for s in case["steps"]) or any(s[0] == "txn" and any(r[0] == "req" and r[1] == "cancel" and r[3] is not None for r in s[1]) for s in case["steps"])
            if o["complete"] and not b["complete"] and "Cancelling" in o["log"] and partial:
                bad.append(("C11-partial-cancel-completes-order", "order %s was completed locally by a partial-cancel response that arrived after the stream had already shown the reduced size; bet %s still has %s live at the exchange" % (o["o"], b["id"], b["remaining"])))
            else:
                bad.append(("C11-completion-differs", "order %s complete=%s (%s), exchange complete=%s" % (o["o"], o["complete"], o["status"], b["complete"])))
        elif o["complete"] and o["live"]:
            bad.append(("C11-complete-in-live-list", "order %s is complete but still in the live list" % o["o"]))
    # ... and counts towards its strategy's live-trade accounting on the right runner (market, selection, handicap)
    for k, (trades, live) in recount(last).items():
        c = last["ctx"].get(k, {"trades": 0, "live": 0})
        viol = any(o["status"] == "Violation" for o in last["orders"] if "%d/%s" % (o["strategy"], o["sel"]) == k)
        if (c["trades"], c["live"]) != (len(trades), len(live)) and not viol:
            bad.append(("C11-accounting-differs", "runner context %s counts %d trades / %d live, the orders held locally give %d / %d (contexts: %s)" % (k, c["trades"], c["live"], len(trades), len(live), last["ctx"])))
    # every live bet of a known strategy is held by exactly one local order (adoption)
    for b in last["exchange"]:
        if isinstance(b["strategy"], int) and not b["complete"] and seen_bets.get(b["id"], 0) != 1:
            ref_order = [o for o in last["orders"] if o["o"] == b["ref"]]
            if ref_order and ref_order[0]["status"] == "Pending" and not ref_order[0]["async"]:
                continue      # reported above (sync TIMEOUT)
            bad.append(("C11-live-bet-not-tracked", "live bet %s (ref %s) is held by %d local orders" % (b["id"], b["ref"], seen_bets.get(b["id"], 0))))
        if not isinstance(b["strategy"], int) and seen_bets.get(b["id"], 0):
            bad.append(("C11-unknown-strategy-adopted", "bet %s of an unknown strategy was adopted" % b["id"]))
    return bad

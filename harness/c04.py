"""C04 — simulated order sizes are conserved."""
import random
from common import *
import simgen, simcheck, propcheck

PID = "C04"


def race_scenario(rng):
    """BACK/LAY order resting; partial cancel; a second request (partial cancel / replace / update) whose latency
    window contains a trade at the order's price, a suspension or a removal"""
    P = simgen.TICKS_BP
    i = rng.randrange(6, 20)
    side = rng.choice(["BACK", "LAY"])
    price = P[i]
    size = rng.choice([1000, 800, 1200, 500])
    t0 = 1_700_000_000_000
    def runner(trd, status="ACTIVE"):
        # book such that the order rests: BACK at price above the best back; LAY below the best lay
        atb = [[P[i - 2], 500]] if side == "BACK" else [[P[i - 4], 500]]
        atl = [[P[i + 4], 500]] if side == "BACK" else [[P[i + 2], 500]]
        return {"id": 1, "status": status, "adj": 1000, "atb": atb if status == "ACTIVE" else [], "atl": atl if status == "ACTIVE" else [], "trd": trd}
    other = {"id": 2, "status": "ACTIVE", "adj": 2000, "atb": [[30000, 500]], "atl": [[31000, 500]], "trd": []}
    x1 = rng.choice([100, 200, 300, 400])
    x2 = rng.choice([100, 200, 300, 400, 500])
    fill = rng.choice([0, 200, 400, 600, 800, 1600, 2400])       # traded (both sides) inside the window
    gap1 = rng.choice([30, 50, 100, 169, 170, 171])
    gap2 = rng.choice([1, 50, 100, 169, 170, 171, 200, 500])
    mid_event = rng.choice(["trade", "trade", "trade", "suspend", "remove", "none"])
    second = rng.choice(["cancel", "cancel", "replace", "update"])
    ups = [{"pt": t0, "runners": [runner([]), other]},
           {"pt": t0 + 200, "runners": [runner([]), other]},                 # placed at u0, executed here
           {"pt": t0 + 400, "runners": [runner([]), other]},                 # cancel x1 requested at u1? -> executed when due
           {"pt": t0 + 700, "runners": [runner([]), other]},
           {"pt": t0 + 1000, "runners": [runner([]), other]}]                # second request made here (u4)
    tv = [[price, fill]] if fill and mid_event == "trade" else []
    st, ver, rstat = "OPEN", 1, "ACTIVE"
    if mid_event == "suspend":
        st, ver = "SUSPENDED", 2
    if mid_event == "remove":
        rstat, ver = "REMOVED", 2
    ups.append({"pt": t0 + 1000 + gap1, "status": st, "version": ver, "runners": [runner(tv, rstat), other]})
    ups.append({"pt": t0 + 1000 + gap1 + gap2, "status": st if mid_event == "suspend" and rng.random() < 0.5 else "OPEN", "version": ver, "runners": [runner(tv, rstat), other]})
    ups.append({"pt": t0 + 3000, "version": ver, "runners": [runner(tv + ([[price, fill + 400]] if not tv else []), rstat) if rstat == "ACTIVE" else runner(tv, rstat), other]})
    ups.append({"pt": t0 + 4000, "version": ver, "runners": [runner(ups[-1]["runners"][0]["trd"], rstat), other]})
    for u in ups:
        u.setdefault("status", "OPEN"); u.setdefault("version", 1)
    acts = [{"s": 0, "m": 0, "u": 0, "acts": [["place", 1, 1, side, {"t": "L", "p": price, "s": size, "pt": rng.choice(["LAPSE", "PERSIST"]), "tif": None, "mf": None}, {"mv": None}]]},
            {"s": 0, "m": 0, "u": 2, "acts": [["cancel", 1, x1, {}]]}]
    if second == "cancel":
        acts.append({"s": 0, "m": 0, "u": 4, "acts": [["cancel", 1, x2, {}]]})
    elif second == "replace":
        acts.append({"s": 0, "m": 0, "u": 4, "acts": [["replace", 1, P[i + (1 if side == "BACK" else -1)], {"mv": None}]]})
    else:
        acts.append({"s": 0, "m": 0, "u": 4, "acts": [["update", 1, "PERSIST" if rng.random() < 0.5 else "LAPSE", {}]]})
    return {"config": {"place_latency": 0.12, "cancel_latency": 0.17, "update_latency": 0.15, "replace_latency": 0.28, "isolation": True},
            "clients": [{"bpe": True, "full_match": False, "limit": None, "min_val": False}],
            "strategies": [{"name": "s0", "client": 0}],
            "markets": [{"id": "1.100000001", "event": "20000001", "group": False, "type": "WIN", "bsp": True, "persist": True, "winners": 1, "updates": ups}],
            "script": acts}


def main():
    ck = Check(PID)
    rng = random.Random(seed())
    thorough = tier() == "thorough"
    if not simcheck.gen_status(ck):
        return ck.finish("generator failed")
    if not ck.build_props(["Model/SimCases.vo"]):
        coq_build(["Model/SimCases.vo"])
    n = 1600 if thorough else 300
    scs = [simgen.gen_scenario(rng, {"kinds": ["L"] * 9 + ["LOC", "MOC"], "p_manage": 0.6, "p_fok": 0.2}) for _ in range(n)]
    simcheck.run_family(ck, "whole_loop", scs, propcheck.c04, "C04", "loop", hyp=True)
    scs2 = [simgen.gen_scenario(rng, {"kinds": ["L"], "p_manage": 0.7, "p_susp": 0.3, "p_inplay": 0.2, "p_remove": 0.12, "min_upd": 8, "max_upd": 14}) for _ in range(n // 2)]
    simcheck.run_family(ck, "suspend_inplay_removal", scs2, propcheck.c04, "C04", "loop2", hyp=True)
    # structured family: a request in flight while the order is filled / lapsed / voided (the latency window races)
    scs3 = [race_scenario(rng) for _ in range(n // 2)]
    simcheck.run_family(ck, "requests_in_flight_races", scs3, propcheck.c04, "C04", "race", hyp=True)
    # the same loop with every order object built when the strategy is added, i.e. before FlumineSimulation.run() starts (an order caches
    # whether it is simulated; Transaction.place_order -> order.update_client refreshes it at placement time)
    scs4 = [simgen.gen_scenario(rng, {"kinds": ["L"] * 9 + ["LOC", "MOC"], "p_manage": 0.6, "p_fok": 0.2}) for _ in range(n // 3)]
    for sc in scs4:
        for st in sc["strategies"]:
            st["precreate"] = True
    simcheck.run_family(ck, "orders_built_before_the_run", scs4, propcheck.c04, "C04", "pre", hyp=True)
    return ck.finish("whole-loop scenarios on the real FlumineSimulation (book changes, trades, suspend/re-open with and without version change, turn in-play with BSP reconciliation, runner removal, closure) x scripts of place/cancel (full, partial, larger than the remainder)/replace/update at any timing x plain/fill-or-kill/three persistence types x best-price execution on/off x full-match; order objects built inside the callback or before the run starts; buckets sampled at every strategy call; compared with the Coq model (both tie-breaks) and checked by an independent conservation checker")


def replay(path):
    print(open(path).read()); return 0

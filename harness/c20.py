"""C20 — market closure is processed once, with results, for the right strategies."""
import json, random, copy
from common import *
import simgen

PID = "C20"
HDR = "From V Require Import Model.Num Model.Closure Model.C20Cases.\nOpen Scope Z_scope.\n"
CST = {"OPEN": "CsOpen", "SUSPENDED": "CsSuspended", "CLOSED": "CsClosed"}


def mid_num(mid):
    return int(mid.split(".")[1])


def coq_mobs(x):
    return "None" if x is None else "(Some (%s, %s, %s, %s))" % (cb(x["closed"]), cb(x["flags"]), zl(x["ctx"]), cb(x["mw"]))


def main():
    ck = Check(PID)
    rng = random.Random(seed())
    thorough = tier() == "thorough"
    if not ck.build_props(["Model/C20Cases.vo"]):
        coq_build(["Model/C20Cases.vo"])
    n = 600 if thorough else 150

    # ---- live framework
    cases = []
    for _ in range(n):
        mids = ["1.10%d" % i for i in range(1, rng.randrange(2, 5))]
        strategies = []
        for _ in range(rng.randrange(1, 4)):
            strategies.append({"empty": True} if rng.random() < 0.3 else {"markets": sorted(rng.sample(mids, rng.randrange(1, len(mids) + 1)))})
        steps = []
        for _ in range(rng.randrange(3, 16)):
            r = rng.random()
            if r < 0.55:
                steps.append(["book", rng.choice(mids), rng.choice(["OPEN", "OPEN", "SUSPENDED", "CLOSED", "CLOSED"])])
            elif r < 0.85:
                steps.append(["advance", rng.choice([1, 60, 1800, 3599, 3600, 3601, 7200])])
            else:
                steps.append(["cleared", rng.choice(mids)])
        cases.append({"strategies": strategies, "steps": steps})
    outs = run_impl_parallel("livelib", [{"cases": ch} for ch in chunked(cases, 25)])
    res = [r for o in outs for r in o["out"]]
    rows = []
    for c, r in zip(cases, res):
        mids = sorted({s[1] for s in c["steps"] if s[0] in ("book", "cleared")})
        streams = r[0]["streams"] if r else {}
        # stream -> filter: reconstruct from strategies subscribed to it
        steps_c, exp = [], []
        for st, ob in zip(c["steps"], r):
            if st[0] == "advance":
                steps_c.append("[EAdvance %s]" % z(st[1]))
            elif st[0] == "cleared":
                steps_c.append("[EWorkerCleared %s]" % z(mid_num(st[1])))
            else:
                evs = []
                for sid, subs in ob["streams"].items():
                    flt = c["strategies"][subs[0]]
                    if not flt.get("empty") and st[1] not in flt["markets"]:
                        continue
                    ss = list(subs)
                    if st[2] == "CLOSED":
                        ss = [i for i, sp in enumerate(c["strategies"]) if i in subs or sp.get("empty")]
                    evs.append("(EBook %s %s %s)" % (z(mid_num(st[1])), CST[st[2]], zl(ss)))
                steps_c.append(cl(evs))
            cbs = cl("(%s, %s, %s)" % (z(0 if l[0] == "book" else 1), z(l[1]), z(mid_num(l[2]))) for l in ob["log"] if l[0] in ("book", "closed"))
            exp.append("(%s, %s)" % (cbs, cl(coq_mobs(ob["markets"][m]) for m in mids)))
        rows.append("(%s, %s, %s)" % (cl(steps_c), zl(mid_num(m) for m in mids), cl(exp)))
    bad = []
    for k, o in enumerate(coq_eval("c20live", HDR, ["Definition cases := %s.\nEval vm_compute in bad_idx live_ok cases.\n" % cl(ch) for ch in chunked(rows, 40)])):
        bad += [k * 40 + x for x in parse_nlist(parse_evals(o)[0])]
    nclosed = sum(1 for c in cases for s in c["steps"] if s[0] == "book" and s[2] == "CLOSED")
    # simulation with listener filters: a market that has been in play longer than `max_inplay_seconds` (its later OPEN updates are filtered out) is
    # still closed once: the closing update reaches the framework, the closed-market callback fires, the market is marked closed
    lfs = []
    for _ in range(24 if thorough else 8):
        t0 = 1_700_000_000_000
        lim = rng.choice([1, 5, 30])
        def rrs(stt=None):
            return [{"id": 1, "status": stt[0] if stt else "ACTIVE", "adj": 1000, "atb": [] if stt else [[20000, 500]], "atl": [] if stt else [[20200, 500]], "trd": []},
                    {"id": 2, "status": stt[1] if stt else "ACTIVE", "adj": 2000, "atb": [] if stt else [[30000, 500]], "atl": [] if stt else [[31000, 500]], "trd": []}]
        seq = [("OPEN", False, 0), ("OPEN", False, 1000), ("OPEN", True, 2000), ("OPEN", True, 2000 + 500 * lim), ("OPEN", True, 2000 + 3000 * lim),
               (rng.choice(["SUSPENDED", "OPEN"]), True, 2000 + 5000 * lim), ("CLOSED", True, 2000 + 9000 * lim)]
        ups = [{"pt": t0 + dt, "status": stt, "version": 1 + k, "inplay": ip, "bsp_rec": False, "delay": 0, "runners": rrs(("WINNER", "LOSER") if stt == "CLOSED" else None)} for k, (stt, ip, dt) in enumerate(seq)]
        lfs.append({"config": {"place_latency": 0.12, "cancel_latency": 0.17, "update_latency": 0.15, "replace_latency": 0.28, "isolation": True},
                    "clients": [{"bpe": True, "full_match": False, "limit": None, "min_val": False}],
                    "strategies": [{"name": "s0", "client": 0, "markets": [0], "listener_kwargs": {"max_inplay_seconds": lim}}],
                    "markets": [{"id": "1.100000001", "event": "20000001", "group": False, "type": "WIN", "bsp": False, "persist": True, "winners": 1, "updates": ups, "img": False}],
                    "script": [{"s": 0, "m": 0, "u": 0, "acts": [["place", 1, 1, "BACK", {"t": "L", "p": 20000, "s": 200, "pt": "LAPSE", "tif": None, "mf": None}, {"mv": None}]]}]})
    lfo = run_impl("simlib", {"scenarios": [simgen.to_impl(x) for x in lfs], "observe": "all"})["out"]
    lfbad = []
    for i, io in enumerate(lfo):
        closed_calls = [c for c in io["calls"] if c[1] == "closed"]
        stt = io["markets"].get("1.100000001")
        if io.get("error") or len(closed_calls) != 1 or stt is None or not stt["closed"]:
            lfbad.append((i, "closed-market callbacks %d (expected 1), market state %s, error %s" % (len(closed_calls), stt, io.get("error"))))
    ck.family("closure_of_a_market_beyond_max_inplay_seconds", len(lfs), len(lfs), [], [i for i, _ in lfbad])
    for i, why in lfbad[:1]:
        ck.fail("C20-sim", "simulation with listener_kwargs max_inplay_seconds: the market's closing update must still be processed once - " + why, {"scenario": lfs[i], "how": "harness/impl/simlib.py"})
    # the two "cleared" flags of a market are independent, also after a re-open: noting that a client's cleared ORDERS were fetched must not make
    # the cleared-market SUMMARY look fetched (first closure, second closure of a re-opened market, repeated CLOSED books)
    fcases = []
    for tail in (["CLOSED"], ["CLOSED", "OPEN", "CLOSED"], ["CLOSED", "CLOSED"], ["CLOSED", "OPEN", "OPEN", "CLOSED"], ["CLOSED", "SUSPENDED", "CLOSED"]):
        steps = [["book", "1.101", "OPEN"]]
        for k, stt in enumerate(tail):
            if stt == "CLOSED" and k > 0 and tail[k - 1] == "CLOSED":
                pass
            steps.append(["book", "1.101", stt])
            if stt == "CLOSED" and (k + 1 == len(tail) or tail[k + 1] != "CLOSED"):
                if k + 1 < len(tail):
                    steps.append(["cleared", "1.101"])
        steps.append(["cleared_orders", "1.101"])
        fcases.append({"strategies": [{"markets": ["1.101"]}], "steps": steps})
    fres = run_impl("livelib", {"job": "closure", "cases": fcases})["out"]
    fbad2 = [i for i, r in enumerate(fres) if r[-1]["markets"]["1.101"] is not None and (r[-1]["markets"]["1.101"]["flags_orders"] != ["u"] or r[-1]["markets"]["1.101"]["flags_market"] != [])]
    ck.family("cleared_flags_are_independent", len(fcases), len(fcases), [], fbad2)
    for i in fbad2[:1]:
        ck.fail("C20-cleared-flags", "after the last closure the worker noted the client's cleared ORDERS as fetched; the market's flags are orders_cleared=%s market_cleared=%s (the cleared-market summary would never be requested)" % (
            fres[i][-1]["markets"]["1.101"]["flags_orders"], fres[i][-1]["markets"]["1.101"]["flags_market"]), {"case": fcases[i], "how": "harness/impl/livelib.py job closure"})
    ck.family("live_framework_closures", len(cases), len(set(rows)), bad, bad, dist={"steps": sum(len(c["steps"]) for c in cases), "closing_updates": nclosed},
              samples=[{"family": "live", "case": cases[0], "impl_first_steps": res[0][:2]}])
    for i in bad[:3]:
        ck.fail("C20-live", "live framework: closed-market callbacks / closed flag / re-open reset / removal after more than an hour / released accounting differ from the model of the property",
                {"case": cases[i], "impl": res[i], "how": "harness/impl/livelib.py run_live_closure on a real Flumine"})

    # ---- simulation
    scs = []
    for _ in range(n):
        # half of the runs replay their markets TOGETHER (one event group, overlapping times): a strategy's runner contexts of different markets
        # are then created interleaved, and each market is released while the others are still alive
        together = rng.random() < 0.5
        s = simgen.gen_scenario(rng, dict({"nmarkets": [1, 2, 3], "nstrats": [1, 2, 3], "p_close": 0.0, "max_upd": 7, "no_remove": True, "p_remove": 0.0, "p_inplay": 0.0},
                                          **({"nmarkets": [2, 3], "group": True, "same_time": True, "p_place": 0.8, "min_upd": 5} if together else {})))
        s["clients"] = s["clients"] * 1
        for m in s["markets"]:
            last = m["updates"][-1]
            tail = rng.choice([[], ["CLOSED"], ["CLOSED", "CLOSED"], ["CLOSED", "OPEN", "CLOSED"], ["CLOSED", "OPEN"], ["CLOSED", "OPEN", "OPEN", "CLOSED", "CLOSED"]])
            pt = last["pt"]
            for stt in tail:
                pt += rng.choice([100, 1000, 5000])
                u = copy.deepcopy(last); u["pt"] = pt; u["status"] = stt; u["version"] = last["version"] + 1
                if stt == "CLOSED":
                    w = rng.randrange(len(u["runners"]))          # repeated closes may carry a different result (re-settlement)
                    for i, r in enumerate(u["runners"]):
                        r["status"] = "WINNER" if i == w else "LOSER"; r["atb"] = []; r["atl"] = []
                m["updates"].append(u)
        if rng.random() < 0.15:     # a market whose very first update is CLOSED (never seen open)
            m = s["markets"][-1]
            u = copy.deepcopy(m["updates"][0]); u["status"] = "CLOSED"; u["pt"] -= 1000
            m["updates"].insert(0, u)
            for e in s["script"]:
                if e["m"] == len(s["markets"]) - 1:
                    e["u"] += 1
        # each strategy subscribes to a subset of the markets (strategy 0 to all)
        for i, sp in enumerate(s["strategies"]):
            sp["markets"] = list(range(len(s["markets"]))) if i == 0 else sorted(rng.sample(range(len(s["markets"])), rng.randrange(1, len(s["markets"]) + 1)))
        s["script"] = [e for e in s["script"] if e["m"] in s["strategies"][e["s"]]["markets"]]
        if rng.random() < 0.4:
            s["clients"].append(dict(s["clients"][0]))
        scs.append(s)
    souts = run_impl_parallel("simlib", [{"scenarios": [simgen.to_impl(s) for s in ch], "observe": "all"} for ch in chunked(scs, 25)], timeout=3600)
    simpl = [r for o in souts for r in o["out"]]
    srows = []
    for sc, io in zip(scs, simpl):
        mindex = {m["id"]: k for k, m in enumerate(sc["markets"])}
        evs = []
        snaps = {(o["m"], o["pt"]): o for o in io["obs"] if o["s"] == 0}
        for mi, u in simgen.event_order(sc):
            upd = sc["markets"][mi]["updates"][u]
            stt = upd["status"]
            subs = [i for i, sp in enumerate(sc["strategies"]) if mi in sp["markets"]]
            sn = snaps.get((sc["markets"][mi]["id"], upd["pt"]))
            evs.append("(EBook %s %s %s, %s)" % (z(mi), CST[stt], zl(subs), cb(bool(sn and sn["orders"]))))
        has_orders = sorted({mindex[o["market"]] for o in io["final"]})
        ecb = cl("(1, %s, %s)" % (z(c[0]), z(mindex[c[2]])) for c in io["calls"] if c[1] == "closed")
        eev = []
        for e in io["events"]:
            if e[0] == "cleared_orders_meta":
                pass
        # cleared events in order: the meta event carries no market id in our capture; rebuild the sequence from the
        # logging control: cleared_orders_meta (if orders) then one cleared_market per client, then closed_market
        seq, cur = [], []
        for e in io["events"]:
            if e[0] == "cleared_orders_meta":
                cur.append(("meta",))
            elif e[0] == "cleared_market":
                cur.append(("cm", mindex[e[1]]))
            elif e[0] == "closed_market":
                m = mindex[e[1]]
                cm = 0
                for x in cur:
                    if x[0] == "meta":
                        seq.append("(2, 0, %s)" % z(m))
                    else:
                        seq.append("(3, %s, %s)" % (z(cm), z(x[1]))); cm += 1
                cur = []
        final = []
        for mi, m in enumerate(sc["markets"]):
            st = io["markets"].get(m["id"])
            if st is None:
                final.append("None")
            else:
                ctx = [i for i, inv in enumerate(io["invested"]) if m["id"] in inv]
                final.append("(Some (%s, false, %s, %s))" % (cb(st["closed"]), zl(ctx), cb(m["id"] in io["mw_markets"])))
        srows.append("(%s, %s, %s, (%s, %s, %s))" % (z(len(sc["clients"])), cl(evs), zl(range(len(sc["markets"]))), ecb, cl(seq), cl(final)))
    sbad = []
    for k, o in enumerate(coq_eval("c20sim", HDR, ["Definition cases := %s.\nEval vm_compute in bad_idx sim_ok cases.\n" % cl(ch) for ch in chunked(srows, 40)])):
        sbad += [k * 40 + x for x in parse_nlist(parse_evals(o)[0])]
    ck.family("simulation_closures", len(scs), len(set(srows)), sbad, sbad,
              dist={"closing_updates": sum(1 for s in scs for m in s["markets"] for u in m["updates"] if u["status"] == "CLOSED"),
                    "first_update_closed": sum(1 for s in scs if s["markets"][-1]["updates"][0]["status"] == "CLOSED"), "two_clients": sum(1 for s in scs if len(s["clients"]) > 1)},
              samples=[{"family": "sim", "events": simpl[0]["events"][:4], "closed_calls": [c for c in simpl[0]["calls"] if c[1] == "closed"][:3]}])
    for i in sbad[:3]:
        ck.fail("C20-sim", "simulation: closed-market callbacks per closing update / cleared-orders report / cleared-market summaries per client / closed flag / released accounting differ from the model of the property",
                {"scenario": scs[i], "closed_calls": [c for c in simpl[i]["calls"] if c[1] == "closed"], "events": simpl[i]["events"], "markets": simpl[i]["markets"], "invested": simpl[i]["invested"], "mw": simpl[i]["mw_markets"]})
    # every order of the market carries the runner result of the closing update it is handed with
    rbad = []
    for i, (sc, io) in enumerate(zip(scs, simpl)):
        mindex = {m["id"]: k for k, m in enumerate(sc["markets"])}
        for o in io["obs"]:
            if o["cb"] != "closed":
                continue
            upd = next(u for u in sc["markets"][mindex[o["m"]]]["updates"] if u["pt"] == o["pt"] and u["status"] == "CLOSED")
            st = {r["id"]: r["status"] for r in upd["runners"]}
            for x in o["orders"]:
                if x["runner_status"] != st.get(x["sel"]):
                    rbad.append(i); break
    rbad = sorted(set(rbad))
    ck.family("results_on_orders_at_close", sum(1 for io in simpl for o in io["obs"] if o["cb"] == "closed"), len(scs), [], rbad)
    for i in rbad[:2]:
        ck.fail("C20-results", "at a closing update an order does not carry the runner result of THAT update (e.g. a repeated close with a different result)", {"scenario": scs[i]})
    # handicap lines: one selection id listed on several handicap lines that settle differently - each order gets the result of ITS line
    hscs = []
    for _ in range(24 if thorough else 8):
        t0 = 1_700_000_000_000
        lines = [(5001, -150), (5001, -50), (5001, 50), (5002, 150), (5002, 50), (5002, -50)]
        rng.shuffle(lines)
        res = {ln: rng.choice(["WINNER", "LOSER"]) for ln in lines}
        if len(set(res.values())) < 2:
            res[lines[0]] = "WINNER"; res[lines[-1]] = "LOSER"
        def runners(final):
            return [{"id": sel, "hc": hc / 100, "status": (res[(sel, hc)] if final else "ACTIVE"), "adj": None, "atb": [] if final else [[19000, 500]], "atl": [] if final else [[20000, 500]], "trd": []} for sel, hc in lines]
        ups = [{"pt": t0 + 1000 * k, "status": "OPEN", "version": 1, "runners": runners(False)} for k in range(4)] + [{"pt": t0 + 5000, "status": "CLOSED", "version": 2, "runners": runners(True)}]
        picks = rng.sample(lines, rng.randrange(2, 5))
        acts = [{"s": 0, "m": 0, "u": 0, "acts": [["place", k + 1, sel, "BACK", {"t": "L", "p": 20000, "s": 200, "pt": "LAPSE", "tif": None, "mf": None}, {"mv": None, "hc": hc / 100}] for k, (sel, hc) in enumerate(picks)]}]
        hscs.append({"config": {"place_latency": 0.12, "cancel_latency": 0.17, "update_latency": 0.15, "replace_latency": 0.28, "isolation": True},
                     "clients": [{"bpe": True, "full_match": False, "limit": None, "min_val": False}], "strategies": [{"name": "s0", "client": 0}],
                     "markets": [{"id": "1.100000009", "event": "20000009", "group": False, "type": "ASIAN_HANDICAP", "bsp": False, "persist": True, "winners": 1, "updates": ups}],
                     "script": acts, "_picks": picks, "_res": {"%d/%d" % k: v for k, v in res.items()}})
    houts = run_impl_parallel("simlib", [{"scenarios": [simgen.to_impl({k: v for k, v in x.items() if not k.startswith("_")}) for x in ch], "observe": "all"} for ch in chunked(hscs, 8)], timeout=1800)
    himpl = [r for o in houts for r in o["out"]]
    hbad = []
    for i, (sc, io) in enumerate(zip(hscs, himpl)):
        if io.get("error"):
            hbad.append((i, "the run aborted: %s" % str(io["error"])[:120])); continue
        placed = {"o%d" % (k + 1): ln for k, ln in enumerate(sc["_picks"])}
        closed = [o for o in io["obs"] if o["cb"] == "closed"]
        if not closed:
            hbad.append((i, "no closed-market callback")); continue
        for x in closed[-1]["orders"]:
            ln = placed.get(x["o"])
            if ln is not None and x["runner_status"] != sc["_res"]["%d/%d" % ln]:
                hbad.append((i, "order %s placed on line %s has runner_status %s at the close, its line settled %s" % (x["o"], ln, x["runner_status"], sc["_res"]["%d/%d" % ln]))); break
    ck.family("handicap_lines_results", len(hscs), len(hscs), [], sorted({i for i, _ in hbad}), dist={"orders": sum(len(x["_picks"]) for x in hscs), "lines_per_market": 6})
    for i, why in hbad[:2]:
        ck.fail("C20-results", "handicap market: " + why, {"scenario": {k: v for k, v in hscs[i].items() if not k.startswith("_")}, "results": hscs[i]["_res"]})
    # the corner "close of a market never seen open": reproduced on the implementation, reported as a listed finding
    for sc, io in zip(scs, simpl):
        m = sc["markets"][-1]
        if m["updates"][0]["status"] == "CLOSED":
            got = [c for c in io["calls"] if c[1] == "closed" and c[2] == m["id"] and c[3] == m["updates"][0]["pt"]]
            if not got:
                ck.fail("C20-sim-close-of-unseen-market", "in simulation a CLOSED update for a market never seen open is dropped: no closed-market callback, no cleared summary", {"market": m["id"], "first_update": m["updates"][0]["status"]})
                break
    return ck.finish("live: random scripts of books (OPEN/SUSPENDED/CLOSED incl. repeated closes, close-reopen-close, close first), clock advances around 3600 s and worker-cleared flags over 1-3 markets and 1-3 strategies (subscribed / not / empty filter) on a real Flumine fed through a betfairlightweight listener; simulation: whole runs with 1-3 markets, repeated closes, re-opens, first-update-CLOSED, 1-3 strategies with different subscriptions, 1-2 clients; callbacks, logging-control events, closed flags, runner accounting and middleware state compared in Coq with the model")


def replay(path):
    print(open(path).read()); return 0

"""C02 implementation driver: real Market / Transaction / orders / packages; controls are an oracle (a real BaseControl
subclass that refuses when told to)."""
import sys, json, types
from lib import *
from flumine.markets.market import Market
from flumine.clients.simulatedclient import SimulatedClient
from flumine.clients.clients import ExchangeType
from flumine.controls import BaseControl
from flumine.exceptions import OrderError, OrderUpdateError, ControlError
config.simulated = True


class Oracle(BaseControl):
    NAME = "ORACLE"
    refuse = False

    def _validate(self, order, package_type):
        if Oracle.refuse:
            self._on_error(order, "scripted refusal")


def run_case(c):
    packages = []
    fl = types.SimpleNamespace(trading_controls=[], log_control=lambda e: None, process_order_package=None)
    fl.process_order_package = lambda p: packages.append([p.package_type.value, p._market_version, [names[id(o)] for o in p._orders], len(p._orders), p.bet_delay])
    fl.trading_controls.append(Oracle(fl))
    client = SimulatedClient(username="c0")
    client.execution = types.SimpleNamespace(EXCHANGE=ExchangeType.SIMULATED)
    other = SimulatedClient(username="c1")
    other.execution = types.SimpleNamespace(EXCHANGE=ExchangeType.SIMULATED)
    mb = types.SimpleNamespace(publish_time=None, bet_delay=0, runners=[], status="OPEN")
    market = Market(fl, "1.1", mb)
    strat = S(market_filter={}, name="s", max_trade_count=10 ** 9, max_live_trade_count=10 ** 9)
    names, orders = {}, {}
    for d in c["orders"]:
        o = make_order(strat, "1.1", {"sel": 1, "side": "BACK", "kind": d["kind"], "status": d["status"], "matched": 0, "avg": 0, "rem": d["rem"] or 500, "price": d["price"], "liab": 1000})
        if d["rem"] == 0 and d["kind"] == "L":
            o.simulated.size_cancelled = 5.0
        if d["kind"] == "L":
            o.order_type.persistence_type = d["persist"]
        o.bet_id = "B%d" % d["name"] if d["bet"] else None
        o.client = other if d.get("other_client") else client
        o._simulated = True
        if d["inb"]:
            market.blotter[o.id] = o
        names[id(o)] = d["name"]; orders[d["name"]] = o
    results = []
    txn = [None]

    def do(it):
        Oracle.refuse = not it["ok"]
        o = orders[it["name"]]
        tgt = txn[0] if txn[0] is not None else market
        k = it["k"]
        if k == "place":
            kw = dict(market_version=it["mv"], execute=it["execute"], force=it["force"])
            if txn[0] is None:
                kw["client"] = client
            return tgt.place_order(o, **kw)
        if k == "cancel":
            return tgt.cancel_order(o, None if it["red"] is None else it["red"] / 100, force=it["force"])
        if k == "update":
            return tgt.update_order(o, it["persist"], force=it["force"])
        return tgt.replace_order(o, it["price"] / 100, market_version=it["mv"], force=it["force"])

    def code(fn):
        try:
            r = fn()
            return 0 if r else 1
        except OrderUpdateError:
            return 2
        except OrderError as e:
            return 3 if "does not match" in str(e) else 4

    i = 0
    its = c["items"]
    while i < len(its):
        it = its[i]
        if it["k"] == "begin":
            # run the block as real `with market.transaction() as t:` code
            j = i + 1
            block = []
            while its[j]["k"] != "end":
                block.append(its[j]); j += 1
            try:
                with market.transaction(client=client) as t:
                    txn[0] = t
                    for b in block:
                        if b["k"] == "exec":
                            t.execute()
                        elif b.get("escape"):
                            r = do(b)                    # the exception (if any) leaves the with-block
                            results.append(0 if r else 1)
                        else:
                            results.append(code(lambda: do(b)))
            except OrderUpdateError:
                results.append(2)
            except OrderError as e:
                results.append(3 if "does not match" in str(e) else 4)
            txn[0] = None
            i = j + 1
        else:
            results.append(code(lambda: do(it)))
            i += 1
    final = []
    for d in c["orders"]:
        o = orders[d["name"]]
        rc = strat.get_runner_context(*o.lookup)
        red = o.update_data.get("size_reduction")
        final.append([d["name"], STATUS_NAME.get(o.status), o.id in market.blotter._orders, o.trade.id in rc.trades,
                      None if red is None else int(round(red * 100)), None if o.update_data.get("new_price") is None else int(round(o.update_data["new_price"] * 100)),
                      getattr(o.order_type, "persistence_type", "LAPSE")])
    return {"results": results, "packages": packages, "final": final}


if __name__ == "__main__":
    j = json.load(sys.stdin)
    print(json.dumps({"out": [run_case(c) for c in j["cases"]]}))

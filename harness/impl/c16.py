"""C16 implementation driver: the three Blotter exposure functions on real orders."""
import sys, json, types
from lib import *
config.simulated = True


def run_case(c):
    strat = S(market_filter={}, name="s")
    other = S(market_filter={}, name="other")
    bl = Blotter("1.1")
    orders = []
    for d in c["orders"]:
        o = make_order(other if d.get("other") else strat, "1.1", d)
        bl[o.id] = o
        orders.append(o)
    extra = [make_order(strat, "1.1", d) for d in c.get("extra", [])]
    def ref(r):
        if r is None:
            return None
        return orders[r[1]] if r[0] == "o" else extra[r[1]]
    out = []
    for q in c["queries"]:
        if q["f"] == "sel":
            lookup = ("1.1", q["sel"], q.get("hc", 0))
            e = bl.get_exposures(strat, lookup, exclusion=ref(q.get("ex")), new_order=ref(q.get("new")))
            six = [f2c(e[k]) for k in ("matched_profit_if_win", "matched_profit_if_lose", "worst_potential_unmatched_profit_if_win",
                                      "worst_potential_unmatched_profit_if_lose", "worst_possible_profit_on_win", "worst_possible_profit_on_lose")]
            se = f2c(bl.selection_exposure(strat, lookup))
            out.append({"six": six, "selexp": se})
        else:
            mb = types.SimpleNamespace(number_of_active_runners=q["active"], number_of_winners=q["k"])
            m = bl.market_exposure(strat, mb, exclusion=ref(q.get("ex")), new_order=ref(q.get("new")))
            out.append({"mkt": f2c(m)})
    return out


if __name__ == "__main__":
    j = json.load(sys.stdin)
    print(json.dumps({"out": [run_case(c) for c in j["cases"]]}))

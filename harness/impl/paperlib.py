"""Paper trading: a LIVE Flumine with a BetfairClient(paper_trade=True) - SimulatedExecution in its thread pool (it sleeps the place latency),
the simulation middleware and the simulated order books, driven by real MarketBook resources.

job "arrival": {"cases": [{"bpe": bool, "runners": [sel..], "book1": {sel: {"atb": [[p, s]..], "atl": [[p, s]..]}},
                           "book2": {sel: {"atb": .., "atl": ..} | {"removed": adj}}, "gap_ms": n,
                           "orders": [{"name": str, "sel": n, "side": "BACK"|"LAY", "price": x, "size": x}]}]}
  the strategy places the orders at book1 (market.place_order); gap_ms later (well inside the place latency) book2 is processed; the thread pool is
  joined.  Output per case: the orders as they are afterwards and the book the market held when each order ARRIVED at the simulated exchange.
"""
import sys, json, time, logging
from unittest import mock
logging.disable(logging.CRITICAL)
from betfairlightweight.streaming.cache import MarketBookCache
from flumine import Flumine, BaseStrategy, clients
from flumine.events.events import MarketBookEvent
from flumine.order.trade import Trade
from flumine.order.ordertype import LimitOrder
from flumine.simulation.simulatedorder import SimulatedOrder

MARKET_ID = "1.123456789"


def market_definition(runners, removed=None, version=1):
    removed = removed or {}
    return {"bspMarket": False, "turnInPlayEnabled": True, "persistenceEnabled": True, "marketBaseRate": 5.0, "eventId": "32000000", "eventTypeId": "7",
            "numberOfWinners": 1, "bettingType": "ODDS", "marketType": "WIN", "marketTime": "2033-11-14T23:00:00.000Z", "suspendTime": "2033-11-14T23:00:00.000Z",
            "bspReconciled": False, "complete": True, "inPlay": False, "crossMatching": True, "runnersVoidable": False,
            "numberOfActiveRunners": len(runners) - len(removed), "betDelay": 0, "status": "OPEN",
            "runners": [dict({"status": "REMOVED", "adjustmentFactor": removed[r], "removalDate": "2033-11-14T22:00:00.000Z"} if r in removed else {"status": "ACTIVE", "adjustmentFactor": 10.0},
                             sortPriority=i + 1, id=r) for i, r in enumerate(runners)],
            "regulators": ["MR_INT"], "countryCode": "GB", "discountAllowed": True, "timezone": "Europe/London", "openDate": "2033-11-14T23:00:00.000Z",
            "version": version, "name": "paper", "eventName": "paper"}


class Placer(BaseStrategy):
    def start(self, flumine):
        self.placed = {}

    def check_market_book(self, market, market_book):
        return market_book.status == "OPEN"

    def process_market_book(self, market, market_book):
        if self.placed or not self.todo:
            return
        for spec in self.todo:
            trade = Trade(market.market_id, spec["sel"], 0, self)
            order = trade.create_order(side=spec["side"], order_type=LimitOrder(price=spec["price"], size=spec["size"]))
            ok = market.place_order(order)
            self.placed[spec["name"]] = (order, ok)


def run_arrival(case):
    betting_client = mock.Mock(lightweight=False, username="paper")
    client = clients.BetfairClient(betting_client, paper_trade=True, best_price_execution=case.get("bpe", True), min_bet_validation=False)
    fw = Flumine(client=client)
    st = Placer(market_filter={"marketIds": [MARKET_ID]}, max_order_exposure=10 ** 6, max_selection_exposure=10 ** 6, max_live_trade_count=10 ** 6, max_trade_count=10 ** 6)
    st.todo = case["orders"]
    fw.add_strategy(st)
    st.start(fw)
    stream_id = st.stream_ids[0]
    arrival = {}
    real_place = SimulatedOrder.place

    def spy_place(self, order_package, market_book, instruction, bet_id):
        market = fw.markets.markets[order_package.market_id]
        arrival[self.order.id] = market.market_book.publish_time_epoch
        return real_place(self, order_package, market_book, instruction, bet_id)

    runners = case["runners"]
    now = int(time.time() * 1000)
    cache = MarketBookCache(MARKET_ID, now, False, False, True)
    cache.update_cache({"id": MARKET_ID, "marketDefinition": market_definition(runners), "rc": [dict({"id": int(s)}, **lad) for s, lad in case["book1"].items()]}, now, True)
    out = {"book1_pt": now, "error": None}
    try:
        with mock.patch.object(SimulatedOrder, "place", spy_place):
            fw._process_market_books(MarketBookEvent([cache.create_resource(stream_id, snap=True)]))
            time.sleep(case.get("gap_ms", 30) / 1000.0)
            now2 = now + case.get("gap_ms", 30)
            removed = {int(s): b["removed"] for s, b in case["book2"].items() if "removed" in b}
            upd = {"id": MARKET_ID, "rc": []}
            if removed:
                upd["marketDefinition"] = market_definition(runners, removed, version=2)
            for s, b in case["book2"].items():
                if "removed" in b:
                    old = case["book1"].get(s, {})
                    upd["rc"].append({"id": int(s), "atb": [[p, 0] for p, _ in old.get("atb", [])], "atl": [[p, 0] for p, _ in old.get("atl", [])]})
                else:
                    old = case["book1"].get(s, {})
                    rc = {"id": int(s)}
                    for k in ("atb", "atl"):
                        new = {p: sz for p, sz in b.get(k, [])}
                        rc[k] = [[p, new.get(p, 0)] for p in sorted(set(new) | {p for p, _ in old.get(k, [])})]
                    upd["rc"].append(rc)
            cache.update_cache(upd, now2, True)
            fw._process_market_books(MarketBookEvent([cache.create_resource(stream_id, snap=True)]))
            out["book2_pt"] = now2
            fw.simulated_execution._thread_pool.shutdown(wait=True)
    except Exception as e:
        out["error"] = type(e).__name__ + ":" + str(e)[:200]
    out["orders"] = []
    for name, (o, ok) in sorted(st.placed.items()):
        sim = o.simulated
        out["orders"].append({"name": name, "accepted": bool(ok), "status": o.status.value if o.status else None, "matched": [[m[0], m[1], m[2]] for m in sim.matched],
                              "size_matched": sim.size_matched, "remaining": sim.size_remaining, "cancelled": sim.size_cancelled, "lapsed": sim.size_lapsed, "voided": sim.size_voided,
                              "arrival_book_pt": arrival.get(o.id), "log": [x.value for x in o.status_log]})
    return out


def run_timing(case):
    """two requests on their way at once: order A rests; the market turns in play (bet delay case["delay"] s); order B is placed (its placement takes
    delay + place latency) and A is cancelled right afterwards.  The cancel is answered one cancel latency after it was requested - it does not queue
    behind B's placement.  Reports the wall-clock seconds from the cancel request to its answer and what A ended with."""
    betting_client = mock.Mock(lightweight=False, username="paper")
    client = clients.BetfairClient(betting_client, paper_trade=True, min_bet_validation=False)
    fw = Flumine(client=client)
    st = Placer(market_filter={"marketIds": [MARKET_ID]}, max_order_exposure=10 ** 6, max_selection_exposure=10 ** 6, max_live_trade_count=10 ** 6, max_trade_count=10 ** 6)
    st.todo = []
    fw.add_strategy(st)
    st.start(fw)
    stream_id = st.stream_ids[0]
    runners = [201, 202]
    now = int(time.time() * 1000)
    cache = MarketBookCache(MARKET_ID, now, False, False, True)
    out = {"error": None}
    try:
        cache.update_cache({"id": MARKET_ID, "marketDefinition": market_definition(runners), "rc": [{"id": 201, "atb": [[2.0, 100]], "atl": [[2.1, 100]]}, {"id": 202, "atb": [[3.0, 100]], "atl": [[3.2, 100]]}]}, now, True)
        fw._process_market_books(MarketBookEvent([cache.create_resource(stream_id, snap=True)]))
        market = fw.markets.markets[MARKET_ID]
        ta = Trade(MARKET_ID, 201, 0, st)
        a = ta.create_order(side="BACK", order_type=LimitOrder(price=2.06, size=2.0))     # rests above the best back price
        market.place_order(a)
        end = time.time() + 3
        while time.time() < end and (a.status is None or a.status.value != "Executable"):
            time.sleep(0.01)
        md = market_definition(runners, version=2); md["inPlay"] = True; md["betDelay"] = case.get("delay", 1)
        cache.update_cache({"id": MARKET_ID, "marketDefinition": md, "rc": []}, now + 500, True)
        fw._process_market_books(MarketBookEvent([cache.create_resource(stream_id, snap=True)]))
        tb = Trade(MARKET_ID, 202, 0, st)
        b = tb.create_order(side="BACK", order_type=LimitOrder(price=3.1, size=2.0))
        market.place_order(b)
        t_req = time.time()
        market.cancel_order(a)
        end = time.time() + case.get("delay", 1) + 3
        while time.time() < end and a.status.value == "Cancelling":
            time.sleep(0.005)
        out["cancel_answered_after_s"] = round(time.time() - t_req, 3)
        out["a"] = {"status": a.status.value, "cancelled": a.simulated.size_cancelled, "matched": a.simulated.size_matched, "log": [x.value for x in a.status_log]}
        fw.simulated_execution._thread_pool.shutdown(wait=True)
        out["b_status"] = b.status.value
    except Exception as e:
        out["error"] = type(e).__name__ + ":" + str(e)[:200]
    return out


def run_clients(case):
    """case["clients"] paper-trade clients in one framework; every client places one crossing order (matched in full on arrival).  Then the
    framework's paper-trading order streams are polled (each stream's own _get_current_orders) and their snapshots processed: every order of every
    client must be reported by exactly one stream, and afterwards be complete and out of the live list with its trade complete."""
    from flumine.streams.simulatedorderstream import SimulatedOrderStream, CurrentOrders
    from flumine.events.events import CurrentOrdersEvent
    n = case.get("clients", 2)
    cls = [clients.BetfairClient(mock.Mock(lightweight=False, username="paper%d" % i), paper_trade=True, min_bet_validation=False, username="paper%d" % i) for i in range(n)]
    fw = Flumine(client=cls[0])
    for c in cls[1:]:
        fw.add_client(c)
    st = Placer(market_filter={"marketIds": [MARKET_ID]}, max_order_exposure=10 ** 6, max_selection_exposure=10 ** 6, max_live_trade_count=10 ** 6, max_trade_count=10 ** 6)
    st.todo = []
    fw.add_strategy(st)
    st.start(fw)
    stream_id = st.stream_ids[0]
    now = int(time.time() * 1000)
    cache = MarketBookCache(MARKET_ID, now, False, False, True)
    out = {"error": None}
    try:
        cache.update_cache({"id": MARKET_ID, "marketDefinition": market_definition([201, 202]), "rc": [{"id": 201, "atb": [[2.0, 1000]], "atl": [[2.1, 1000]]}, {"id": 202, "atb": [[3.0, 1000]], "atl": [[3.2, 1000]]}]}, now, True)
        fw._process_market_books(MarketBookEvent([cache.create_resource(stream_id, snap=True)]))
        market = fw.markets.markets[MARKET_ID]
        orders = []
        for i, c in enumerate(cls):
            tr = Trade(MARKET_ID, 201 + (i % 2), 0, st)
            o = tr.create_order(side="BACK", order_type=LimitOrder(price=2.0 if i % 2 == 0 else 3.0, size=2.0))
            market.place_order(o, client=c)
            orders.append(o)
        fw.simulated_execution._thread_pool.shutdown(wait=True)
        sos = [s for s in fw.streams if isinstance(s, SimulatedOrderStream)]
        out["streams"] = []
        for s in sos:
            got = s._get_current_orders()
            out["streams"].append({"client": next((i for i, c in enumerate(cls) if c is s.client), -1), "orders": sorted(orders.index(o) for o in got if o in orders)})
            if got:
                fw._process_current_orders(CurrentOrdersEvent([CurrentOrders(got, s.client)]))
        out["orders"] = [{"client": i, "status": o.status.value, "matched": o.size_matched, "complete": bool(o.complete), "in_live": sum(1 for x in market.blotter._live_orders if x is o),
                          "trade_status": o.trade.status.value} for i, o in enumerate(orders)]
    except Exception as e:
        import traceback
        out["error"] = type(e).__name__ + ":" + str(e)[:200] + traceback.format_exc()[-400:]
    return out


def main():
    j = json.loads(sys.stdin.read())
    if j["job"] == "clients":
        res = [run_clients(c) for c in j["cases"]]
    elif j["job"] == "timing":
        res = [run_timing(c) for c in j["cases"]]
    elif j["job"] == "arrival":
        res = [run_arrival(c) for c in j["cases"]]
    else:
        raise SystemExit("unknown job")
    print(json.dumps({"out": res}))


if __name__ == "__main__":
    main()

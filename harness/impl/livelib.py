"""Drive a REAL live Flumine (BetfairClient whose network client is a Mock) by feeding raw stream messages through a
betfairlightweight StreamListener and dispatching the handler queue the way Flumine.run does.  Wall clock of
flumine.markets.market replaced by a controllable one."""
import sys, json, queue, logging, datetime as real_datetime
logging.disable(logging.CRITICAL)
from unittest import mock
from betfairlightweight import StreamListener
from flumine import Flumine, BaseStrategy, clients
from flumine.events import events
from flumine.events.events import EventType
from flumine.markets.middleware import Middleware
import flumine.markets.market as market_module


class Clock:
    now = real_datetime.datetime(2024, 1, 1, 12, 0, 0)

    @classmethod
    def epoch_ms(cls):
        return int(cls.now.replace(tzinfo=real_datetime.timezone.utc).timestamp() * 1e3)


class FakeDateTime(real_datetime.datetime):
    @classmethod
    def utcnow(cls):
        return Clock.now


class FakeDatetimeModule:
    datetime = FakeDateTime
    timedelta = real_datetime.timedelta
    timezone = real_datetime.timezone


def market_definition(status, event_id, version):
    closed = status == "CLOSED"
    return {"bspMarket": False, "turnInPlayEnabled": True, "persistenceEnabled": True, "marketBaseRate": 5.0, "eventId": event_id, "eventTypeId": "7",
            "numberOfWinners": 1, "bettingType": "ODDS", "marketType": "WIN", "marketTime": "2024-01-01T12:05:00.000Z", "suspendTime": "2024-01-01T12:05:00.000Z",
            "bspReconciled": False, "complete": True, "inPlay": False, "crossMatching": True, "runnersVoidable": False, "numberOfActiveRunners": 0 if closed else 2,
            "betDelay": 0, "status": status,
            "runners": [{"status": "WINNER" if closed else "ACTIVE", "sortPriority": 1, "id": 101}, {"status": "LOSER" if closed else "ACTIVE", "sortPriority": 2, "id": 202}],
            "regulators": ["MR_INT"], "countryCode": "GB", "discountAllowed": True, "timezone": "Europe/London", "openDate": "2024-01-01T12:05:00.000Z", "version": version}


def pump(framework):
    while not framework.handler_queue.empty():
        event = framework.handler_queue.get()
        t = event.EVENT_TYPE
        if t == EventType.MARKET_BOOK:
            framework._process_market_books(event)
        elif t == EventType.CLOSE_MARKET:
            framework._process_close_market(event)
        elif t == EventType.CLEARED_MARKETS:
            framework._process_cleared_markets(event)
        elif t == EventType.CLEARED_ORDERS:
            framework._process_cleared_orders(event)
        elif t == EventType.RAW_DATA:
            framework._process_raw_data(event)
        else:
            raise RuntimeError("unexpected event %s" % event)


class Strat(BaseStrategy):
    def __init__(self, idx, log, **kw):
        super().__init__(**kw)
        self.idx = idx
        self.log = log

    def start(self, flumine):
        return

    def check_market_book(self, market, market_book):
        return True

    def process_market_book(self, market, market_book):
        self.log.append(["book", self.idx, market.market_id])
        self.last_market = market
        for runner in market_book.runners:
            self.get_runner_context(market.market_id, runner.selection_id, runner.handicap)

    def process_closed_market(self, market, market_book):
        status = market_book["marketDefinition"]["status"] if isinstance(market_book, dict) else market_book.status
        self.log.append(["closed", self.idx, market.market_id, status, market.closed])

    def process_raw_data(self, clk, publish_time, datum):
        self.log.append(["raw", self.idx, datum.get("id")])


class StateMiddleware(Middleware):
    def __init__(self):
        self.state = {}

    def __call__(self, market):
        self.state[market.market_id] = self.state.get(market.market_id, 0) + 1

    def add_market(self, market):
        self.state.setdefault(market.market_id, 0)

    def remove_market(self, market):
        self.state.pop(market.market_id, None)


def run_live_closure(case):
    """case: {"strategies": [{"markets": [ids] | "empty": True}], "steps": [["book", mid, status] | ["advance", secs] | ["cleared", mid]]}"""
    Clock.now = real_datetime.datetime(2024, 1, 1, 12, 0, 0)
    with mock.patch.object(market_module, "datetime", FakeDatetimeModule):
        betting_client = mock.Mock(); betting_client.username = "u"; betting_client.lightweight = False
        client = clients.BetfairClient(betting_client)
        fw = Flumine(client=client)
        log = []
        strategies = []
        all_markets = sorted({s[1] for s in case["steps"] if s[0] in ("book", "cleared", "cleared_orders")})
        for i, sp in enumerate(case["strategies"]):
            mf = {} if sp.get("empty") else {"marketIds": sp["markets"]}
            st = Strat(i, log, market_filter=mf, name="s%d" % i)
            fw.add_strategy(st)
            strategies.append(st)
        mw = StateMiddleware()
        fw.add_market_middleware(mw)
        # one listener per distinct stream of the framework
        feeds = {}
        from flumine.streams.marketstream import MarketStream
        for stream in fw.streams:
            if isinstance(stream, MarketStream):
                q = queue.Queue()
                ls = StreamListener(output_queue=q, max_latency=None)
                ls.register_stream(stream.stream_id, "marketSubscription")
                feeds[stream.stream_id] = (stream, ls, q)
        versions, clk = {}, [0]
        out = []
        for step in case["steps"]:
            del log[:]
            if step[0] == "advance":
                Clock.now = Clock.now + real_datetime.timedelta(seconds=step[1])
            elif step[0] == "cleared":
                m = fw.markets.markets.get(step[1])
                if m is not None:
                    m.orders_cleared.append("u"); m.market_cleared.append("u")
            elif step[0] == "cleared_orders":
                # what the closure worker does after fetching one client's cleared ORDERS (the cleared-market summary is still to be fetched)
                m = fw.markets.markets.get(step[1])
                if m is not None:
                    m.orders_cleared.append("u")
            else:
                _, mid, status = step
                versions[mid] = versions.get(mid, 0) + 1
                clk[0] += 1
                for sid, (stream, ls, q) in feeds.items():
                    ids = stream.market_filter.get("marketIds") if isinstance(stream.market_filter, dict) else None
                    if ids is not None and mid not in ids:
                        continue
                    mc = {"id": mid, "marketDefinition": market_definition(status, "31000001", versions[mid]), "img": True}
                    if status != "CLOSED":
                        mc["rc"] = [{"id": 101, "atb": [[2.0, 50]], "atl": [[2.1, 50]]}, {"id": 202, "atb": [[2.0, 50]], "atl": [[2.1, 50]]}]
                    msg = {"op": "mcm", "id": sid, "clk": str(clk[0]), "pt": Clock.epoch_ms(), "mc": [mc]}
                    ls.on_data(json.dumps(msg))
                    while not q.empty():
                        fw.handler_queue.put(events.MarketBookEvent(q.get()))
                    pump(fw)
            snap = {}
            for mid in all_markets:
                m = fw.markets.markets.get(mid)
                snap[mid] = None if m is None else {"closed": m.closed, "flags": bool(m.orders_cleared or m.market_cleared), "flags_orders": list(m.orders_cleared), "flags_market": list(m.market_cleared),
                                                     "ctx": sorted(i for i, s in enumerate(strategies) if any(k[0] == mid for k in s._invested)),
                                                     "mw": mid in mw.state}
            out.append({"log": list(log), "markets": snap, "streams": {str(sid): [i for i, st in enumerate(strategies) if sid in st.stream_ids] for sid in feeds}})
        return out




# ---------------------------------------------------------------------------------------------------------------------
# orders on a live framework: placements (execution layer stubbed: packages captured), order-stream snapshots, closures
def current_order_row(r, orders_by_name, strategies):
    """r: {"ref": name of a local order | ["foreign", strategy idx|name, id], "bet": str, "status": .., "matched": c, "remaining": c, "cancelled": c, ...}"""
    import types
    if isinstance(r["ref"], list):
        from flumine.utils import create_cheap_hash, STRATEGY_NAME_HASH_LENGTH
        h = strategies[r["ref"][1]].name_hash if isinstance(r["ref"][1], int) else create_cheap_hash(r["ref"][1], STRATEGY_NAME_HASH_LENGTH)
        ref = "%s-%s" % (h, r["ref"][2])
    else:
        ref = orders_by_name[r["ref"]].customer_order_ref
    f = lambda k: r.get(k, 0) / 100
    return types.SimpleNamespace(
        customer_order_ref=ref, customer_strategy_ref="x", market_id=r["market"], bet_id=r["bet"], selection_id=r.get("sel", 101), handicap=r.get("hc", 0),
        order_type="LIMIT", side=r.get("side", "BACK"), status=r["status"], persistence_type="LAPSE",
        price_size=types.SimpleNamespace(price=r.get("price", 200) / 100, size=(r.get("matched", 0) + r.get("remaining", 0) + r.get("cancelled", 0) + r.get("lapsed", 0) + r.get("voided", 0)) / 100),
        size_matched=f("matched"), size_remaining=f("remaining"), size_cancelled=f("cancelled"), size_lapsed=f("lapsed"), size_voided=f("voided"),
        average_price_matched=r.get("avg", 0) / 100, bsp_liability=0.0,
        placed_date=Clock.now, matched_date=None, cancelled_date=None, lapsed_date=None)


def dump_blotter(fw, strategies, cls, name_of):
    out = {}
    for mid, market in fw.markets.markets.items():
        bl = market.blotter
        tix = {}
        tname = lambda t: tix.setdefault(id(t), len(tix))
        cidx = {id(c): i for i, c in enumerate(cls)}
        sidx = {id(s): i for i, s in enumerate(strategies)}
        out[mid] = {
            "closed": market.closed,
            "orders": [[name_of(o), sidx.get(id(o.trade.strategy), -1), o.selection_id, cidx.get(id(o.client), -1), tname(o.trade), o.bet_id,
                        o.status.value if o.status else None, int(round((o.size_matched or 0) * 100)), int(round((o.size_remaining or 0) * 100)), o.complete,
                        o.trade.status.value] for o in bl._orders.values()],
            "keys_match": all(k == o.id for k, o in bl._orders.items()),
            "strategy": {str(sidx.get(id(st), -1)): [name_of(o) for o in os_] for st, os_ in bl._strategy_orders.items()},
            "selection": {"%d/%s" % (sidx.get(id(k[0]), -1), k[1]): [name_of(o) for o in os_] for k, os_ in bl._strategy_selection_orders.items()},
            "client": {str(cidx.get(id(c), -1)): [name_of(o) for o in os_] for c, os_ in bl._client_orders.items()},
            "client_strategy": {"%d/%d" % (cidx.get(id(k[0]), -1), sidx.get(id(k[1]), -1)): [name_of(o) for o in os_] for k, os_ in bl._client_strategy_orders.items()},
            "trades": {str(tname(t)): [name_of(o) for o in os_] for t, os_ in bl._trades.items()},
            "bet_lookup": {str(b): name_of(o) for b, o in bl._bet_id_lookup.items()},
            "live": [name_of(o) for o in bl._live_orders],
            "lookups_ok": all(fw.markets.get_order(mid, o.id) is o for o in bl._orders.values()),
            "cleared": [[market.cleared(c)["betCount"], market.cleared(c)["profit"], market.cleared(c)["commission"]] for c in cls],
            "matched_by_client": [[sum(1 for o in bl._orders.values() if o.client is c and o.size_matched), round(sum(o.profit for o in bl._orders.values() if o.client is c and o.size_matched), 2)] for c in cls],
            "ctx": {"%d/%s/%s" % (i, k[1], k[2]): [len(rc.trades), len(rc.live_trades)] for i, s in enumerate(strategies) for k, rc in s._invested.items() if k[0] == mid},
        }
    return out


def run_live_orders(case):
    """case: {"strategies": n, "steps": [...]}; steps:
       ["book", mid, status] ["advance", s]
       ["place", mid, name, strat, sel, side, price_c, size_c]      market.place_order with a real BetfairOrder (package captured, not sent)
       ["ack", name, bet]                                          what a SUCCESS place response does: bet id + executable()
       ["stream", [rows]]                                          CurrentOrdersEvent through fw._process_current_orders
       ["poll"]                                                    one poll of the paper-trading order stream (SimulatedOrderStream._get_current_orders)
    """
    import types
    from flumine.order.trade import Trade
    from flumine.order.ordertype import LimitOrder
    Clock.now = real_datetime.datetime(2024, 1, 1, 12, 0, 0)
    with mock.patch.object(market_module, "datetime", FakeDatetimeModule):
        betting_client = mock.Mock(); betting_client.username = "u"; betting_client.lightweight = False
        client = clients.BetfairClient(betting_client)
        fw = Flumine(client=client)
        log = []
        strategies = []
        mids = sorted({s[1] for s in case["steps"] if s[0] in ("book", "place")})
        for i in range(case["strategies"]):
            st = Strat(i, log, market_filter={"marketIds": mids}, name="s%d" % i, max_trade_count=10 ** 6, max_live_trade_count=10 ** 6,
                       max_order_exposure=None, max_selection_exposure=None)
            fw.add_strategy(st)
            strategies.append(st)
        packages = []
        fw.process_order_package = lambda p: packages.append([p.package_type.value, [name_of(o) for o in p._orders]])
        from flumine.streams.marketstream import MarketStream
        stream = [s for s in fw.streams if isinstance(s, MarketStream)][0]
        q = queue.Queue()
        ls = StreamListener(output_queue=q, max_latency=None)
        ls.register_stream(stream.stream_id, "marketSubscription")
        names, rev = {}, {}
        def name_of(o):
            if id(o) not in rev:
                rev[id(o)] = "a%d" % len([k for k in rev.values() if k.startswith("a")])
                names[rev[id(o)]] = o
            return rev[id(o)]
        versions, clk, out = {}, [0], []
        for step in case["steps"]:
            res = None
            if step[0] == "advance":
                Clock.now = Clock.now + real_datetime.timedelta(seconds=step[1])
            elif step[0] == "book":
                _, mid, status = step
                versions[mid] = versions.get(mid, 0) + 1; clk[0] += 1
                mc = {"id": mid, "marketDefinition": market_definition(status, "31000001", versions[mid]), "img": True}
                if status != "CLOSED":
                    mc["rc"] = [{"id": 101, "atb": [[2.0, 50]], "atl": [[2.1, 50]]}, {"id": 202, "atb": [[2.0, 50]], "atl": [[2.1, 50]]}]
                ls.on_data(json.dumps({"op": "mcm", "id": stream.stream_id, "clk": str(clk[0]), "pt": Clock.epoch_ms(), "mc": [mc]}))
                while not q.empty():
                    fw.handler_queue.put(events.MarketBookEvent(q.get()))
                pump(fw)
            elif step[0] == "place":
                _, mid, name, si, sel, side, price, size = step
                market = fw.markets.markets.get(mid)
                if market is not None:
                    tr = Trade(mid, sel, 0, strategies[si])
                    o = tr.create_order(side, LimitOrder(price / 100, size / 100))
                    names[name] = o; rev[id(o)] = name
                    try:
                        res = market.place_order(o)
                    except Exception as e:
                        res = "EXC:" + type(e).__name__
            elif step[0] == "replace":
                o = names.get(step[1])
                if o is not None and o.bet_id and o.status is not None and o.status.value == "Executable":
                    market = fw.markets.markets.get(o.market_id)
                    try:
                        res = market.replace_order(o, step[2] / 100) if market is not None else None
                    except Exception as e:
                        res = "EXC:" + type(e).__name__
            elif step[0] == "ack":
                o = names.get(step[1])
                if o is not None and o.status is not None:
                    o.bet_id = step[2]
                    o.responses.placed()
                    with o.trade:
                        o.executable()
            elif step[0] == "poll":
                # one poll of the paper-trading order stream (SimulatedOrderStream.run calls this every streaming_timeout while there are live orders):
                # the client's orders of every open market; reading them must leave the blotters as they are
                from flumine.streams.simulatedorderstream import SimulatedOrderStream
                if "sos" not in names:
                    names["sos"] = SimulatedOrderStream(fw, stream_id=9000, streaming_timeout=0.25, client=client)
                try:
                    got = names["sos"]._get_current_orders()
                    res = ["polled", sorted(name_of(o) for o in got)]
                except Exception as e:
                    res = "EXC:" + type(e).__name__ + ":" + str(e)[:100]
            elif step[0] == "stream":
                rows = [current_order_row(r, names, strategies) for r in step[1] if (isinstance(r["ref"], list) or r["ref"] in names)]
                co = types.SimpleNamespace(client=client, orders=rows)
                from flumine.clients.clients import ExchangeType
                ev = events.CurrentOrdersEvent([co], exchange=ExchangeType.BETFAIR)
                try:
                    fw._process_current_orders(ev)
                except Exception as e:
                    res = "EXC:" + type(e).__name__ + ":" + str(e)[:100]
            out.append({"res": res, "blotters": dump_blotter(fw, strategies, [client], name_of), "packages": list(packages)})
        return out


def run_live_exec(case):
    """Requests, exchange responses (any outcome / fault, possibly delayed), exchange-side events and order-stream snapshots on a
    REAL live Flumine + BetfairExecution + process_current_orders.  The exchange double keeps a consistent bet table; a call is
    processed by the exchange when it is made ("call") and its response is handed to the framework later ("respond"), the
    handler running in a worker thread that is blocked in between (strictly one thread runs at any time).  The script is
    ADAPTIVE (indices are taken modulo what exists) and every step reports the concrete facts (which orders, which bet ids,
    which reports, which rows), from which the harness builds the model's events.
    steps: ["book", status]
           ["place", strat, sel, side, price_c, size_c, trade_pick|None, async]
           ["req", kind, order_pick, arg, prefer_executable]
           ["txn", [["place", ...] | ["req", ...], ...]]
           ["call", pkg_pick, {"errors": n, "unknown": bool, "reports": [descriptor...], "perm": "id"|"rev"|"drop_first"|"drop_all"}]
           ["respond", call_pick]            ["deliver", pkg_pick, outcome] = call + respond
           ["xfill", bet_pick, frac 1|2] ["xlapse", bet_pick] ["xforeign", strategy idx|"name", id, sel]
           ["stream", "full"|"changed"|"stale"|[bet picks]]
           ["restart"]   ["quiet", seconds] (the session pool sees that much time pass)"""
    import types, threading
    from betfairlightweight import BetfairError, resources
    from flumine.order.trade import Trade
    from flumine.order.ordertype import LimitOrder
    from flumine.order.orderpackage import OrderPackageType
    from flumine.strategy.runnercontext import RunnerContext
    from flumine.clients.clients import ExchangeType
    from flumine.utils import create_cheap_hash, STRATEGY_NAME_HASH_LENGTH
    import flumine.order.orderpackage as opmod
    MID = "1.101"
    HC = lambda sel: 1.5 if sel == 303 else 0      # selection 303 is a handicap line
    Clock.now = real_datetime.datetime(2024, 1, 1, 12, 0, 0)
    from flumine import config as _fcfg
    _fcfg.async_place_orders = bool(case.get("async_config"))      # set for every case (the process runs several)
    resets = {}
    orig_reset = RunnerContext.reset
    def counting_reset(self, trade_id):
        resets[id(self)] = resets.get(id(self), 0) + 1
        return orig_reset(self, trade_id)
    import flumine.strategy.runnercontext as rcmod
    lim = case.get("limits") or {}
    with mock.patch.object(market_module, "datetime", FakeDatetimeModule), mock.patch.object(opmod.time, "sleep", lambda s: None), \
         mock.patch.object(RunnerContext, "reset", counting_reset), mock.patch.object(rcmod, "datetime", FakeDatetimeModule):
        log = []
        W = {}
        def new_framework():
            betting_client = mock.Mock(); betting_client.username = "u"; betting_client.lightweight = False
            client = clients.BetfairClient(betting_client)
            fw = Flumine(client=client)
            class Inline:
                _threads = []
                _work_queue = types.SimpleNamespace(qsize=lambda: 0)
                def submit(self, fn, *a):
                    fn(*a)
                def shutdown(self, wait=True):
                    pass
            fw.betfair_execution._thread_pool = Inline()
            sts = []
            for i in range(case["strategies"]):
                st = Strat(i, log, market_filter={"marketIds": [MID]}, name="s%d" % i, max_trade_count=lim.get("max_trades", 10 ** 6), max_live_trade_count=lim.get("max_live", 10 ** 6),
                           max_order_exposure=10 ** 9, max_selection_exposure=lim.get("max_sel", 10 ** 9), multi_order_trades=lim.get("multi", False))
                if i in (case.get("late") or []):
                    sts.append(st)          # created, registered with the framework only by a ["register", i] step
                else:
                    fw.add_strategy(st); sts.append(st)
            W["packages"] = []
            fw.process_order_package = lambda p: W["packages"].append(p)
            from flumine.streams.marketstream import MarketStream
            stream = [s for s in fw.streams if isinstance(s, MarketStream)][0]
            q = queue.Queue()
            ls = StreamListener(output_queue=q, max_latency=None)
            ls.register_stream(stream.stream_id, "marketSubscription")
            W.update(fw=fw, client=client, bc=betting_client, strategies=sts, stream=stream, ls=ls, q=q, calls=[])
            W["hook"] = True
        new_framework()
        hashes = {st.name_hash: i for i, st in enumerate(W["strategies"])}
        ids = {}          # order.id -> name (names survive a restart: the id is what the exchange echoes back)
        refid = {}        # local order id -> the customer-ref id the exchange files its bet under (replacements keep the original's)
        tnames = {}
        counters = {"o": 0, "r": 0, "t": 0, "bet": 7000, "ver": 0, "clk": 0}
        bets = []         # the exchange's bet table
        changed = set()
        cache = set()
        sent_snapshots = []

        def fresh_bet():
            counters["bet"] += 1
            return str(counters["bet"])

        def all_orders():
            m = W["fw"].markets.markets.get(MID)
            return list(m.blotter._orders.values()) if m else []

        def name_of(o):
            if o.id not in ids:
                ids[o.id] = "r%d" % counters["r"]; counters["r"] += 1
            return ids[o.id]

        def tname(t):
            if t.id not in tnames:
                tnames[t.id] = "t%d" % counters["t"]; counters["t"] += 1
            return tnames[t.id]

        def guarded(fn):
            try:
                return fn()
            except Exception as e:
                return "EXC:" + type(e).__name__ + ":" + str(e)[:60]

        def bet_by_id(b):
            return next((x for x in bets if x["id"] == b), None)

        def remaining(b):
            return 0 if b["complete"] else b["size"] - b["matched"] - b["cancelled"]

        def do_request(r, facts):
            sts = W["strategies"]
            if r[0] == "place":
                _, si, sel, side, price, size, tpick, asyn = r
                cands = [t for t in {id(o.trade): o.trade for o in all_orders()}.values() if t.strategy is sts[si % len(sts)] and t.selection_id == sel]
                if tpick is not None and cands:
                    tr = cands[tpick % len(cands)]
                else:
                    tr = Trade(MID, sel, HC(sel), sts[si % len(sts)], place_reset_seconds=lim.get("place_reset", 0.0), reset_seconds=lim.get("reset", 0.0))
                o = tr.create_order(side, LimitOrder(price / 100, size / 100, persistence_type="LAPSE"))
                nm = "o%d" % counters["o"]; counters["o"] += 1
                ids[o.id] = nm
                facts.append({"req": "place", "order": nm, "trade": tname(tr), "trade_known": any(x.trade is tr for x in all_orders()), "clock": Clock.now.timestamp(), "strategy": si % len(sts), "sel": sel, "side": side, "price": price, "size": size, "async": bool(asyn)})
                return lambda t: t.place_order(o)
            _, kind, pick, arg = r[:4]
            os_ = all_orders()
            if len(r) > 4 and r[4]:
                os_ = [o for o in os_ if o.status.value == "Executable" and o.bet_id is not None] or os_
            if not os_:
                facts.append({"req": "none"})
                return lambda t: "noorder"
            o = os_[pick % len(os_)]
            facts.append({"req": kind, "order": name_of(o), "arg": arg, "status_before": o.status.value, "bet_before": o.bet_id})
            if kind == "cancel":
                return lambda t: t.cancel_order(o, None if arg is None else arg / 100)
            if kind == "update":
                return lambda t: t.update_order(o, arg)
            return lambda t: t.replace_order(o, arg / 100)

        def exchange(kind, outcome, pkg, ins, sent):
            """the exchange processes the instructions NOW; returns the response resource"""
            descs = outcome.get("reports") or []
            D = lambda i: descs[i % len(descs)] if descs else {}
            by_ref = {o.customer_order_ref: o for o in pkg._orders}
            sts = W["strategies"]
            reps = []
            if kind == "place":
                if outcome.get("place_reports") == "none":
                    # the request is refused as a whole: the answer arrives normally but carries no instruction reports and no bet is created
                    # (only used by C18's count family)
                    return resources.PlaceOrders(elapsed_time=0.1, **{"marketId": pkg.market_id, "status": "FAILURE", "errorCode": "MARKET_SUSPENDED", "instructionReports": []})
                for k, i in enumerate(ins):
                    o = by_ref[i["customerOrderRef"]]; d = D(k)
                    st = d.get("status", "SUCCESS")
                    size = int(round(o.order_type.size * 100))
                    rep = {"status": st, "instruction": {"selectionId": o.selection_id, "side": o.side, "orderType": "LIMIT", "limitOrder": {"size": o.order_type.size, "price": o.order_type.price, "persistenceType": "LAPSE"}}}
                    bet, m, ost = None, 0, None
                    if st == "SUCCESS" or (st == "TIMEOUT" and d.get("with_bet")):
                        m = size * d.get("matched_frac", 0) // 2
                        expired = d.get("order_status") == "EXPIRED"
                        if expired:
                            m = 0
                        b = {"id": fresh_bet(), "ref_id": o.id, "strategy": sts.index(o.trade.strategy), "sel": o.selection_id, "side": o.side, "price": int(round(o.order_type.price * 100)),
                             "size": size, "matched": m, "cancelled": size if expired else 0, "complete": expired or m == size}
                        refid[o.id] = o.id
                        bets.append(b); changed.add(b["id"])
                        if st == "SUCCESS":
                            if pkg.async_:
                                ost = "PENDING"; m = 0       # async: the report carries neither bet id nor sizes
                            else:
                                bet = b["id"]; rep["betId"] = bet
                                ost = "EXPIRED" if expired else ("EXECUTION_COMPLETE" if b["complete"] else "EXECUTABLE")
                            rep["orderStatus"] = ost; rep["sizeMatched"] = m / 100; rep["averagePriceMatched"] = o.order_type.price if m else 0.0
                        else:
                            m = 0
                    elif st == "FAILURE":
                        rep["errorCode"] = "ERROR_IN_ORDER"
                    reps.append(rep)
                    sent.append({"order": name_of(o), "status": st, "order_status": ost, "bet": bet, "matched": m})
                return resources.PlaceOrders(elapsed_time=0.1, **{"marketId": pkg.market_id, "status": "SUCCESS", "instructionReports": reps})
            by_bet = {o.bet_id: o for o in pkg._orders if o.bet_id is not None}
            def xcancel(b, reduction, d, st):
                """-> (status, size_cancelled, error_code)"""
                if st == "SUCCESS" and (b is None or b["complete"]):
                    st = "FAILURE"; code = "BET_TAKEN_OR_LAPSED"
                elif st == "FAILURE":
                    code = "BET_TAKEN_OR_LAPSED" if (b is None or b["complete"]) else "ERROR_IN_ORDER"
                else:
                    code = None
                sc = None
                if st == "SUCCESS" or (st == "TIMEOUT" and d.get("with_bet") and b is not None and not b["complete"]):
                    rem = remaining(b)
                    sc = rem if reduction is None else min(int(round(reduction * 100)), rem)
                    b["cancelled"] += sc
                    if remaining(b) == 0:
                        b["complete"] = True
                    changed.add(b["id"])
                return st, (sc if st == "SUCCESS" else None), code
            if kind == "cancel":
                seq = list(enumerate(ins))
                perm = outcome.get("perm", "id")
                done = []
                for k, i in seq:       # the exchange processes every instruction; the report list may be permuted / incomplete
                    o = by_bet[i["betId"]]; d = D(k)
                    st, sc, code = xcancel(bet_by_id(i["betId"]), i.get("sizeReduction"), d, d.get("status", "SUCCESS"))
                    rep = {"status": st, "instruction": {"betId": i["betId"]}}
                    if sc is not None:
                        rep["sizeCancelled"] = sc / 100
                    if code:
                        rep["errorCode"] = code
                    done.append((rep, {"order": name_of(o), "bet": i["betId"], "status": st, "size_cancelled": sc, "taken_or_lapsed": code == "BET_TAKEN_OR_LAPSED"}))
                if perm == "rev":
                    done = done[::-1]
                elif perm == "drop_first":
                    done = done[1:]
                elif perm == "drop_all":
                    done = []
                for rep, fct in done:
                    reps.append(rep); sent.append(fct)
                return resources.CancelOrders(elapsed_time=0.1, **{"marketId": pkg.market_id, "status": "SUCCESS", "instructionReports": reps})
            if kind == "update":
                for k, i in enumerate(ins):
                    o = by_bet[i["betId"]]; d = D(k)
                    st = d.get("status", "SUCCESS")
                    b = bet_by_id(i["betId"])
                    if st == "SUCCESS" and (b is None or b["complete"]):
                        st = "FAILURE"
                    rep = {"status": st, "instruction": {"betId": i["betId"], "newPersistenceType": i["newPersistenceType"]}}
                    if st == "FAILURE":
                        rep["errorCode"] = "BET_TAKEN_OR_LAPSED" if (b is None or b["complete"]) else "ERROR_IN_ORDER"
                    reps.append(rep)
                    sent.append({"order": name_of(o), "status": st})
                return resources.UpdateOrders(elapsed_time=0.1, **{"marketId": pkg.market_id, "status": "SUCCESS", "instructionReports": reps})
            for k, i in enumerate(ins):
                o = by_bet[i["betId"]]; d = D(k)
                b = bet_by_id(i["betId"])
                rem = remaining(b) if b is not None else 0
                cs, sc, code = xcancel(b, None, d, d.get("cancel", "SUCCESS"))
                ps = d.get("place", "SUCCESS")
                if cs != "SUCCESS":
                    ps = "FAILURE" if ps == "SUCCESS" else ps    # the exchange places only after a successful cancel
                c = {"status": cs, "instruction": {"betId": i["betId"]}}
                if cs == "SUCCESS":
                    c["sizeCancelled"] = sc / 100
                elif cs == "FAILURE":
                    c["errorCode"] = code
                pl = {"status": ps, "instruction": {"selectionId": o.selection_id, "side": o.side, "orderType": "LIMIT",
                                                    "limitOrder": {"size": (sc or 0) / 100, "price": i["newPrice"], "persistenceType": "LAPSE"}}}
                bet = None
                if ps == "SUCCESS":
                    nb = {"id": fresh_bet(), "ref_id": b["ref_id"], "strategy": b["strategy"], "sel": b["sel"], "side": b["side"], "price": int(round(i["newPrice"] * 100)),
                          "size": sc, "matched": 0, "cancelled": 0, "complete": False}
                    bets.append(nb); changed.add(nb["id"])
                    bet = nb["id"]
                    pl["betId"] = bet; pl["orderStatus"] = "EXECUTABLE"; pl["sizeMatched"] = 0.0; pl["averagePriceMatched"] = 0.0
                    if pkg.async_:
                        # an async replaceOrders is answered PENDING without the new bet id (the bet exists at the exchange and shows up in the stream)
                        del pl["betId"]; pl["orderStatus"] = "PENDING"; bet = None
                else:
                    pl["errorCode"] = "ERROR_IN_ORDER"
                reps.append({"status": "SUCCESS" if cs == ps == "SUCCESS" else "FAILURE", "cancelInstructionReport": c, "placeInstructionReport": pl})
                sent.append({"order": name_of(o), "cancel": cs, "place": ps, "bet": bet, "price": int(round(i["newPrice"] * 100)), "size": sc or 0})
            return resources.ReplaceOrders(elapsed_time=0.1, **{"marketId": pkg.market_id, "status": "SUCCESS", "instructionReports": reps})

        holding = {}      # thread ident -> call dict that wants to be held inside its first `with order.trade` block

        def install_hold_hook(fw):
            ex = fw.betfair_execution
            orig = ex._order_logger
            def hooked(order, report, ptype):
                c = holding.get(threading.get_ident())
                if c is not None and not c.get("held_once"):
                    c["held_once"] = True
                    c["inside"] = True
                    c["progress"].set()
                    c["release2"].wait()          # stays INSIDE the `with order.trade:` block until released
                return orig(order, report, ptype)
            ex._order_logger = hooked

        def start_call(pkg, outcome):
            kind = {OrderPackageType.PLACE: "place", OrderPackageType.CANCEL: "cancel", OrderPackageType.UPDATE: "update", OrderPackageType.REPLACE: "replace"}[pkg.package_type]
            c = {"pkg": pkg, "kind": kind, "outcome": outcome, "sent": [], "attempts": 0, "answered": False, "progress": threading.Event(), "release": threading.Event(), "exc": None, "done": False,
                 "orders": [name_of(o) for o in pkg._orders], "before": [o.status.value for o in pkg._orders], "instructed": []}
            def call(**kw):
                c["attempts"] += 1
                if outcome.get("unknown"):
                    raise RuntimeError("boom")
                if c["attempts"] <= outcome.get("errors", 0):
                    raise BetfairError("api error")
                ins = kw.get("instructions") or []
                resp = exchange(kind, outcome, pkg, ins, c["sent"])
                c["answered"] = True
                c["progress"].set()
                c["release"].wait()
                return resp
            getattr(W["bc"].betting, kind + "_orders").side_effect = call
            fw = W["fw"]
            c["release2"] = threading.Event()
            def target():
                holding[threading.get_ident()] = c if c.get("hold") else None
                try:
                    fw.betfair_execution.handler(pkg)
                except Exception as e:
                    c["exc"] = type(e).__name__ + ":" + str(e)[:80]
                c["done"] = True
                c["progress"].set()
            c["thread"] = threading.Thread(target=target, daemon=True)
            c["thread"].start()
            c["progress"].wait()
            return c

        def respond_and_hold(c):
            """hand the response over and let the handler run until it is inside its first `with order.trade` block"""
            if c["done"]:
                return {"held": c["kind"], "orders": c["orders"], "inside": False, "done": True}
            c["hold"] = True
            holding[c["thread"].ident] = c
            c["progress"].clear()
            c["release"].set()
            c["progress"].wait()
            return {"held": c["kind"], "orders": c["orders"], "inside": bool(c.get("inside")), "done": c["done"]}

        def finish_call(c, quiet=False):
            if not c["done"]:
                c["progress"].clear()
                if c.get("inside"):
                    c["release2"].set()
                else:
                    c["release"].set()
                c["progress"].wait()
                c["thread"].join()
            res = {"kind": c["kind"], "orders": c["orders"], "before": c["before"], "calls": c["attempts"], "responded": c["answered"], "sent": c["sent"] if c["answered"] else [],
                   "unknown": bool(c["outcome"].get("unknown"))}
            if c["exc"]:
                res["exc"] = c["exc"]
            if c["kind"] == "replace" and c["answered"] and not quiet:
                for x in c["sent"]:
                    if x["bet"] is not None:
                        r_ = [o for o in all_orders() if o.bet_id == x["bet"]]
                        if r_:
                            x["new_order"] = name_of(r_[0])
            return res

        def row_of(b):
            h = W["strategies"][b["strategy"]].name_hash if isinstance(b["strategy"], int) else create_cheap_hash(b["strategy"], STRATEGY_NAME_HASH_LENGTH)
            f = lambda v: v / 100
            return types.SimpleNamespace(
                customer_order_ref="%s-%s" % (h, b["ref_id"]), customer_strategy_ref="x", market_id=MID, bet_id=b["id"], selection_id=b["sel"], handicap=HC(b["sel"]),
                order_type="LIMIT", side=b["side"], status="EXECUTION_COMPLETE" if b["complete"] else "EXECUTABLE", persistence_type="LAPSE",
                price_size=types.SimpleNamespace(price=b["price"] / 100, size=b["size"] / 100),
                size_matched=f(b["matched"]), size_remaining=f(remaining(b)), size_cancelled=f(b["cancelled"]), size_lapsed=0.0, size_voided=0.0,
                average_price_matched=b["price"] / 100 if b["matched"] else 0.0, bsp_liability=0.0,
                placed_date=Clock.now, matched_date=None, cancelled_date=None, lapsed_date=None)

        def fact_of(b):
            return {"ref_order": ids.get(b["ref_id"], "f%s" % b["ref_id"]), "bet": b["id"], "complete": b["complete"], "matched": b["matched"], "remaining": remaining(b), "cancelled": b["cancelled"],
                    "strategy": b["strategy"] if isinstance(b["strategy"], int) else None, "sel": b["sel"], "size": b["size"], "price": b["price"]}

        def dump():
            client, sts = W["client"], W["strategies"]
            ctl = [c for c in client.trading_controls if getattr(c, "NAME", None) == "MAX_TRANSACTION_COUNT"][0]
            d = {"orders": [], "ctx": {}, "tx": [ctl.transaction_count, ctl.failed_transaction_count]}
            market = W["fw"].markets.markets.get(MID)
            if market is None:
                return d
            for o in market.blotter._orders.values():
                d["orders"].append({"o": name_of(o), "strategy": sts.index(o.trade.strategy) if o.trade.strategy in sts else -1,
                                    "sel": o.selection_id, "status": o.status.value if o.status else None, "log": [x.value for x in o.status_log], "complete": o.complete,
                                    "bet": o.bet_id, "matched": int(round((o.size_matched or 0) * 100)), "remaining": int(round((o.size_remaining or 0) * 100)),
                                    "live": o in market.blotter._live_orders, "trade_status": o.trade.status.value, "trade_log": [x.value for x in o.trade.status_log],
                                    "trade": tname(o.trade), "trade_orders": sorted(ids.get(x.id, "?") for x in o.trade.orders),
                                    "async": bool(o.async_), "size": int(round((o.order_type.size or 0) * 100)), "price": int(round(o.order_type.price * 100)), "side": o.side,
                                    "bet_lookup_ok": (market.blotter._bet_id_lookup.get(o.bet_id) is o) if o.bet_id is not None else None})
            for i, st in enumerate(sts):
                for k, rc in st._invested.items():
                    if k[0] == MID:
                        d["ctx"]["%d/%s" % (i, k[1])] = {"trades": len(rc.trades), "live": len(rc.live_trades), "resets": resets.get(id(rc), 0)}
            return d

        install_hold_hook(W["fw"])
        out = []
        for step in case["steps"]:
            res = None
            fw = W["fw"]
            if step[0] == "book":
                counters["ver"] += 1; counters["clk"] += 1
                mc = {"id": MID, "marketDefinition": market_definition(step[1], "31000001", counters["ver"]), "img": True}
                if step[1] != "CLOSED":
                    mc["rc"] = [{"id": 101, "atb": [[2.0, 50]], "atl": [[2.1, 50]]}, {"id": 202, "atb": [[2.0, 50]], "atl": [[2.1, 50]]}]
                W["ls"].on_data(json.dumps({"op": "mcm", "id": W["stream"].stream_id, "clk": str(counters["clk"]), "pt": Clock.epoch_ms(), "mc": [mc]}))
                pt_ = Clock.epoch_ms()
                for st_ in W["strategies"]:
                    st_.last_market = None
                while not W["q"].empty():
                    fw.handler_queue.put(events.MarketBookEvent(W["q"].get()))
                pump(fw)
                reg_ = fw.markets.markets.get(MID)
                handed_ = [st_.last_market for st_ in W["strategies"] if getattr(st_, "last_market", None) is not None]
                # the market registered with the framework (the one that holds the orders, incl. those adopted from the order stream before any
                # book arrived) is the one that receives the book and is handed to the strategies
                res = {"book": step[1], "registered": reg_ is not None,
                       "registered_has_this_book": bool(reg_ is not None and reg_.market_book is not None and reg_.market_book.publish_time_epoch == pt_),
                       "handed_is_registered": all(x is reg_ for x in handed_), "markets_registered": len(fw.markets.markets)}
            elif step[0] in ("place", "req", "txn"):
                market = fw.markets.markets.get(MID)
                if market is not None:
                    facts = []
                    reqs = step[1] if step[0] == "txn" else [step]
                    asyn = any(r[0] == "place" and r[7] for r in reqs)
                    if case.get("async_config"):
                        asyn = True       # config.async_place_orders = True and the transaction left to take its default from the configuration
                    n0 = len(W["packages"])
                    def run():
                        rs = []
                        with market.transaction(async_place_orders=None if case.get("async_config") else asyn) as t:
                            for r in reqs:
                                fn = do_request(r, facts)
                                rs.append(guarded(lambda: fn(t)))
                        return rs
                    rs = guarded(run)
                    for f in facts:
                        if f["req"] == "place":
                            f["async"] = bool(asyn)      # async is a property of the transaction
                    res = {"facts": facts, "results": rs, "new_packages": [[p.package_type.value, [name_of(o) for o in p._orders]] for p in W["packages"][n0:]]}
            elif step[0] in ("deliver", "call"):
                pend = [p for p in W["packages"] if p is not None]
                if pend:
                    pkg = pend[step[1] % len(pend)]
                    W["packages"][W["packages"].index(pkg)] = None
                    c = start_call(pkg, step[2])
                    if step[0] == "deliver" or c["done"]:
                        res = finish_call(c)
                    else:
                        W["calls"].append(c)
                        res = {"called": c["kind"], "orders": c["orders"]}
            elif step[0] == "advance":
                Clock.now = Clock.now + real_datetime.timedelta(seconds=step[1])
                res = {"advanced": step[1]}
            elif step[0] == "drain":
                rs = []
                k = 0
                while W["calls"] or any(p is not None for p in W["packages"]):
                    if W["calls"]:
                        rs.append(finish_call(W["calls"].pop(0)))
                    else:
                        pkg = next(p for p in W["packages"] if p is not None)
                        W["packages"][W["packages"].index(pkg)] = None
                        rs.append(finish_call(start_call(pkg, step[1][k % len(step[1])]))); k += 1
                    rs[-1]["tx_after"] = dump()["tx"]
                res = {"drained": rs}
            elif step[0] == "respond_hold":
                free = [c for c in W["calls"] if not c.get("inside") and not c["done"]]
                if free:
                    res = respond_and_hold(free[step[1] % len(free)])
            elif step[0] == "respond":
                if W["calls"]:
                    c = W["calls"].pop(step[1] % len(W["calls"]))
                    res = finish_call(c)
            elif step[0] == "xfill":
                live = [b for b in bets if not b["complete"]]
                if live:
                    b = live[step[1] % len(live)]
                    amt = remaining(b) if step[2] >= 2 else remaining(b) // 2
                    b["matched"] += amt
                    if remaining(b) == 0:
                        b["complete"] = True
                    changed.add(b["id"])
                    res = {"x": "fill", "bet": b["id"], "amount": amt}
            elif step[0] == "xlapse":
                live = [b for b in bets if not b["complete"]]
                if live:
                    b = live[step[1] % len(live)]
                    b["cancelled"] += remaining(b); b["complete"] = True
                    changed.add(b["id"])
                    res = {"x": "lapse", "bet": b["id"]}
            elif step[0] == "xforeign":
                _, si, fid, sel = step
                if not any(b["ref_id"] == str(fid) for b in bets):
                    b = {"id": fresh_bet(), "ref_id": str(fid), "strategy": (si % len(W["strategies"])) if isinstance(si, int) else si, "sel": sel, "side": "BACK", "price": 200, "size": 400, "matched": 0,
                         "cancelled": 0, "complete": False}
                    ids.setdefault(str(fid), "f%s" % fid)
                    bets.append(b); changed.add(b["id"])
                    res = {"x": "foreign", "bet": b["id"]}
            elif step[0] == "stream":
                mode = step[1]
                if mode == "stale" and sent_snapshots:
                    rows, facts = sent_snapshots[len(sent_snapshots) // 2]
                else:
                    cache.update(changed)
                    if mode == "full":        # what betfairlightweight hands over: every order in its cache of the market since (re)connection
                        sel_ = [b for b in bets if b["id"] in cache]
                    elif mode == "everything":
                        sel_ = list(bets)
                    elif mode == "changed" or mode == "stale":
                        sel_ = [b for b in bets if b["id"] in changed]
                    else:
                        # a partial update: some of the orders the stream knows about since (re)connection
                        known = [b for b in bets if b["id"] in cache]
                        sel_ = [known[k % len(known)] for k in mode] if known else []
                    rows, facts = [row_of(b) for b in sel_], [fact_of(b) for b in sel_]
                    if mode in ("full", "changed", "everything"):
                        changed.clear()
                    sent_snapshots.append((rows, facts))
                co = types.SimpleNamespace(client=W["client"], orders=rows)
                res = {"rows": facts}
                try:
                    fw._process_current_orders(events.CurrentOrdersEvent([co], exchange=ExchangeType.BETFAIR))
                except Exception as e:
                    res["exc"] = type(e).__name__ + ":" + str(e)[:100]
            elif step[0] == "quiet":
                # a quiet spell of step[1] seconds as the execution's session pool sees it: every pooled http session was returned that much earlier
                # (the pool ages sessions with time.time(), which the fake clock of this driver does not move)
                ex_ = fw.betfair_execution
                for s_ in list(getattr(ex_, "_sessions", [])):
                    s_.time_returned -= step[1]
                res = {"quiet": step[1], "pooled_sessions": len(getattr(ex_, "_sessions", []))}
            elif step[0] == "register":
                st_ = W["strategies"][step[1]]
                if st_ not in list(W["fw"].strategies):
                    W["fw"].add_strategy(st_)
                res = {"registered": step[1]}
            elif step[0] == "restart":
                for c in W["calls"]:
                    finish_call(c, quiet=True)      # the old process is gone; whatever its threads still do is invisible
                new_framework()
                install_hold_hook(W["fw"])
                changed.clear(); cache.clear()
                del sent_snapshots[:]      # a new connection cannot deliver what the old one had sent
                cache.update(b["id"] for b in bets if not b["complete"])      # the initial image of a new subscription holds the live orders only
                res = {"restart": True}
            d = dump()
            d["res"] = res
            d["pending_packages"] = [[p.package_type.value, [name_of(o) for o in p._orders]] for p in W["packages"] if p is not None]
            d["outstanding_calls"] = [[c["kind"], c["orders"]] for c in W["calls"]]
            d["clock"] = Clock.now.timestamp()
            d["exchange"] = [dict(b, ref=ids.get(b["ref_id"], "f%s" % b["ref_id"]), remaining=remaining(b)) for b in bets]
            out.append(d)
        for c in W["calls"]:
            finish_call(c, quiet=True)
        return out


def run_live_callbacks(case):
    """raw-data and custom-event callbacks on a live framework, with an exception injected at one invocation.
    case: {"n": strategies, "data": [datum dicts...], "inject": {"s": idx, "k": invocation index, "exc": "value"|"flumine"} | None,
           "custom": [{"raise": bool, "exc": ..}]}"""
    import types
    from flumine import config as fcfg
    from flumine.exceptions import FlumineException
    betting_client = mock.Mock(); betting_client.username = "u"; betting_client.lightweight = False
    fw = Flumine(client=clients.BetfairClient(betting_client))
    got = []
    class R(BaseStrategy):
        def __init__(self, idx, **kw):
            super().__init__(**kw); self.idx = idx; self.k = 0
        def start(self, flumine):
            return
        def process_raw_data(self, clk, publish_time, datum):
            k = self.k; self.k += 1
            inj = case.get("inject")
            if inj and inj["s"] == self.idx and inj["k"] == k:
                raise (ValueError if inj.get("exc") == "value" else FlumineException)("injected")
            got.append([self.idx, datum.get("id", datum.get("marketId", datum.get("eventId")))])
    strategies = []
    for i in range(case["n"]):
        st = R(i, market_filter={"marketIds": ["1.1"]}, name="r%d" % i)
        fw.add_strategy(st)
        st.streams.append(types.SimpleNamespace(stream_id=777))
        strategies.append(st)
    saved = fcfg.raise_errors
    fcfg.raise_errors = False
    escaped = None
    try:
        try:
            fw._process_raw_data(events.RawDataEvent((777, "c1", 1700000000000, case["data"])))
        except Exception as e:
            escaped = type(e).__name__
        custom = []
        for c in case.get("custom", []):
            def cbk(framework, event, c=c):
                if c["raise"]:
                    raise (ValueError if c.get("exc") == "value" else FlumineException)("custom")
                custom.append("ran")
            try:
                fw._process_custom_event(events.CustomEvent(None, cbk))
            except Exception as e:
                escaped = "custom:" + type(e).__name__
    finally:
        fcfg.raise_errors = saved
    return {"got": got, "escaped": escaped, "custom": custom}


if __name__ == "__main__":
    j = json.load(sys.stdin)
    fn = {"closure": run_live_closure, "orders": run_live_orders, "callbacks": run_live_callbacks, "exec": run_live_exec}[j.get("job", "closure")]
    print(json.dumps({"out": [fn(c) for c in j["cases"]]}, default=str))

"""Drive a REAL live Flumine (BetfairClient whose network client is a Mock) by feeding raw stream messages through a
betfairlightweight StreamListener and dispatching the handler queue the way Flumine.run does.  Wall clock of
flumine.markets.market replaced by a controllable one."""
import sys, json, queue, logging, datetime as real_datetime
logging.disable(logging.CRITICAL)
from unittest import mock
from betfairlightweight import StreamListener
from flumine import Flumine, BaseStrategy, clients
from flumine.events import events
from flumine.events.events import EventType
from flumine.markets.middleware import Middleware
import flumine.markets.market as market_module


class Clock:
    now = real_datetime.datetime(2024, 1, 1, 12, 0, 0)

    @classmethod
    def epoch_ms(cls):
        return int(cls.now.replace(tzinfo=real_datetime.timezone.utc).timestamp() * 1e3)


class FakeDateTime(real_datetime.datetime):
    @classmethod
    def utcnow(cls):
        return Clock.now


class FakeDatetimeModule:
    datetime = FakeDateTime
    timedelta = real_datetime.timedelta
    timezone = real_datetime.timezone


def market_definition(status, event_id, version):
    closed = status == "CLOSED"
    return {"bspMarket": False, "turnInPlayEnabled": True, "persistenceEnabled": True, "marketBaseRate": 5.0, "eventId": event_id, "eventTypeId": "7",
            "numberOfWinners": 1, "bettingType": "ODDS", "marketType": "WIN", "marketTime": "2024-01-01T12:05:00.000Z", "suspendTime": "2024-01-01T12:05:00.000Z",
            "bspReconciled": False, "complete": True, "inPlay": False, "crossMatching": True, "runnersVoidable": False, "numberOfActiveRunners": 0 if closed else 2,
            "betDelay": 0, "status": status,
            "runners": [{"status": "WINNER" if closed else "ACTIVE", "sortPriority": 1, "id": 101}, {"status": "LOSER" if closed else "ACTIVE", "sortPriority": 2, "id": 202}],
            "regulators": ["MR_INT"], "countryCode": "GB", "discountAllowed": True, "timezone": "Europe/London", "openDate": "2024-01-01T12:05:00.000Z", "version": version}


def pump(framework):
    while not framework.handler_queue.empty():
        event = framework.handler_queue.get()
        t = event.EVENT_TYPE
        if t == EventType.MARKET_BOOK:
            framework._process_market_books(event)
        elif t == EventType.CLOSE_MARKET:
            framework._process_close_market(event)
        elif t == EventType.CLEARED_MARKETS:
            framework._process_cleared_markets(event)
        elif t == EventType.CLEARED_ORDERS:
            framework._process_cleared_orders(event)
        elif t == EventType.RAW_DATA:
            framework._process_raw_data(event)
        else:
            raise RuntimeError("unexpected event %s" % event)


class Strat(BaseStrategy):
    def __init__(self, idx, log, **kw):
        super().__init__(**kw)
        self.idx = idx
        self.log = log

    def start(self, flumine):
        return

    def check_market_book(self, market, market_book):
        return True

    def process_market_book(self, market, market_book):
        self.log.append(["book", self.idx, market.market_id])
        for runner in market_book.runners:
            self.get_runner_context(market.market_id, runner.selection_id, runner.handicap)

    def process_closed_market(self, market, market_book):
        status = market_book["marketDefinition"]["status"] if isinstance(market_book, dict) else market_book.status
        self.log.append(["closed", self.idx, market.market_id, status, market.closed])

    def process_raw_data(self, clk, publish_time, datum):
        self.log.append(["raw", self.idx, datum.get("id")])


class StateMiddleware(Middleware):
    def __init__(self):
        self.state = {}

    def __call__(self, market):
        self.state[market.market_id] = self.state.get(market.market_id, 0) + 1

    def add_market(self, market):
        self.state.setdefault(market.market_id, 0)

    def remove_market(self, market):
        self.state.pop(market.market_id, None)


def run_live_closure(case):
    """case: {"strategies": [{"markets": [ids] | "empty": True}], "steps": [["book", mid, status] | ["advance", secs] | ["cleared", mid]]}"""
    Clock.now = real_datetime.datetime(2024, 1, 1, 12, 0, 0)
    with mock.patch.object(market_module, "datetime", FakeDatetimeModule):
        betting_client = mock.Mock(); betting_client.username = "u"; betting_client.lightweight = False
        client = clients.BetfairClient(betting_client)
        fw = Flumine(client=client)
        log = []
        strategies = []
        all_markets = sorted({s[1] for s in case["steps"] if s[0] in ("book", "cleared")})
        for i, sp in enumerate(case["strategies"]):
            mf = {} if sp.get("empty") else {"marketIds": sp["markets"]}
            st = Strat(i, log, market_filter=mf, name="s%d" % i)
            fw.add_strategy(st)
            strategies.append(st)
        mw = StateMiddleware()
        fw.add_market_middleware(mw)
        # one listener per distinct stream of the framework
        feeds = {}
        from flumine.streams.marketstream import MarketStream
        for stream in fw.streams:
            if isinstance(stream, MarketStream):
                q = queue.Queue()
                ls = StreamListener(output_queue=q, max_latency=None)
                ls.register_stream(stream.stream_id, "marketSubscription")
                feeds[stream.stream_id] = (stream, ls, q)
        versions, clk = {}, [0]
        out = []
        for step in case["steps"]:
            del log[:]
            if step[0] == "advance":
                Clock.now = Clock.now + real_datetime.timedelta(seconds=step[1])
            elif step[0] == "cleared":
                m = fw.markets.markets.get(step[1])
                if m is not None:
                    m.orders_cleared.append("u"); m.market_cleared.append("u")
            else:
                _, mid, status = step
                versions[mid] = versions.get(mid, 0) + 1
                clk[0] += 1
                for sid, (stream, ls, q) in feeds.items():
                    ids = stream.market_filter.get("marketIds") if isinstance(stream.market_filter, dict) else None
                    if ids is not None and mid not in ids:
                        continue
                    mc = {"id": mid, "marketDefinition": market_definition(status, "31000001", versions[mid]), "img": True}
                    if status != "CLOSED":
                        mc["rc"] = [{"id": 101, "atb": [[2.0, 50]], "atl": [[2.1, 50]]}, {"id": 202, "atb": [[2.0, 50]], "atl": [[2.1, 50]]}]
                    msg = {"op": "mcm", "id": sid, "clk": str(clk[0]), "pt": Clock.epoch_ms(), "mc": [mc]}
                    ls.on_data(json.dumps(msg))
                    while not q.empty():
                        fw.handler_queue.put(events.MarketBookEvent(q.get()))
                    pump(fw)
            snap = {}
            for mid in all_markets:
                m = fw.markets.markets.get(mid)
                snap[mid] = None if m is None else {"closed": m.closed, "flags": bool(m.orders_cleared or m.market_cleared),
                                                     "ctx": sorted(i for i, s in enumerate(strategies) if any(k[0] == mid for k in s._invested)),
                                                     "mw": mid in mw.state}
            out.append({"log": list(log), "markets": snap, "streams": {str(sid): [i for i, st in enumerate(strategies) if sid in st.stream_ids] for sid in feeds}})
        return out




# ---------------------------------------------------------------------------------------------------------------------
# orders on a live framework: placements (execution layer stubbed: packages captured), order-stream snapshots, closures
def current_order_row(r, orders_by_name, strategies):
    """r: {"ref": name of a local order | ["foreign", strategy idx|name, id], "bet": str, "status": .., "matched": c, "remaining": c, "cancelled": c, ...}"""
    import types
    if isinstance(r["ref"], list):
        from flumine.utils import create_cheap_hash, STRATEGY_NAME_HASH_LENGTH
        h = strategies[r["ref"][1]].name_hash if isinstance(r["ref"][1], int) else create_cheap_hash(r["ref"][1], STRATEGY_NAME_HASH_LENGTH)
        ref = "%s-%s" % (h, r["ref"][2])
    else:
        ref = orders_by_name[r["ref"]].customer_order_ref
    f = lambda k: r.get(k, 0) / 100
    return types.SimpleNamespace(
        customer_order_ref=ref, customer_strategy_ref="x", market_id=r["market"], bet_id=r["bet"], selection_id=r.get("sel", 101), handicap=r.get("hc", 0),
        order_type="LIMIT", side=r.get("side", "BACK"), status=r["status"], persistence_type="LAPSE",
        price_size=types.SimpleNamespace(price=r.get("price", 200) / 100, size=(r.get("matched", 0) + r.get("remaining", 0) + r.get("cancelled", 0) + r.get("lapsed", 0) + r.get("voided", 0)) / 100),
        size_matched=f("matched"), size_remaining=f("remaining"), size_cancelled=f("cancelled"), size_lapsed=f("lapsed"), size_voided=f("voided"),
        average_price_matched=r.get("avg", 0) / 100, bsp_liability=0.0,
        placed_date=Clock.now, matched_date=None, cancelled_date=None, lapsed_date=None)


def dump_blotter(fw, strategies, cls, name_of):
    out = {}
    for mid, market in fw.markets.markets.items():
        bl = market.blotter
        tix = {}
        tname = lambda t: tix.setdefault(id(t), len(tix))
        cidx = {id(c): i for i, c in enumerate(cls)}
        sidx = {id(s): i for i, s in enumerate(strategies)}
        out[mid] = {
            "closed": market.closed,
            "orders": [[name_of(o), sidx.get(id(o.trade.strategy), -1), o.selection_id, cidx.get(id(o.client), -1), tname(o.trade), o.bet_id,
                        o.status.value if o.status else None, int(round((o.size_matched or 0) * 100)), int(round((o.size_remaining or 0) * 100)), o.complete,
                        o.trade.status.value] for o in bl._orders.values()],
            "keys_match": all(k == o.id for k, o in bl._orders.items()),
            "strategy": {str(sidx.get(id(st), -1)): [name_of(o) for o in os_] for st, os_ in bl._strategy_orders.items()},
            "selection": {"%d/%s" % (sidx.get(id(k[0]), -1), k[1]): [name_of(o) for o in os_] for k, os_ in bl._strategy_selection_orders.items()},
            "client": {str(cidx.get(id(c), -1)): [name_of(o) for o in os_] for c, os_ in bl._client_orders.items()},
            "client_strategy": {"%d/%d" % (cidx.get(id(k[0]), -1), sidx.get(id(k[1]), -1)): [name_of(o) for o in os_] for k, os_ in bl._client_strategy_orders.items()},
            "trades": {str(tname(t)): [name_of(o) for o in os_] for t, os_ in bl._trades.items()},
            "bet_lookup": {str(b): name_of(o) for b, o in bl._bet_id_lookup.items()},
            "live": [name_of(o) for o in bl._live_orders],
            "lookups_ok": all(fw.markets.get_order(mid, o.id) is o for o in bl._orders.values()),
            "ctx": {"%d/%s/%s" % (i, k[1], k[2]): [len(rc.trades), len(rc.live_trades)] for i, s in enumerate(strategies) for k, rc in s._invested.items() if k[0] == mid},
        }
    return out


def run_live_orders(case):
    """case: {"strategies": n, "steps": [...]}; steps:
       ["book", mid, status] ["advance", s]
       ["place", mid, name, strat, sel, side, price_c, size_c]      market.place_order with a real BetfairOrder (package captured, not sent)
       ["ack", name, bet]                                          what a SUCCESS place response does: bet id + executable()
       ["stream", [rows]]                                          CurrentOrdersEvent through fw._process_current_orders
    """
    import types
    from flumine.order.trade import Trade
    from flumine.order.ordertype import LimitOrder
    Clock.now = real_datetime.datetime(2024, 1, 1, 12, 0, 0)
    with mock.patch.object(market_module, "datetime", FakeDatetimeModule):
        betting_client = mock.Mock(); betting_client.username = "u"; betting_client.lightweight = False
        client = clients.BetfairClient(betting_client)
        fw = Flumine(client=client)
        log = []
        strategies = []
        mids = sorted({s[1] for s in case["steps"] if s[0] in ("book", "place")})
        for i in range(case["strategies"]):
            st = Strat(i, log, market_filter={"marketIds": mids}, name="s%d" % i, max_trade_count=10 ** 6, max_live_trade_count=10 ** 6,
                       max_order_exposure=None, max_selection_exposure=None)
            fw.add_strategy(st)
            strategies.append(st)
        packages = []
        fw.process_order_package = lambda p: packages.append([p.package_type.value, [name_of(o) for o in p._orders]])
        from flumine.streams.marketstream import MarketStream
        stream = [s for s in fw.streams if isinstance(s, MarketStream)][0]
        q = queue.Queue()
        ls = StreamListener(output_queue=q, max_latency=None)
        ls.register_stream(stream.stream_id, "marketSubscription")
        names, rev = {}, {}
        def name_of(o):
            if id(o) not in rev:
                rev[id(o)] = "a%d" % len([k for k in rev.values() if k.startswith("a")])
                names[rev[id(o)]] = o
            return rev[id(o)]
        versions, clk, out = {}, [0], []
        for step in case["steps"]:
            res = None
            if step[0] == "advance":
                Clock.now = Clock.now + real_datetime.timedelta(seconds=step[1])
            elif step[0] == "book":
                _, mid, status = step
                versions[mid] = versions.get(mid, 0) + 1; clk[0] += 1
                mc = {"id": mid, "marketDefinition": market_definition(status, "31000001", versions[mid]), "img": True}
                if status != "CLOSED":
                    mc["rc"] = [{"id": 101, "atb": [[2.0, 50]], "atl": [[2.1, 50]]}, {"id": 202, "atb": [[2.0, 50]], "atl": [[2.1, 50]]}]
                ls.on_data(json.dumps({"op": "mcm", "id": stream.stream_id, "clk": str(clk[0]), "pt": Clock.epoch_ms(), "mc": [mc]}))
                while not q.empty():
                    fw.handler_queue.put(events.MarketBookEvent(q.get()))
                pump(fw)
            elif step[0] == "place":
                _, mid, name, si, sel, side, price, size = step
                market = fw.markets.markets.get(mid)
                if market is not None:
                    tr = Trade(mid, sel, 0, strategies[si])
                    o = tr.create_order(side, LimitOrder(price / 100, size / 100))
                    names[name] = o; rev[id(o)] = name
                    try:
                        res = market.place_order(o)
                    except Exception as e:
                        res = "EXC:" + type(e).__name__
            elif step[0] == "ack":
                o = names.get(step[1])
                if o is not None and o.status is not None:
                    o.bet_id = step[2]
                    o.responses.placed()
                    with o.trade:
                        o.executable()
            elif step[0] == "stream":
                rows = [current_order_row(r, names, strategies) for r in step[1] if (isinstance(r["ref"], list) or r["ref"] in names)]
                co = types.SimpleNamespace(client=client, orders=rows)
                from flumine.clients.clients import ExchangeType
                ev = events.CurrentOrdersEvent([co], exchange=ExchangeType.BETFAIR)
                try:
                    fw._process_current_orders(ev)
                except Exception as e:
                    res = "EXC:" + type(e).__name__ + ":" + str(e)[:100]
            out.append({"res": res, "blotters": dump_blotter(fw, strategies, [client], name_of), "packages": list(packages)})
        return out


def run_live_callbacks(case):
    """raw-data and custom-event callbacks on a live framework, with an exception injected at one invocation.
    case: {"n": strategies, "data": [datum dicts...], "inject": {"s": idx, "k": invocation index, "exc": "value"|"flumine"} | None,
           "custom": [{"raise": bool, "exc": ..}]}"""
    import types
    from flumine import config as fcfg
    from flumine.exceptions import FlumineException
    betting_client = mock.Mock(); betting_client.username = "u"; betting_client.lightweight = False
    fw = Flumine(client=clients.BetfairClient(betting_client))
    got = []
    class R(BaseStrategy):
        def __init__(self, idx, **kw):
            super().__init__(**kw); self.idx = idx; self.k = 0
        def start(self, flumine):
            return
        def process_raw_data(self, clk, publish_time, datum):
            k = self.k; self.k += 1
            inj = case.get("inject")
            if inj and inj["s"] == self.idx and inj["k"] == k:
                raise (ValueError if inj.get("exc") == "value" else FlumineException)("injected")
            got.append([self.idx, datum.get("id", datum.get("marketId", datum.get("eventId")))])
    strategies = []
    for i in range(case["n"]):
        st = R(i, market_filter={"marketIds": ["1.1"]}, name="r%d" % i)
        fw.add_strategy(st)
        st.streams.append(types.SimpleNamespace(stream_id=777))
        strategies.append(st)
    saved = fcfg.raise_errors
    fcfg.raise_errors = False
    escaped = None
    try:
        try:
            fw._process_raw_data(events.RawDataEvent((777, "c1", 1700000000000, case["data"])))
        except Exception as e:
            escaped = type(e).__name__
        custom = []
        for c in case.get("custom", []):
            def cbk(framework, event, c=c):
                if c["raise"]:
                    raise (ValueError if c.get("exc") == "value" else FlumineException)("custom")
                custom.append("ran")
            try:
                fw._process_custom_event(events.CustomEvent(None, cbk))
            except Exception as e:
                escaped = "custom:" + type(e).__name__
    finally:
        fcfg.raise_errors = saved
    return {"got": got, "escaped": escaped, "custom": custom}


if __name__ == "__main__":
    j = json.load(sys.stdin)
    fn = {"closure": run_live_closure, "orders": run_live_orders, "callbacks": run_live_callbacks}[j.get("job", "closure")]
    print(json.dumps({"out": [fn(c) for c in j["cases"]]}, default=str))

"""Drive a REAL live Flumine (BetfairClient whose network client is a Mock) by feeding raw stream messages through a
betfairlightweight StreamListener and dispatching the handler queue the way Flumine.run does.  Wall clock of
flumine.markets.market replaced by a controllable one."""
import sys, json, queue, logging, datetime as real_datetime
logging.disable(logging.CRITICAL)
from unittest import mock
from betfairlightweight import StreamListener
from flumine import Flumine, BaseStrategy, clients
from flumine.events import events
from flumine.events.events import EventType
from flumine.markets.middleware import Middleware
import flumine.markets.market as market_module


class Clock:
    now = real_datetime.datetime(2024, 1, 1, 12, 0, 0)

    @classmethod
    def epoch_ms(cls):
        return int(cls.now.replace(tzinfo=real_datetime.timezone.utc).timestamp() * 1e3)


class FakeDateTime(real_datetime.datetime):
    @classmethod
    def utcnow(cls):
        return Clock.now


class FakeDatetimeModule:
    datetime = FakeDateTime
    timedelta = real_datetime.timedelta
    timezone = real_datetime.timezone


def market_definition(status, event_id, version):
    closed = status == "CLOSED"
    return {"bspMarket": False, "turnInPlayEnabled": True, "persistenceEnabled": True, "marketBaseRate": 5.0, "eventId": event_id, "eventTypeId": "7",
            "numberOfWinners": 1, "bettingType": "ODDS", "marketType": "WIN", "marketTime": "2024-01-01T12:05:00.000Z", "suspendTime": "2024-01-01T12:05:00.000Z",
            "bspReconciled": False, "complete": True, "inPlay": False, "crossMatching": True, "runnersVoidable": False, "numberOfActiveRunners": 0 if closed else 2,
            "betDelay": 0, "status": status,
            "runners": [{"status": "WINNER" if closed else "ACTIVE", "sortPriority": 1, "id": 101}, {"status": "LOSER" if closed else "ACTIVE", "sortPriority": 2, "id": 202}],
            "regulators": ["MR_INT"], "countryCode": "GB", "discountAllowed": True, "timezone": "Europe/London", "openDate": "2024-01-01T12:05:00.000Z", "version": version}


def pump(framework):
    while not framework.handler_queue.empty():
        event = framework.handler_queue.get()
        t = event.EVENT_TYPE
        if t == EventType.MARKET_BOOK:
            framework._process_market_books(event)
        elif t == EventType.CLOSE_MARKET:
            framework._process_close_market(event)
        elif t == EventType.CLEARED_MARKETS:
            framework._process_cleared_markets(event)
        elif t == EventType.CLEARED_ORDERS:
            framework._process_cleared_orders(event)
        elif t == EventType.RAW_DATA:
            framework._process_raw_data(event)
        else:
            raise RuntimeError("unexpected event %s" % event)


class Strat(BaseStrategy):
    def __init__(self, idx, log, **kw):
        super().__init__(**kw)
        self.idx = idx
        self.log = log

    def start(self, flumine):
        return

    def check_market_book(self, market, market_book):
        return True

    def process_market_book(self, market, market_book):
        self.log.append(["book", self.idx, market.market_id])
        for runner in market_book.runners:
            self.get_runner_context(market.market_id, runner.selection_id, runner.handicap)

    def process_closed_market(self, market, market_book):
        status = market_book["marketDefinition"]["status"] if isinstance(market_book, dict) else market_book.status
        self.log.append(["closed", self.idx, market.market_id, status, market.closed])

    def process_raw_data(self, clk, publish_time, datum):
        self.log.append(["raw", self.idx, datum.get("id")])


class StateMiddleware(Middleware):
    def __init__(self):
        self.state = {}

    def __call__(self, market):
        self.state[market.market_id] = self.state.get(market.market_id, 0) + 1

    def add_market(self, market):
        self.state.setdefault(market.market_id, 0)

    def remove_market(self, market):
        self.state.pop(market.market_id, None)


def run_live_closure(case):
    """case: {"strategies": [{"markets": [ids] | "empty": True}], "steps": [["book", mid, status] | ["advance", secs] | ["cleared", mid]]}"""
    Clock.now = real_datetime.datetime(2024, 1, 1, 12, 0, 0)
    with mock.patch.object(market_module, "datetime", FakeDatetimeModule):
        betting_client = mock.Mock(); betting_client.username = "u"; betting_client.lightweight = False
        client = clients.BetfairClient(betting_client)
        fw = Flumine(client=client)
        log = []
        strategies = []
        all_markets = sorted({s[1] for s in case["steps"] if s[0] in ("book", "cleared")})
        for i, sp in enumerate(case["strategies"]):
            mf = {} if sp.get("empty") else {"marketIds": sp["markets"]}
            st = Strat(i, log, market_filter=mf, name="s%d" % i)
            fw.add_strategy(st)
            strategies.append(st)
        mw = StateMiddleware()
        fw.add_market_middleware(mw)
        # one listener per distinct stream of the framework
        feeds = {}
        from flumine.streams.marketstream import MarketStream
        for stream in fw.streams:
            if isinstance(stream, MarketStream):
                q = queue.Queue()
                ls = StreamListener(output_queue=q, max_latency=None)
                ls.register_stream(stream.stream_id, "marketSubscription")
                feeds[stream.stream_id] = (stream, ls, q)
        versions, clk = {}, [0]
        out = []
        for step in case["steps"]:
            del log[:]
            if step[0] == "advance":
                Clock.now = Clock.now + real_datetime.timedelta(seconds=step[1])
            elif step[0] == "cleared":
                m = fw.markets.markets.get(step[1])
                if m is not None:
                    m.orders_cleared.append("u"); m.market_cleared.append("u")
            else:
                _, mid, status = step
                versions[mid] = versions.get(mid, 0) + 1
                clk[0] += 1
                for sid, (stream, ls, q) in feeds.items():
                    ids = stream.market_filter.get("marketIds") if isinstance(stream.market_filter, dict) else None
                    if ids is not None and mid not in ids:
                        continue
                    mc = {"id": mid, "marketDefinition": market_definition(status, "31000001", versions[mid]), "img": True}
                    if status != "CLOSED":
                        mc["rc"] = [{"id": 101, "atb": [[2.0, 50]], "atl": [[2.1, 50]]}, {"id": 202, "atb": [[2.0, 50]], "atl": [[2.1, 50]]}]
                    msg = {"op": "mcm", "id": sid, "clk": str(clk[0]), "pt": Clock.epoch_ms(), "mc": [mc]}
                    ls.on_data(json.dumps(msg))
                    while not q.empty():
                        fw.handler_queue.put(events.MarketBookEvent(q.get()))
                    pump(fw)
            snap = {}
            for mid in all_markets:
                m = fw.markets.markets.get(mid)
                snap[mid] = None if m is None else {"closed": m.closed, "flags": bool(m.orders_cleared or m.market_cleared),
                                                     "ctx": sorted(i for i, s in enumerate(strategies) if any(k[0] == mid for k in s._invested)),
                                                     "mw": mid in mw.state}
            out.append({"log": list(log), "markets": snap, "streams": {str(sid): [i for i, st in enumerate(strategies) if sid in st.stream_ids] for sid in feeds}})
        return out


if __name__ == "__main__":
    j = json.load(sys.stdin)
    print(json.dumps({"out": [run_live_closure(c) for c in j["cases"]]}))

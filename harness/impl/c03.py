"""C03 guard table: every (order class, order type, status, bet id known?, request) on REAL order objects.
stdin: {"cases": [[cls, otype, status, bet, req], ...]}  cls 0 Betfair / 1 Betdaq; otype 0 LIMIT / 1 LIMIT_ON_CLOSE / 2 MARKET_ON_CLOSE;
status name; bet 0/1; req 0 cancel / 1 cancel with reduction 1.00 / 2 cancel with reduction larger than the remaining / 3 update (other persistence or
size delta) / 4 update (same persistence) / 5 replace (other price) / 6 replace (same price)
stdout: {"out": [[accepted, raised OrderUpdateError, state unchanged, new status], ...]}"""
import sys, json, copy
from lib import *
from flumine.order.ordertype import BetdaqLimitOrder
from flumine.exceptions import OrderUpdateError


def snap(o):
    return (o.status, list(o.status_log), dict(o.update_data), o.bet_id, getattr(o.order_type, "price", None), getattr(o.order_type, "persistence_type", None), o.complete)


def one(c):
    cls, otype, status, bet, req = c
    st = S(market_filter={}, name="s")
    tr = Trade("1.1", 7, 0, st)
    if cls == 0:
        ot = [LimitOrder(price=2.0, size=5.0, persistence_type="LAPSE"), LimitOnCloseOrder(liability=5.0, price=2.0), MarketOnCloseOrder(liability=5.0)][otype]
        o = tr.create_order("BACK", ot)
    else:
        if otype != 0:
            return None
        o = tr.create_betdaq_order("BACK", BetdaqLimitOrder(price=2.0, size=5.0, betdaq_runner_id=1, runner_reset_count=0, withdrawal_sequence_number=0))
    o.status = STATUS[status]
    if o.status is not None:
        o.status_log.append(o.status)
    o.complete = o._is_complete() if o.status is not None else False
    o.bet_id = "123" if bet else None
    before = snap(o)
    raised, other = False, None
    try:
        if req in (0, 1, 2):
            o.cancel({0: None, 1: 1.0, 2: 9.0}[req])
        elif req in (3, 4):
            if cls == 0:
                o.update("PERSIST" if req == 3 else "LAPSE")
            else:
                o.update(size_delta=1.0 if req == 3 else 0.0)
        else:
            if cls == 1:
                return None
            o.replace(3.0 if req == 5 else 2.0)
    except OrderUpdateError:
        raised = True
    except Exception as e:
        other = type(e).__name__
    after = snap(o)
    accepted = (not raised) and other is None
    return [accepted, raised, before == after, STATUS_NAME.get(o.status, "?"), other]


if __name__ == "__main__":
    j = json.load(sys.stdin)
    print(json.dumps({"out": [one(c) for c in j["cases"]]}))

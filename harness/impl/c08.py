"""C08 implementation driver: SimulatedOrder.profit on real orders, Blotter.process_closed_market, Market.cleared."""
import sys, json, types
from unittest import mock
from lib import *
from flumine.markets.market import Market
from flumine.clients.simulatedclient import SimulatedClient
config.simulated = True


def job_profit(j):
    strat = S(market_filter={}, name="s")
    out = []
    for c in j["cases"]:
        d = {"sel": 1, "side": c["side"], "kind": "LINE" if c["line"] else "L", "status": "EXECUTION_COMPLETE", "matched": c["m"], "avg": 0, "rem": 0,
             "price": 200, "liab": 0}
        o = make_order(strat, "1.1", d)
        o.simulated.size_matched = c["m"] / 100
        o.simulated.average_price_matched = c["a"] / 10000
        o.runner_status = c["result"]
        o.market_type = "EACH_WAY" if c["ew"] else "WIN"
        o.each_way_divisor = c["div"]
        o.number_of_dead_heat_winners = c["dead"]
        o.line_range_result = None if c["lr"] is None else c["lr"] / 10000
        out.append(int(round(o.simulated.profit * 100)))
    return out


def job_closed(j):
    """process_closed_market + cleared on a real Market/Blotter with real orders of 1-2 clients"""
    out = []
    for c in j["cases"]:
        strat = S(market_filter={}, name="s")
        cls = [SimulatedClient(username="c%d" % i) for i in range(c["nclients"])]
        for cl, rate in zip(cls, c["rates"]):
            cl.commission_base = rate
        market = Market(mock.Mock(), "1.1", None)
        if c.get("line_result") is not None:
            market.context["line_range_result"] = c["line_result"] / 10000
        orders = []
        for d in c["orders"]:
            o = make_order(strat, "1.1", dict(d, status="EXECUTION_COMPLETE", rem=0, price=200, liab=0, matched=d["m"], avg=0, kind="LINE" if d["line"] else "L"), client=cls[d["client"]])
            o.simulated.size_matched = d["m"] / 100
            o.simulated.average_price_matched = d["a"] / 10000
            market.blotter[o.id] = o
            orders.append(o)
        runners = [types.SimpleNamespace(selection_id=r["sel"], handicap=r.get("hc", 0), status=r["status"]) for r in c["runners"]]
        mb = types.SimpleNamespace(runners=runners, number_of_winners=c["declared"],
                                   market_definition=types.SimpleNamespace(market_type=c["mtype"], each_way_divisor=c["div"]))
        market.blotter.process_closed_market(market, mb)
        per_order = [{"result": o.runner_status, "dead": o.number_of_dead_heat_winners, "div": o.each_way_divisor, "mtype": o.market_type,
                      "lr": None if o.line_range_result is None else int(round(o.line_range_result * 10000)), "profit": int(round(o.profit * 100))} for o in orders]
        cleared = []
        for cl in cls:
            r = market.cleared(cl)
            cleared.append([int(round(r["profit"] * 100)), int(round(r["commission"] * 100)), r["betCount"]])
        out.append({"orders": per_order, "cleared": cleared})
    return out


if __name__ == "__main__":
    j = json.load(sys.stdin)
    print(json.dumps({"out": {"profit": job_profit, "closed": job_closed}[j["job"]](j)}))

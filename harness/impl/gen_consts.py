"""Regenerates coq/Gen/*.v from the working tree of /repo (run under /venv/bin/python
with PYTHONPATH=/repo).  Constants and finite tables are read from the imported
modules / obtained by executing the real code, and printed as Gallina."""
import sys, os, json
from fractions import Fraction
from decimal import Decimal

VERIF = os.path.dirname(os.path.dirname(os.path.dirname(os.path.abspath(__file__))))
GEN = os.path.join(VERIF, "coq", "Gen")
os.makedirs(GEN, exist_ok=True)

import logging
logging.disable(logging.CRITICAL)


def z(n):
    n = int(n)
    return "(%d)" % n if n < 0 else "%d" % n


def zl(xs):
    return "[" + "; ".join(z(x) for x in xs) + "]"


def to_int(x, scale):
    fr = Fraction(Decimal(str(x))) * scale
    if fr.denominator != 1:
        raise SystemExit("gen_consts: %r not on 1/%d grid" % (x, scale))
    return int(fr)


def write(name, body):
    path = os.path.join(GEN, name + ".v")
    txt = "(* GENERATED from /repo by harness/impl/gen_consts.py - do not edit *)\nFrom Coq Require Import ZArith List String.\nImport ListNotations.\nOpen Scope Z_scope.\n" + body
    old = open(path).read() if os.path.exists(path) else None
    if old != txt:
        with open(path, "w") as fh:
            fh.write(txt)


def gen_ladder():
    from flumine import utils
    def cut(cs):
        out = []
        for c, step in cs:
            inc = Fraction(100) / Fraction(Decimal(str(step)))
            if inc.denominator != 1:
                raise SystemExit("cutoff step %r is not a whole number of cents" % (step,))
            out.append("(%s, %s)" % (z(to_int(c, 100)), z(int(inc))))
        return "[" + "; ".join(out) + "]"
    body = ""
    body += "Definition CUTOFFS : list (Z*Z) := %s.\n" % cut(utils.CUTOFFS)
    body += "Definition BETDAQ_CUTOFFS : list (Z*Z) := %s.\n" % cut(utils.BETDAQ_CUTOFFS)
    body += "Definition MIN_PRICE := %s.\nDefinition MAX_PRICE := %s.\n" % (z(to_int(utils.MIN_PRICE, 100)), z(to_int(utils.MAX_PRICE, 100)))
    body += "Definition BETDAQ_MIN_PRICE := %s.\nDefinition BETDAQ_MAX_PRICE := %s.\n" % (z(to_int(utils.BETDAQ_MIN_PRICE, 100)), z(to_int(utils.BETDAQ_MAX_PRICE, 100)))
    body += "(* the lists the module actually built at import time *)\n"
    body += "Definition PRICES : list Z := %s.\n" % zl(to_int(p, 100) for p in utils.PRICES)
    body += "Definition BETDAQ_PRICES : list Z := %s.\n" % zl(to_int(p, 100) for p in utils.BETDAQ_PRICES)
    pf = [to_int(p, 100) for p in utils.PRICES_FLOAT]
    body += "Definition PRICES_FLOAT : list Z := %s.\n" % zl(pf)
    body += "Definition BETDAQ_PRICES_FLOAT : list Z := %s.\n" % zl(to_int(p, 100) for p in utils.BETDAQ_PRICES_FLOAT)
    # FINEST: too long for a literal; summarised (length, first, last, all consecutive by 1 cent up to the last step)
    fp = [to_int(p, 100) for p in utils.FINEST_PRICES]
    consecutive = all(b - a == 1 for a, b in zip(fp[:-2], fp[1:-1]))
    body += "Definition FINEST_LEN := %s.\nDefinition FINEST_FIRST := %s.\nDefinition FINEST_LAST := %s.\nDefinition FINEST_PENULT := %s.\nDefinition FINEST_CONSECUTIVE := %s.\n" % (
        z(len(fp)), z(fp[0]), z(fp[-1]), z(fp[-2]), "true" if consecutive else "false")
    from betfairlightweight.metadata import currency_parameters
    rows = []
    for cur in sorted(currency_parameters):
        cp = currency_parameters[cur]
        rows.append("(%s, %s, %s)" % (z(to_int(cp["min_bet_size"], 1000)), z(to_int(cp["min_bet_payout"], 1000)), z(to_int(cp["min_bsp_liability"], 1000))))
    body += "(* betfairlightweight currency_parameters, 1/1000: (min_bet_size, min_bet_payout, min_bsp_liability) *)\n"
    body += "Definition CURRENCIES : list (Z*Z*Z) := [%s].\n" % "; ".join(rows)
    write("LadderC", body)


def gen_refs():
    from flumine import utils, config
    from flumine.order import order as o
    body = "Definition HASH_LEN : nat := %d%%nat.\n" % utils.STRATEGY_NAME_HASH_LENGTH
    body += "Definition VALID_CHARS : list Z := %s.\n" % zl(sorted(ord(c) for c in o.VALID_BETFAIR_CUSTOMER_ORDER_REF_CHARACTERS))
    body += "Definition DEFAULT_SEP : list Z := %s.\n" % zl(ord(c) for c in config.order_sep)
    write("RefsC", body)


STAT = {"PENDING": "SPending", "CANCELLING": "SCancelling", "UPDATING": "SUpdating", "REPLACING": "SReplacing",
        "EXECUTABLE": "SExecutable", "EXECUTION_COMPLETE": "SExecComplete", "EXPIRED": "SExpired", "VIOLATION": "SViolation"}


def sl(xs):
    return "[" + "; ".join(STAT[x.name] for x in xs) + "]"


def gen_status():
    from flumine.order import order as o
    from flumine.markets import blotter as b, middleware as mw
    body = "From V Require Import Model.Status.\n"
    body += "Definition LIVE_STATUS : list status := %s.\n" % sl(o.LIVE_STATUS)
    body += "Definition COMPLETE_STATUS : list status := %s.\n" % sl(o.COMPLETE_STATUS)
    body += "Definition PENDING_STATUS : list status := %s.\n" % sl(b.PENDING_STATUS)
    body += "Definition MW_LIVE_STATUS : list status := %s.\n" % sl(mw.LIVE_STATUS)
    body += "Definition WIN_MIN_ADJ_FACTOR_X100 := %s.\n" % z(to_int(mw.WIN_MINIMUM_ADJUSTMENT_FACTOR, 100))
    body += "Definition IMPLIED_COMMISSION_RATE_X100 := %s.\n" % z(to_int(b.IMPLIED_COMMISSION_RATE, 100))
    write("StatusC", body)


def gen_delays():
    """first elapsed time (whole ms) at which the REAL float comparison `elapsed_seconds > simulated_delay` holds,
    for every package kind and bet delay 0..12, under the default latencies"""
    import datetime, types
    from flumine import config
    from flumine.order.orderpackage import BaseOrderPackage, OrderPackageType
    from flumine.clients.clients import ExchangeType
    client = types.SimpleNamespace(execution=types.SimpleNamespace(EXCHANGE=ExchangeType.SIMULATED))
    kinds = [("KPlace", OrderPackageType.PLACE), ("KCancel", OrderPackageType.CANCEL), ("KUpdate", OrderPackageType.UPDATE), ("KReplace", OrderPackageType.REPLACE)]
    rows = []
    for kn, kt in kinds:
        for bd in range(0, 13):
            pkg = BaseOrderPackage(client=client, market_id="1.1", orders=[], package_type=kt, bet_delay=bd)
            delay = pkg.simulated_delay
            ms = int(delay * 1000) - 3
            while not (datetime.timedelta(milliseconds=ms).total_seconds() > delay):
                ms += 1
            rows.append("(%s, %s, %s)" % (kn, z(bd), z(ms)))
    body = "From V Require Import Model.SimLoop.\n"
    body += "Definition LAT_PLACE := %s.\nDefinition LAT_CANCEL := %s.\nDefinition LAT_UPDATE := %s.\nDefinition LAT_REPLACE := %s.\n" % tuple(
        z(to_int(getattr(config, k), 1000)) for k in ("place_latency", "cancel_latency", "update_latency", "replace_latency"))
    body += "Definition DELAY_TABLE : list (pkind * Z * Z) := [%s].\n" % "; ".join(rows)
    write("DelayC", body)


def gen_txn():
    from flumine.order.orderpackage import BetfairOrderPackage, BetdaqOrderPackage, OrderPackageType as T
    body = "From V Require Import Model.Txn.\n"
    for nm, cls in (("BETFAIR_LIMITS", BetfairOrderPackage), ("BETDAQ_LIMITS", BetdaqOrderPackage)):
        vals = [cls.order_limit(t) for t in (T.PLACE, T.CANCEL, T.UPDATE, T.REPLACE)]
        vals = [v if v is not None else 0 for v in vals]
        body += "Definition %s : limits_of := fun k => match k with KdPlace => %d%%nat | KdCancel => %d%%nat | KdUpdate => %d%%nat | KdReplace => %d%%nat end.\n" % ((nm,) + tuple(vals))
    write("TxnC", body)


def gen_live():
    from unittest import mock
    from flumine.order.orderpackage import BetfairOrderPackage, OrderPackageType
    from flumine.clients.clients import ExchangeType
    client = mock.Mock(); client.execution.EXCHANGE = ExchangeType.BETFAIR
    pk = BetfairOrderPackage(client=client, market_id="1.1", orders=[], package_type=OrderPackageType.PLACE, bet_delay=0)
    if not pk._retry:
        raise SystemExit("gen_consts: retries are switched off by default")
    body = "Definition MAX_RETRIES := %s.\n" % z(pk._max_retries)
    write("LiveC", body)


SECTIONS = {"live": gen_live, "txn": gen_txn, "ladder": gen_ladder, "refs": gen_refs, "status": gen_status, "delays": gen_delays}

if __name__ == "__main__":
    which = sys.argv[1:] or sorted(SECTIONS)
    for w in which:
        SECTIONS[w]()
    print(json.dumps({"ok": True, "sections": which}))

"""C18 implementation driver: real MaxTransactionCount controls on real clients, simulated and patched clocks."""
import sys, json, threading, datetime as _dt
from lib import *
from unittest import mock
from flumine.controls.clientcontrols import MaxTransactionCount
from flumine.clients.simulatedclient import SimulatedClient
from flumine.order.orderpackage import OrderPackageType
from flumine.exceptions import ControlError
from flumine.simulation.utils import SimulatedDateTime

EPOCH = _dt.datetime(1970, 1, 1)


def run_history(h, clockmode):
    """h: {limits: [L|None per client], events: [[client, 'add', n, failed] | [client, 'req', now_ms, force, kind]]}"""
    clients, ctls = [], []
    for L in h["limits"]:
        c = SimulatedClient(transaction_limit=L)
        ctl = MaxTransactionCount(None, c)
        c.trading_controls.append(ctl)
        clients.append(c); ctls.append(ctl)
    strat = S(market_filter={}, name="s")
    kinds = {"place": OrderPackageType.PLACE, "cancel": OrderPackageType.CANCEL, "update": OrderPackageType.UPDATE, "replace": OrderPackageType.REPLACE}
    out = []

    def set_time(ms):
        t = EPOCH + _dt.timedelta(milliseconds=ms)
        if clockmode == "sim":
            sd(t)
        else:
            fake.utcnow.return_value = t

    def body():
        for e in h["events"]:
            ci = e[0]
            if e[1] == "add":
                clients[ci].add_transaction(e[2], e[3])
                acc = None
            else:
                set_time(e[2])
                if e[3]:
                    acc = True           # forced: Transaction skips _validate_controls entirely
                else:
                    o = make_order(strat, "1.1", {"sel": 1, "side": "BACK", "kind": "L", "status": "NONE", "matched": 0, "avg": 0, "rem": 200, "price": 200, "liab": 0})
                    try:
                        ctls[ci](o, kinds[e[4]]); acc = True
                    except ControlError:
                        acc = False
            out.append([acc] + [[c.current_transaction_count_total, c.transaction_count_total] for c in clients])
    if clockmode == "sim":
        sd = SimulatedDateTime()
        with sd:
            body()
    else:
        with mock.patch("flumine.controls.clientcontrols.datetime") as m:
            fake = m.datetime
            m.timedelta = _dt.timedelta
            body()
    return out


def job_threads(j):
    c = SimulatedClient(transaction_limit=None)
    ctl = MaxTransactionCount(None, c)
    c.trading_controls.append(ctl)
    def w():
        for i in range(j["n"]):
            c.add_transaction(1, i % 3 == 0)
    ths = [threading.Thread(target=w) for _ in range(j["threads"])]
    for t in ths: t.start()
    for t in ths: t.join()
    return {"total": c.transaction_count_total, "expected": j["n"] * j["threads"]}


if __name__ == "__main__":
    j = json.load(sys.stdin)
    if j["job"] == "threads":
        print(json.dumps({"out": job_threads(j)}))
    else:
        print(json.dumps({"out": [run_history(h, h["clock"]) for h in j["cases"]]}))

"""Drive the REAL FlumineSimulation from a scenario (JSON) and record observations.

Scenario:
 {"config": {"place_latency": s, "cancel_latency": s, "update_latency": s, "replace_latency": s,
             "isolation": bool, "raise_errors": bool},
  "clients": [{"bpe": bool, "full_match": bool, "limit": int|None, "min_val": bool, "commission": float}],
  "strategies": [{"name": str, "client": idx, "markets": [market idx..], "max_order": x|None, "max_sel": x|None, "max_mkt": x|None,
                  "max_trade": n, "max_live": n, "multi": bool}],
  "markets": [{"id": "1.1000000NN", "event": "2000000N", "group": bool, "type": "WIN", "bsp": bool, "persist": bool, "winners": 1,
               "ew_divisor": x, "line": None | {"min":..,"max":..,"interval":..},
               "updates": [{"pt": ms, "status": "OPEN", "version": n, "inplay": bool, "bsp_rec": bool, "delay": n,
                            "runners": [{"id": n, "hc": 0, "status": "ACTIVE", "adj": x|None, "atb": [[p,s]..], "atl": [[p,s]..],
                                         "trd": [[p,s]..], "sp": x|None}]}]}],
  "script": [{"s": strategy idx, "m": market idx, "u": update idx, "acts": [action..]}]}
 actions (order ids "oN" are scenario names):
   ["place", oid, sel, side, {"t":"L","p":..,"s":..,"pt":"LAPSE","tif":None,"mf":None,"ld":"CLASSIC"} | {"t":"LOC","l":..,"p":..} | {"t":"MOC","l":..},
             {"mv": None|n, "force": False, "trade": name|None, "reset": s, "place_reset": s}]
   ["cancel", oid, reduction|None, {"force":False}]   ["update", oid, persistence, {...}]   ["replace", oid, price, {"mv":..}]
   ["txn_begin"] ["txn_exec"] ["txn_end"]   ["raise"]
All prices/sizes are plain floats here (the harness keeps them on the decimal grid).
"""
import os, sys, json, tempfile, shutil, logging, datetime, collections, traceback
logging.disable(logging.CRITICAL)
if os.environ.get("VERIF_WALL"):
    # a fake WALL clock installed before flumine is imported (C14: the outcome of a simulation does not depend on it): "frozen" never moves,
    # "fast" jumps 25 minutes at every reading.  The simulation's own clock replaces datetime.datetime during a run and is not affected.
    _real_dt = datetime.datetime
    _wall = {"n": 0, "mode": os.environ["VERIF_WALL"], "base": _real_dt(2030, 1, 1, 10, 10, 0)}
    class WallClock(_real_dt):
        @classmethod
        def utcnow(cls):
            if _wall["mode"] == "fast":
                _wall["n"] += 1
                return _wall["base"] + datetime.timedelta(minutes=25 * _wall["n"])
            return _wall["base"]
        @classmethod
        def now(cls, tz=None):
            t = WallClock.utcnow()      # the WALL clock, also when called on the simulation's subclass (which overrides utcnow only)
            return t.replace(tzinfo=datetime.timezone.utc).astimezone(tz) if tz is not None else t
    datetime.datetime = WallClock
from flumine import FlumineSimulation, clients, config
from flumine.strategy.strategy import BaseStrategy
from flumine.order.trade import Trade
from flumine.order.ordertype import LimitOrder, LimitOnCloseOrder, MarketOnCloseOrder
from flumine.order.order import OrderStatus
from flumine.markets.middleware import Middleware
from flumine.controls.loggingcontrols import LoggingControl
from betfairlightweight.resources.bettingresources import LineRangeInfo

ISO = "2030-01-01T00:00:00.000Z"
EPOCH = datetime.datetime(1970, 1, 1)


def ms(dt):
    if dt is None:
        return None
    if isinstance(dt, (int, float)):
        return int(dt)
    return int(round((dt - EPOCH).total_seconds() * 1000))


def md(m, u):
    d = {"bspMarket": m.get("bsp", True), "turnInPlayEnabled": True, "persistenceEnabled": m.get("persist", True), "marketBaseRate": 5.0,
         "eventId": m.get("event", "20000001"), "eventTypeId": "7", "numberOfWinners": m.get("winners", 1), "bettingType": "ODDS",
         "marketType": m.get("type", "WIN"), "marketTime": u.get("market_time", m.get("market_time", ISO)), "suspendTime": u.get("market_time", m.get("market_time", ISO)), "openDate": m.get("market_time", ISO),
         "bspReconciled": u.get("bsp_rec", False), "complete": True, "inPlay": u.get("inplay", False), "crossMatching": False, "runnersVoidable": False,
         "numberOfActiveRunners": sum(1 for r in u["runners"] if r.get("status", "ACTIVE") == "ACTIVE"), "betDelay": u.get("delay", 0),
         "status": u.get("status", "OPEN"), "regulators": ["MR_INT"], "countryCode": "GB", "discountAllowed": True, "timezone": "UTC",
         "version": u.get("version", 1), "name": "m", "eventName": "e",
         "runners": [dict({"status": r.get("status", "ACTIVE"), "sortPriority": i + 1, "id": r["id"], "hc": r.get("hc", 0)} if r.get("hc") else
                          {"status": r.get("status", "ACTIVE"), "sortPriority": i + 1, "id": r["id"]},
                          **({"adjustmentFactor": r["adj"]} if r.get("adj") is not None else {}),
                          **({"bsp": r["sp"]} if r.get("sp") is not None else {})) for i, r in enumerate(u["runners"])]}
    if m.get("ew_divisor") is not None:
        d["eachWayDivisor"] = m["ew_divisor"]
    if m.get("line"):
        d["bettingType"] = "LINE"
        d["lineMaxUnit"] = m["line"]["max"]; d["lineMinUnit"] = m["line"]["min"]; d["lineInterval"] = m["line"]["interval"]
        d["priceLadderDefinition"] = {"type": "LINE_RANGE"}
    return d


def write_market(dirpath, m):
    path = os.path.join(dirpath, m["id"])
    with open(path, "w") as fh:
        for i, u in enumerate(m["updates"]):
            rc = []
            for r in u["runners"]:
                x = {"id": r["id"], "atb": r.get("atb", []), "atl": r.get("atl", []), "trd": r.get("trd", [])}
                if r.get("hc"):
                    x["hc"] = r["hc"]
                if r.get("ltp") is not None:
                    x["ltp"] = r["ltp"]
                rc.append(x)
            mc = {"id": m["id"], "marketDefinition": md(m, u), "rc": rc}
            if m.get("img", True):
                mc["img"] = True       # every line a full image (ladders replaced); img=False: historic-file style deltas
            line = {"op": "mcm", "clk": str(i), "pt": u["pt"], "mc": [mc]}
            fh.write(json.dumps(line) + "\n")
    return path


class Recorder:
    def __init__(self):
        self.calls = []       # (strategy, callback, market, pt, now)
        self.obs = []         # per strategy call: snapshot of all orders of the market
        self.packages = []    # captured at process_order_package
        self.events = []      # logging control events
        self.requests = []    # (step, strategy, action, result)
        self.status_updates = []  # (order name, prev, new, now)


def order_snapshot(o, name):
    s = o.simulated
    return {"o": name, "strategy": getattr(o.trade.strategy, "idx", 0), "side": o.side, "otype": o.order_type.ORDER_TYPE.name, "sel": o.selection_id,
            "tif": getattr(o.order_type, "time_in_force", None), "mf": getattr(o.order_type, "min_fill_size", None),
            "status": o.status.value if o.status else None, "complete": o.complete, "runner_status": o.runner_status,
            "log": [x.value for x in o.status_log],
            "size": (o.order_type.size if hasattr(o.order_type, "size") else None),
            "price": getattr(o.order_type, "price", None), "liab": getattr(o.order_type, "liability", None),
            "persist": getattr(o.order_type, "persistence_type", None),
            "matched": s.size_matched, "avg": s.average_price_matched, "remaining": o.size_remaining,
            "cancelled": s.size_cancelled, "lapsed": s.size_lapsed, "voided": s.size_voided,
            "frags": [[f[0], f[1], f[2]] for f in s.matched], "piq": s._piq, "bet": o.bet_id,
            "created": ms(o.date_time_created), "placed": ms(o.responses.date_time_placed), "stat_t": ms(o.date_time_status_update),
            "done_t": ms(o.date_time_execution_complete), "profit": o.profit, "upd": dict(o.update_data),
            "trade_status": o.trade.status.value, "trade_log": [x.value for x in o.trade.status_log], "trade": o.trade.id[:8],
            "trade_pending_orders": bool(o.trade.pending_orders),
            "cancel_resp": [getattr(r, "status", None) for r in o.responses.cancel_responses], "update_resp": [getattr(r, "status", None) for r in o.responses.update_responses]}


def run_scenario(sc, observe="all"):
    """Runs the scenario on the real simulation.  Returns dict of observations."""
    tmp = tempfile.mkdtemp(prefix="verif_sim_")
    rec = Recorder()
    saved_cfg = {k: getattr(config, k) for k in ("place_latency", "cancel_latency", "update_latency", "replace_latency",
                                                   "simulated_strategy_isolation", "raise_errors", "simulation_available_prices", "simulated", "async_place_orders")}
    try:
        cfg = sc.get("config", {})
        for k in ("place_latency", "cancel_latency", "update_latency", "replace_latency"):
            if k in cfg:
                setattr(config, k, cfg[k])
        config.simulated_strategy_isolation = cfg.get("isolation", True)
        config.raise_errors = cfg.get("raise_errors", False)
        config.async_place_orders = cfg.get("async_place", False)
        config.simulation_available_prices = cfg.get("available_prices", False)
        config.simulated = False      # what a fresh process has before FlumineSimulation.run() (the flag is set when the run starts)
        paths = [write_market(tmp, m) for m in sc["markets"]]
        cls = []
        for c in sc["clients"]:
            cl = clients.SimulatedClient(transaction_limit=c.get("limit"), best_price_execution=c.get("bpe", True),
                                         simulated_full_match=c.get("full_match", False), min_bet_validation=c.get("min_val", True),
                                         username="client%d" % len(cls))
            if c.get("commission") is not None:
                cl.commission_base = c["commission"]
            cls.append(cl)
        if cfg.get("mw_subclass"):
            # a user-defined subclass of the simulation middleware registered before the first client is added
            from flumine.markets.middleware import SimulatedMiddleware as _SMW
            class UserMiddleware(_SMW):
                pass
            fw = FlumineSimulation()
            fw.add_market_middleware(UserMiddleware())
            fw.add_client(cls[0])
        else:
            fw = FlumineSimulation(client=cls[0])
        for cl in cls[1:]:
            fw.add_client(cl)
        names = {}            # scenario order name -> order object
        rev = {}              # id(order) -> name
        trades = {}
        script = collections.defaultdict(list)
        for e in sc.get("script", []):
            script[(e["s"], e["m"], e["u"])] += e["acts"]
        mindex = {m["id"]: i for i, m in enumerate(sc["markets"])}
        ucount = collections.Counter()

        def name_of(o):
            n = rev.get(id(o))
            if n is None:
                n = "r%d" % len(rev)        # replacement / unknown order: named by discovery order
                rev[id(o)] = n
                names[n] = o
            return n

        pre = {}              # (strategy idx, order name) -> order object built before the run (spec "precreate")

        def build_order(strategy, market_id, mi_, a):
            _, oid_, sel_, side_, t_, opt_ = a
            opt_ = opt_ or {}
            tr_ = Trade(market_id, sel_, opt_.get("hc", 0), strategy, reset_seconds=opt_.get("reset", 0.0), place_reset_seconds=opt_.get("place_reset", 0.0))
            if t_["t"] == "L":
                if t_.get("ld") == "LINE_RANGE":
                    return None
                ot_ = LimitOrder(price=t_["p"], size=t_["s"], persistence_type=t_.get("pt", "LAPSE"), time_in_force=t_.get("tif"), min_fill_size=t_.get("mf"))
            elif t_["t"] == "LOC":
                ot_ = LimitOnCloseOrder(liability=t_["l"], price=t_["p"])
            else:
                ot_ = MarketOnCloseOrder(liability=t_["l"])
            return tr_.create_order(side_, ot_)

        class Scripted(BaseStrategy):
            def __init__(self, idx, spec, **kw):
                super().__init__(**kw)
                self.idx = idx
                self.spec = spec
                self.seen = collections.Counter()
                self.cb_seen = collections.Counter()

            def add(self, flumine=None):
                # orders built when the strategy is added to the framework, i.e. before the run starts (spec "precreate")
                if self.spec.get("precreate"):
                    for (si, mi_, u_), acts_ in script.items():
                        if si != self.idx:
                            continue
                        for a in acts_:
                            if a[0] == "place" and not (a[5] or {}).get("trade") and (a[5] or {}).get("on") is None:
                                o_ = build_order(self, sc["markets"][mi_]["id"], mi_, a)
                                if o_ is not None:
                                    pre[(self.idx, a[1])] = o_

            def _inject(self, cb, market):
                mi = mindex[market.market_id]
                u = self.cb_seen[(cb, mi)]
                self.cb_seen[(cb, mi)] += 1
                for inj in sc.get("inject", []):
                    if inj["s"] == self.idx and inj["cb"] == cb and inj["m"] == mi and inj["u"] == u:
                        raise (ValueError if inj.get("exc", "value") == "value" else __import__("flumine").exceptions.FlumineException)("injected in %s" % cb)

            def check_market_book(self, market, market_book):
                self._inject("check", market)
                return True

            def _snapshot(self, cb, market, market_book):
                now = datetime.datetime.utcnow()
                rec.calls.append([self.idx, cb, market.market_id, market_book.publish_time_epoch, ms(now)])
                if observe == "all":
                    snap = [dict(order_snapshot(o, name_of(o)), client=next((i for i, c in enumerate(cls) if c is o.client), -1)) for o in market.blotter]
                    ctx = {}
                    for (mid, sel, hc), rc in self._invested.items():
                        if mid == market.market_id:
                            ctx["%s/%s" % (sel, hc)] = {"trades": len(rc.trades), "live": len(rc.live_trades)}
                    bl = market.blotter
                    tix = {}
                    def tname(t):
                        return tix.setdefault(id(t), len(tix))
                    cidx = {id(c): i for i, c in enumerate(cls)}
                    views = {
                        "orders": [[name_of(o), o.trade.strategy.idx, o.selection_id, cidx.get(id(o.client), -1), tname(o.trade), o.bet_id,
                                    o.status.value if o.status else None, o.size_matched] for o in bl._orders.values()],
                        "keys_match": all(k == o.id for k, o in bl._orders.items()),
                        "strategy": {str(st.idx): [name_of(o) for o in os_] for st, os_ in bl._strategy_orders.items()},
                        "selection": {"%d/%s" % (k[0].idx, k[1]): [name_of(o) for o in os_] for k, os_ in bl._strategy_selection_orders.items()},
                        "client": {str(cidx.get(id(c), -1)): [name_of(o) for o in os_] for c, os_ in bl._client_orders.items()},
                        "client_strategy": {"%d/%d" % (cidx.get(id(k[0]), -1), k[1].idx): [name_of(o) for o in os_] for k, os_ in bl._client_strategy_orders.items()},
                        "trades": {str(tname(t)): [name_of(o) for o in os_] for t, os_ in bl._trades.items()},
                        "trade_lookup_ok": all(bl.get_trade(t.id) is t for t in bl._trades),
                        "bet_lookup": {str(b): name_of(o) for b, o in bl._bet_id_lookup.items()},
                        "lookups_ok": all(fw.markets.get_order(market.market_id, o.id) is o for o in bl._orders.values()),
                        "executable": {str(st.idx): [name_of(o) for o in bl.strategy_orders(st, order_status=[OrderStatus.EXECUTABLE])] for st in strategies},
                        "matched_only": {str(st.idx): [name_of(o) for o in bl.strategy_orders(st, matched_only=True)] for st in strategies},
                        "complete_and_matched": {str(st.idx): [name_of(o) for o in bl.strategy_orders(st, order_status=[OrderStatus.EXECUTION_COMPLETE, OrderStatus.EXECUTABLE], matched_only=True)] for st in strategies},
                    }
                    rec.obs.append({"s": self.idx, "cb": cb, "m": market.market_id, "pt": market_book.publish_time_epoch, "orders": snap, "views": views,
                                    "live": [name_of(o) for o in market.blotter._live_orders], "ctx": ctx,
                                    "tx": [[c.current_transaction_count_total, c.transaction_count_total] for c in cls]})

            def process_new_market(self, market, market_book):
                self._inject("new_market", market)
                rec.calls.append([self.idx, "new_market", market.market_id, market_book.publish_time_epoch, ms(datetime.datetime.utcnow())])

            def process_market_book(self, market, market_book):
                mi = mindex[market.market_id]
                u = self.seen[mi]
                self.seen[mi] += 1
                self._snapshot("book", market, market_book)
                if self.spec.get("read_exposure"):
                    # a strategy that looks at its own position on every runner at every update (what most strategies do): the figures are
                    # recorded next to the order snapshot taken at the same instant
                    c2 = lambda x: int(round(x * 100))
                    ex = {}
                    for r in market_book.runners:
                        lk = (market.market_id, r.selection_id, r.handicap)
                        e = market.blotter.get_exposures(self, lk)
                        ex["%s/%s" % (r.selection_id, r.handicap)] = [c2(e[k]) for k in ("matched_profit_if_win", "matched_profit_if_lose", "worst_potential_unmatched_profit_if_win",
                                                                                          "worst_potential_unmatched_profit_if_lose", "worst_possible_profit_on_win", "worst_possible_profit_on_lose")] + \
                                                                     [c2(market.blotter.selection_exposure(self, lk))]
                    if rec.obs and rec.obs[-1].get("cb") == "book" and rec.obs[-1].get("s") == self.idx:
                        rec.obs[-1]["expo"] = ex
                        rec.obs[-1]["mkt_expo"] = [c2(market.blotter.market_exposure(self, market_book)), market_book.number_of_active_runners, market_book.number_of_winners]
                self._inject("book", market)
                acts = script.get((self.idx, mi, u), [])
                txn = None
                for a in acts:
                    res = None
                    extra = {}
                    try:
                        if a[0] == "txn_begin":
                            txn = market.transaction(client=cls[self.spec.get("client", 0)]); txn.__enter__(); res = "ok"
                        elif a[0] == "txn_exec":
                            res = txn.execute()
                        elif a[0] == "txn_end":
                            txn.__exit__(None, None, None); txn = None; res = "ok"
                        elif a[0] == "raise":
                            e = ValueError("scripted error")
                            if txn is not None:
                                # the strategy wrote `with market.transaction() as t:` and its block is left by the exception
                                t_, txn = txn, None
                                t_.__exit__(ValueError, e, e.__traceback__)
                            raise e
                        elif a[0] == "real_time_raise":
                            # documented wall-clock window (docs/advanced.md); the body fails
                            with fw.simulated_datetime.real_time():
                                raise ValueError("scripted error inside real_time()")
                        elif a[0] == "place":
                            _, oid, sel, side, t, opt = a
                            opt = opt or {}
                            tmk = market
                            if opt.get("on") is not None:
                                # a request on another market of the run, issued from this market's callback
                                tmk = fw.markets.markets.get(sc["markets"][opt["on"]]["id"])
                                if tmk is None:
                                    rec.requests.append([self.idx, mi, u, a[0], a[1], "nomarket", {}])
                                    continue
                            tn = opt.get("trade")
                            if tn and tn in trades:
                                tr = trades[tn]
                            else:
                                tr = Trade(tmk.market_id, sel, opt.get("hc", 0), self, reset_seconds=opt.get("reset", 0.0), place_reset_seconds=opt.get("place_reset", 0.0))
                                if tn:
                                    trades[tn] = tr
                            if t["t"] == "L":
                                lri = None
                                if t.get("ld") == "LINE_RANGE":
                                    li = sc["markets"][mi]["line"]
                                    lri = LineRangeInfo(marketUnit="x", interval=li["interval"], minUnitValue=li["min"], maxUnitValue=li["max"])
                                ot = LimitOrder(price=t["p"], size=t["s"], persistence_type=t.get("pt", "LAPSE"), time_in_force=t.get("tif"),
                                                min_fill_size=t.get("mf"), price_ladder_definition=t.get("ld", "CLASSIC"), line_range_info=lri)
                            elif t["t"] == "LOC":
                                ot = LimitOnCloseOrder(liability=t["l"], price=t["p"])
                            else:
                                ot = MarketOnCloseOrder(liability=t["l"])
                            o = pre.pop((self.idx, oid), None) or tr.create_order(side, ot)
                            names[oid] = o; rev[id(o)] = oid
                            tgt = txn if txn is not None else tmk
                            kw = dict(market_version=opt.get("mv"), force=opt.get("force", False))
                            if txn is None:
                                # an order may be routed through another client of the framework than the strategy's usual one
                                kw["client"] = cls[opt.get("client", self.spec.get("client", 0))]
                            if opt.get("trade_block"):
                                # the strategy wrote `with trade:` around its placement; with "raise" its own code fails inside the block after the
                                # placement (the framework logs the exception of the callback and carries on)
                                with tr:
                                    res = tgt.place_order(o, **kw)
                                    if opt["trade_block"] == "raise":
                                        rec.requests.append([self.idx, mi, u, a[0], a[1], res, extra])
                                        raise ValueError("scripted error inside `with trade:`")
                            else:
                                res = tgt.place_order(o, **kw)
                            if res is False:
                                extra["violation_msg"] = getattr(o, "violation_msg", None)
                        elif a[0] == "place_again":
                            # a refused (VIOLATION) new order submitted again: the very same order object
                            o = names.get(a[1])
                            if o is None or o.status is None or o.status.value != "Violation":
                                res = "skipped"
                            else:
                                mk_ = fw.markets.markets.get(o.market_id)
                                opt_ = (a[2] if len(a) > 2 else None) or {}
                                res = mk_.place_order(o, client=cls[opt_.get("client", self.spec.get("client", 0))])
                        elif a[0] in ("cancel", "update", "replace"):
                            o = names.get(a[1])
                            opt = (a[3] if len(a) > 3 else None) or {}
                            tgt = txn if txn is not None else market
                            if txn is None and o is not None and o.market_id != market.market_id:
                                tgt = fw.markets.markets.get(o.market_id) or market     # the order's own market, whichever callback we are in
                            if o is not None:
                                extra["before"] = [o.status.value if o.status else None, o.bet_id, len(o.status_log), dict(o.update_data), o.size_remaining, o.order_type.ORDER_TYPE.name,
                                                   getattr(o.order_type, "price", None), getattr(o.order_type, "persistence_type", None)]
                            if o is None:
                                res = "noorder"
                            elif a[0] == "cancel":
                                res = tgt.cancel_order(o, a[2], force=opt.get("force", False))
                            elif a[0] == "update":
                                res = tgt.update_order(o, a[2], force=opt.get("force", False))
                            else:
                                res = tgt.replace_order(o, a[2], market_version=opt.get("mv"), force=opt.get("force", False))
                    except ValueError:
                        raise
                    except Exception as e:
                        res = "EXC:" + type(e).__name__
                    if "before" in extra:
                        o = names.get(a[1])
                        extra["after"] = [o.status.value if o.status else None, o.bet_id, len(o.status_log), dict(o.update_data), o.size_remaining, o.order_type.ORDER_TYPE.name,
                                          getattr(o.order_type, "price", None), getattr(o.order_type, "persistence_type", None)]
                    rec.requests.append([self.idx, mi, u, a[0], a[1] if len(a) > 1 else None, res, extra])
                if txn is not None:
                    txn.__exit__(None, None, None)
                if self.spec.get("read_exposure"):
                    # ... and looks at its position again after it has sent its requests (orders just placed are still pending here)
                    for r in market_book.runners:
                        market.blotter.get_exposures(self, (market.market_id, r.selection_id, r.handicap))

            def process_orders(self, market, orders):
                self._inject("orders", market)
                rec.calls.append([self.idx, "orders", market.market_id, market.market_book.publish_time_epoch, ms(datetime.datetime.utcnow())])

            def process_closed_market(self, market, market_book):
                self._snapshot("closed", market, market_book)

        strategies = []
        for i, sp in enumerate(sc["strategies"]):
            files = [paths[mi] for mi in sp.get("markets", range(len(paths)))]
            groups = any(sc["markets"][mi].get("group") for mi in sp.get("markets", range(len(paths))))
            mf = {"markets": files}
            if groups:
                mf["event_processing"] = True
            if sp.get("listener_kwargs"):
                mf["listener_kwargs"] = sp["listener_kwargs"]
            st = Scripted(i, sp, market_filter=mf, name=sp.get("name", "s%d" % i), max_order_exposure=sp.get("max_order"),
                          max_selection_exposure=sp.get("max_sel"), max_market_exposure=sp.get("max_mkt"),
                          max_trade_count=sp.get("max_trade", 10 ** 6), max_live_trade_count=sp.get("max_live", 10 ** 6),
                          multi_order_trades=sp.get("multi", False))
            fw.add_strategy(st)
            strategies.append(st)

        class RaisingMiddleware(Middleware):
            def __init__(self):
                self.seen = collections.Counter()
                self.calls = []
            def __call__(self, market):
                mi = mindex[market.market_id]
                u = self.seen[mi]; self.seen[mi] += 1
                self.calls.append([market.market_id, market.market_book.publish_time_epoch])
                for inj in sc.get("inject", []):
                    if inj["cb"] == "middleware" and inj["m"] == mi and inj["u"] == u:
                        raise ValueError("injected in middleware")
        rmw = RaisingMiddleware()
        fw.add_market_middleware(rmw)
        if cfg.get("race_data"):
            # historic sports data replayed alongside the market data (SimulatedSportsDataMiddleware): one race update a few ms BEFORE every market
            # update after the first (they are handed to the strategies while that market update is processed)
            from flumine.markets.middleware import SimulatedSportsDataMiddleware
            race_dir = os.path.join(tmp, "race"); os.makedirs(race_dir, exist_ok=True)
            for m_ in sc["markets"]:
                lines_ = []
                for k_, u_ in enumerate(m_["updates"][1:]):
                    pt_ = u_["pt"] - cfg["race_data"]
                    if pt_ <= m_["updates"][k_]["pt"]:
                        continue
                    lines_.append(json.dumps({"op": "rcm", "clk": str(pt_), "pt": pt_, "rc": [{"mid": m_["id"], "id": "%s.2300" % m_["event"],
                                              "rpc": {"ft": pt_, "g": "", "st": 0, "rt": 1.0, "spd": 17.0, "prg": 1000 - k_, "ord": [1, 2]}}]}))
                with open(os.path.join(race_dir, m_["id"]), "w") as f_:
                    f_.write("\n".join(lines_) + "\n")
            fw.add_market_middleware(SimulatedSportsDataMiddleware("raceSubscription", race_dir))

        class Cap(LoggingControl):
            NAME = "CAP"
            def _process_cleared_orders_meta(self, event):
                rec.events.append(["cleared_orders_meta", [name_of(o) for o in event.event]])
            def _process_cleared_markets(self, event):
                for cm in event.event.orders:
                    rec.events.append(["cleared_market", cm.market_id, cm.profit, cm.commission, cm.bet_count])
            def _process_closed_market(self, event):
                rec.events.append(["closed_market", event.event.market_id])
            def _process_cleared_orders(self, event):
                rec.events.append(["cleared_orders", event.event.market_id if hasattr(event.event, "market_id") else None])
        cap = Cap()
        fw.add_logging_control(cap)
        orig_pop = fw.process_order_package
        def cap_pkg(pkg):
            rec.packages.append({"kind": pkg.package_type.value, "market": pkg.market_id, "mv": pkg._market_version,
                                 "orders": [name_of(o) for o in pkg._orders], "created": ms(datetime.datetime.utcnow()), "delay": pkg.simulated_delay,
                                 "bet_delay": pkg.bet_delay, "client": cls.index(pkg.client)})
            return orig_pop(pkg)
        fw.process_order_package = cap_pkg
        err = None
        real_dt = datetime.datetime
        try:
            fw.run()
        except Exception as e:
            err = "%s: %s" % (type(e).__name__, str(e)[:300])
            rec.tb = traceback.format_exc()[-1500:]
        # logging control is a thread in live mode; in simulation it is called inline via log_control
        final = []
        for mid, market in fw.markets._markets.items():
            for o in market.blotter:
                final.append(dict(order_snapshot(o, name_of(o)), market=mid, strategy=o.trade.strategy.idx,
                                  runner_status=o.runner_status, in_live=o in market.blotter._live_orders,
                                  client=next((i for i, c in enumerate(cls) if c is o.client), -1)))
        out = {"calls": rec.calls, "obs": rec.obs, "packages": rec.packages, "events": rec.events, "requests": rec.requests,
               "final": final, "error": err, "clock_restored": datetime.datetime is real_dt,
               "tx": [[c.current_transaction_count_total, c.transaction_count_total] for c in cls],
               "markets": {mid: {"closed": m.closed} for mid, m in fw.markets._markets.items()},
               "invested": [sorted({k[0] for k in st._invested}) for st in strategies], "mw_calls": rmw.calls,
               "mw_markets": sorted(fw._market_middleware[0].markets.keys()) if fw._market_middleware else []}
        if err:
            out["tb"] = getattr(rec, "tb", "")
        return out
    finally:
        for k, v in saved_cfg.items():
            setattr(config, k, v)
        shutil.rmtree(tmp, ignore_errors=True)


if __name__ == "__main__":
    j = json.load(sys.stdin)
    print(json.dumps({"out": [run_scenario(s, j.get("observe", "all")) for s in j["scenarios"]]}, default=str))

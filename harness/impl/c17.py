"""C17 implementation driver: runs the real flumine price helpers / OrderValidation."""
import sys, json, math, logging
logging.disable(logging.CRITICAL)
from decimal import Decimal
from fractions import Fraction
from flumine import utils
from flumine.controls.tradingcontrols import OrderValidation
from flumine.order.orderpackage import OrderPackageType
from flumine.order.order import BetfairOrder, BetdaqOrder, OrderStatus
from flumine.order.ordertype import LimitOrder, LimitOnCloseOrder, MarketOnCloseOrder, BetdaqLimitOrder
from flumine.order.trade import Trade
from flumine.strategy.strategy import BaseStrategy
from flumine.clients.simulatedclient import SimulatedClient
from flumine.exceptions import ControlError
from betfairlightweight.resources.bettingresources import LineRangeInfo


def cents(x):
    fr = Fraction(Decimal(str(x))) * 100
    assert fr.denominator == 1, x
    return int(fr)


def rat(x):
    fr = Fraction(Decimal(str(x)))
    return [fr.numerator, fr.denominator]


def job_nearest_grid(j):
    # prices k/1000 for k in [lo, hi); returns run-length encoded results (cents)
    out, prev, cnt = [], None, 0
    cut = {"classic": utils.CUTOFFS, "betdaq": utils.BETDAQ_CUTOFFS}[j.get("ladder", "classic")]
    for k in range(j["lo"], j["hi"]):
        r = cents(utils.get_nearest_price(k / 1000, cut))
        if r == prev:
            cnt += 1
        else:
            if prev is not None:
                out.append([prev, cnt])
            prev, cnt = r, 1
    out.append([prev, cnt])
    return out


def job_nearest_points(j):
    # explicit float inputs given as hex strings; returns [(n, d, result_cents)]
    res = []
    for h in j["points"]:
        x = float.fromhex(h)
        r = utils.get_nearest_price(x)
        n, d = rat(x)
        res.append([n, d, cents(r)])
    return res


def job_nearest_mixed(j):
    # the same raw numbers rounded on both ladders, in both orders, within one process
    res = []
    for i, k in enumerate(j["points"]):       # k/1000
        x = k / 1000
        if i % 2 == 0:
            a = utils.get_nearest_price(x); b = utils.get_nearest_price(x, utils.BETDAQ_CUTOFFS); a2 = utils.get_nearest_price(x)
        else:
            b = utils.get_nearest_price(x, utils.BETDAQ_CUTOFFS); a = utils.get_nearest_price(x); a2 = utils.get_nearest_price(x, utils.CUTOFFS)
        b2 = utils.get_nearest_price(x, utils.BETDAQ_CUTOFFS)
        res.append([k, cents(a), cents(b), cents(a2), cents(b2)])
    return res


def job_ticks(j):
    prices = {"classic": None, "betdaq": utils.BETDAQ_PRICES_FLOAT}[j["ladder"]]
    res = []
    for p in j["prices"]:       # cents
        row = []
        for n in range(j["nlo"], j["nhi"] + 1):
            try:
                row.append(cents(utils.price_ticks_away(p / 100, n, prices)))
            except ValueError:
                row.append(None)
        res.append(row)
    return res


class S(BaseStrategy):
    pass


def make_order(strat, c):
    trade = Trade("1.1", 1, 0, strat)
    t = c["t"]
    if t["k"] == "L":
        ot = LimitOrder(price=t["p"] / 1000, size=t["s"] / 1000, price_ladder_definition=t["ld"][0])
    elif t["k"] == "LOC":
        ot = LimitOnCloseOrder(liability=t["l"] / 1000, price=t["p"] / 1000, price_ladder_definition=t["ld"][0])
    else:
        ot = MarketOnCloseOrder(liability=t["l"] / 1000)
    return BetfairOrder(trade, c["side"], ot)


def job_validate_bf(j):
    """a real BetfairClient whose account details are unknown at start-up (the call fails) and arrive later (a worker poll succeeds):
    orders validated before (documented GBP fall-back) and after (the account's own currency)"""
    from unittest import mock
    from flumine.clients.betfairclient import BetfairClient
    strat = S(market_filter={}, name="v")
    out = []
    for g in j["groups"]:
        ctl = OrderValidation(None)
        bc = mock.Mock(); bc.lightweight = False; bc.username = "u"
        bc.account.get_account_details.return_value = None
        cl = BetfairClient(bc, min_bet_validation=True)
        cl.update_account_details()
        res = {"pre": [], "post": []}
        for phase in ("pre", "post"):
            if phase == "post":
                det = mock.Mock(); det.currency_code = g["cur"]
                bc.account.get_account_details.return_value = det
                if g.get("funds_fail"):
                    from betfairlightweight.exceptions import BetfairError
                    bc.account.get_account_funds.side_effect = BetfairError("funds call failed")
                cl.update_account_details()
            for c in g[phase]:
                order = make_order(strat, c)
                order.client = cl
                try:
                    ctl(order, OrderPackageType.PLACE); ok = True
                except ControlError:
                    ok = False
                res[phase].append(ok)
        out.append(res)
    return out


def job_validate(j):
    strat = S(market_filter={}, name="v")
    ctl = OrderValidation(None)
    clients = {}
    res = []
    for c in j["cases"]:
        key = (c["cur"], c["minval"])
        if key not in clients:
            cl = SimulatedClient(min_bet_validation=c["minval"])
            cl.CURRENCY_CODE = c["cur"]
            cl.update_account_details()
            clients[key] = cl
        cl = clients[key]
        trade = Trade("1.1", 1, 0, strat)
        t = c["t"]
        if c["x"] == "betdaq":
            ot = BetdaqLimitOrder(price=t["p"] / 1000, size=t["s"] / 1000, betdaq_runner_id=1, runner_reset_count=0, withdrawal_sequence_number=0)
            order = BetdaqOrder(trade, c["side"], ot)
        else:
            if t["k"] == "L":
                ld = t["ld"]
                if ld[0] == "LINE_RANGE":
                    lri = LineRangeInfo(marketUnit="x", interval=ld[3] / 1000, minUnitValue=ld[1] / 1000, maxUnitValue=ld[2] / 1000)
                    ot = LimitOrder(price=t["p"] / 1000, size=t["s"] / 1000, price_ladder_definition="LINE_RANGE", line_range_info=lri)
                else:
                    ot = LimitOrder(price=t["p"] / 1000, size=t["s"] / 1000, price_ladder_definition=ld[0])
            elif t["k"] == "LOC":
                ot = LimitOnCloseOrder(liability=t["l"] / 1000, price=t["p"] / 1000, price_ladder_definition=t["ld"][0])
            else:
                ot = MarketOnCloseOrder(liability=t["l"] / 1000)
            order = BetfairOrder(trade, c["side"], ot)
        order.client = cl
        try:
            ctl(order, OrderPackageType.PLACE)
            ok = True
        except ControlError:
            ok = False
        assert ok == (order.status != OrderStatus.VIOLATION)
        res.append(ok)
    return res


def job_finest(j):
    # FINEST ladder compared in full here (too long for a Coq literal): must be 101..99999 step 1 then 100000
    fp = [cents(p) for p in utils.FINEST_PRICES]
    return {"ok": fp == list(range(101, 100000)) + [100000], "len": len(fp)}


JOBS = {"nearest_mixed": job_nearest_mixed, "nearest_grid": job_nearest_grid, "nearest_points": job_nearest_points, "ticks": job_ticks,
        "validate": job_validate, "validate_bf": job_validate_bf, "finest": job_finest}

if __name__ == "__main__":
    j = json.load(sys.stdin)
    print(json.dumps({"out": JOBS[j["job"]](j)}))

"""C19 implementation driver: real orders, separator setter, order-stream attribution."""
import sys, json, logging, types, threading
logging.disable(logging.CRITICAL)
from unittest import mock
from flumine import config
from flumine.order.order import BetfairOrder, BetdaqOrder
from flumine.order.ordertype import LimitOrder
from flumine.order.trade import Trade
from flumine.order import process
from flumine.strategy.strategy import BaseStrategy, Strategies
from flumine.markets.markets import Markets
from flumine.markets.market import Market


class S(BaseStrategy):
    pass


def cps(s):
    return [ord(c) for c in s]


def job_seps(j):
    strat = S(market_filter={}, name="s")
    trade = Trade("1.1", 1, 0, strat)
    out = []
    for cp in j["seps"]:
        s = "".join(chr(c) for c in cp)
        r = []
        try:
            BetfairOrder(trade, "BACK", LimitOrder(2.0, 2.0), sep=s); r.append(True)
        except ValueError:
            r.append(False)
        o = BetfairOrder(trade, "BACK", LimitOrder(2.0, 2.0))
        try:
            o.sep = s; r.append(o.sep == s)
        except ValueError:
            r.append(False if o.sep == config.order_sep else None)
        try:
            o2 = trade.create_order("BACK", LimitOrder(2.0, 2.0), sep=s); r.append(o2.sep == s)
        except ValueError:
            r.append(False)
        # the documented configuration default overridden with the candidate itself
        saved = config.order_sep
        config.order_sep = s
        try:
            o3 = BetfairOrder(trade, "BACK", LimitOrder(2.0, 2.0), sep=s); r.append(o3.sep == s)
        except ValueError:
            r.append(False)
        finally:
            config.order_sep = saved
        out.append(r)
    return out


def job_refs(j):
    out = []
    import flumine.config as fconfig
    for case in j["cases"]:
        name, sep = case[0], case[1]
        strat = S(market_filter={}, name=name)
        trade = Trade("1.1", 1, 0, strat)
        if len(case) > 2:
            # the order is created WITHOUT a separator argument while config.order_sep holds some run-time value (valid or not):
            # whatever default applies, the reference must be valid
            saved = fconfig.order_sep
            fconfig.order_sep = "".join(chr(c) for c in case[2])
            try:
                o = trade.create_order("BACK", LimitOrder(2.0, 2.0))
            finally:
                fconfig.order_sep = saved
        else:
            s = "".join(chr(c) for c in sep)
            o = trade.create_order("BACK", LimitOrder(2.0, 2.0), sep=s)
        out.append([cps(strat.name_hash), cps(o.sep), cps(o.id), cps(o.customer_order_ref)])
    return out


def job_resolve(j):
    """second framework instance: strategies + blotter with known orders; crafted current orders."""
    out = []
    for case in j["cases"]:
        strats = Strategies()
        sl = []
        for nm in case["names"]:
            s = S(market_filter={}, name=nm)
            strats(s, None, None)
            sl.append(s)
        fl = mock.Mock()
        markets = Markets()
        market = Market(fl, "1.100", None)
        markets.add_market("1.100", market)
        orders = []
        for (si, sep) in case["orders"]:
            tr = Trade("1.100", 7, 0, sl[si])
            o = tr.create_order("BACK", LimitOrder(2.0, 2.0), sep="".join(chr(c) for c in sep))
            o.bet_id = None
            market.blotter[o.id] = o
            orders.append(o)
        res = []
        for q in case["queries"]:
            # q: ["own", i] reference of local order i ; ["foreign", strategy idx or name, sep, id] unknown order
            if q[0] == "own":
                ref = orders[q[1]].customer_order_ref
            else:
                h = sl[q[1]].name_hash if isinstance(q[1], int) else S(market_filter={}, name=q[1]).name_hash
                ref = h + "".join(chr(c) for c in q[2]) + q[3]
            co = types.SimpleNamespace(
                customer_order_ref=ref, market_id="1.100", bet_id="B%d" % len(res), customer_strategy_ref="x",
                selection_id=7, handicap=0, order_type="LIMIT", side="BACK", status="EXECUTABLE",
                price_size=types.SimpleNamespace(price=2.0, size=2.0), persistence_type="LAPSE",
                placed_date=None, matched_date=None, cancelled_date=None, lapsed_date=None,
                size_matched=0, size_remaining=2.0, average_price_matched=0, bsp_liability=0)
            ev = types.SimpleNamespace(event=[types.SimpleNamespace(client=mock.Mock(), orders=[co])])
            before = set(market.blotter._orders)
            process.process_current_orders(markets, strats, ev, lambda e: None, lambda mid, market_book=None: None)
            hit = [i for i, o in enumerate(orders) if o.responses.current_order is co]
            new = [k for k in market.blotter._orders if k not in before]
            adopted = None
            if new:
                no = market.blotter._orders[new[0]]
                adopted = sl.index(no.trade.strategy) if no.trade.strategy in sl else 99      # 99: a strategy object this instance does not run
                orders.append(no)   # from now on it is a local order
                hit = []
            # the settlement of the same bet (cleared-orders report, same reference) must reach the same local order
            cleared = types.SimpleNamespace(customer_order_ref=ref, bet_id=co.bet_id, profit=1.0)
            market.blotter.process_cleared_orders(types.SimpleNamespace(orders=[cleared]))
            chit = [i for i, o in enumerate(orders) if getattr(o, "cleared_order", None) is cleared]
            res.append({"ref": cps(ref), "order": hit[0] if hit else None, "strategy": adopted, "cleared": chit[0] if chit else None, "norders": len(orders),
                        "ids": [cps(o.id) for o in orders[:len(orders) - (1 if new else 0)]]})
        out.append({"hashes": [cps(s.name_hash) for s in sl], "res": res})
    return out


def job_unique(j):
    strat = S(market_filter={}, name="u")
    trade = Trade("1.1", 1, 0, strat)
    ids = []
    def work(n, acc):
        for _ in range(n):
            acc.append(BetfairOrder(trade, "BACK", LimitOrder(2.0, 2.0)).id)
    work(j["n"], ids)
    accs = [[] for _ in range(j["threads"])]
    ths = [threading.Thread(target=work, args=(j["n"] // j["threads"], a)) for a in accs]
    for t in ths: t.start()
    for t in ths: t.join()
    allids = ids + [x for a in accs for x in a]
    # under the simulated clock as well
    from flumine.simulation.utils import SimulatedDateTime
    sd = SimulatedDateTime()
    with sd:
        import datetime as _dt
        sd(_dt.datetime(2023, 11, 14, 22, 13, 20))
        sim = []
        work(j["n"] // 4, sim)
        # a run replays markets one after another: the simulated clock rewinds to the same publish times
        saved = config.simulated
        config.simulated = True
        try:
            for _market in range(3):
                for sec in range(20):
                    sd(_dt.datetime(2023, 11, 14, 22, 13, 20) + _dt.timedelta(seconds=sec))
                    work(10, sim)
        finally:
            config.simulated = saved
    allids += sim
    return {"n": len(allids), "distinct": len(set(allids)), "maxlen": max(len(x) for x in allids), "alldigits": all(x.isdigit() for x in allids)}


JOBS = {"seps": job_seps, "refs": job_refs, "resolve": job_resolve, "unique": job_unique}
if __name__ == "__main__":
    j = json.load(sys.stdin)
    print(json.dumps({"out": JOBS[j["job"]](j)}))

"""C01 implementation driver: the real StrategyExposure control on real blotters / orders."""
import sys, json, types
from lib import *
from flumine.controls.tradingcontrols import StrategyExposure
from flumine.order.orderpackage import OrderPackageType
from flumine.exceptions import ControlError
config.simulated = True


def run_case(c):
    lim = c["limits"]
    strat = S(market_filter={}, name="s", max_order_exposure=None if lim[0] is None else lim[0] / 100,
              max_selection_exposure=None if lim[1] is None else lim[1] / 100, max_market_exposure=None if lim[2] is None else lim[2] / 100,
              max_trade_count=10 ** 6, max_live_trade_count=10 ** 6)
    bl = Blotter("1.1")
    orders = []
    for d in c["orders"]:
        o = make_order(strat, "1.1", d)
        bl[o.id] = o
        orders.append(o)
    market = types.SimpleNamespace(blotter=bl, market_book=types.SimpleNamespace(number_of_active_runners=c["active"], number_of_winners=c["k"]))
    fl = types.SimpleNamespace(markets=types.SimpleNamespace(markets={"1.1": market}))
    ctl = StrategyExposure(fl)
    if c["kind"] == "PLACE":
        o = make_order(strat, "1.1", c["cand"])
        o.status = None; o.complete = False
        pk = OrderPackageType.PLACE
    else:
        o = orders[c["cand_idx"]]
        pk = OrderPackageType.REPLACE
    before = o.status
    try:
        ctl(o, pk); acc = True
    except ControlError:
        acc = False
    return {"acc": acc, "status": STATUS_NAME.get(o.status), "status_before": STATUS_NAME.get(before)}


if __name__ == "__main__":
    j = json.load(sys.stdin)
    print(json.dumps({"out": [run_case(c) for c in j["cases"]]}))

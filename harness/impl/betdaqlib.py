"""The BETDAQ path of a LIVE Flumine: real BetdaqClient (mock network client), real BetdaqOrder / BetdaqExecution (its single-worker thread pool),
real process_betdaq_current_orders, against a small exchange double that keeps a consistent bet table and reports - like BETDAQ - only the
orders that changed since the last poll.

job "script": {"cases": [{"steps": [...]}]}; steps (prices / sizes in hundredths):
  ["place", name, sel, side, price, size, hold]   market.place_order; the exchange accepts the bet when the call is made; with hold the ANSWER is
                                                   kept back until ["release", name] (the order poll may overtake it)
  ["release", name]
  ["xmatch", name, part]      the exchange matches the bet: part 1 = all of what remains, 2 = half
  ["poll"]                    the order poll: rows of the bets changed since the last poll through Flumine._process_current_orders
  ["update", name, price]     market.update_order(order, new_price=...)
  ["cancel", name]            market.cancel_order(order)
After every step: the local orders (status, log, complete, occurrences in the live list, bet id, price, sizes), the exposures the blotter reports per
selection and for the market, and the exchange's bet table.
"""
import sys, json, time, logging, threading, itertools
from unittest import mock
logging.disable(logging.CRITICAL)
from flumine import Flumine, BaseStrategy
from flumine.clients import BetdaqClient
from flumine.clients.clients import ExchangeType
from flumine.events.events import CurrentOrdersEvent
from flumine.order.trade import Trade
from flumine.order.ordertype import BetdaqLimitOrder

MARKET_ID = "1.170000001"


def wait_for(pred, timeout=5.0):
    end = time.time() + timeout
    while time.time() < end:
        if pred():
            return True
        time.sleep(0.005)
    return False


def run_script(case):
    bets, seq, ids = {}, [0], itertools.count(9000001)
    holds = {}            # customer reference -> Event
    entered = {}          # customer reference -> Event
    polled_seq = [0]
    trace = []            # [order name, event of Model/Betdaq.v] in the order the real handlers process them (one execution worker + the main thread)
    refs = {}             # customer reference -> order name

    def bump(b):
        seq[0] += 1; b["sequence_number"] = seq[0]

    def place_orders(order_list):
        receipts = []
        for o in order_list:
            oid = next(ids)
            b = {"order_id": oid, "customer_reference": o["PunterReferenceNumber"], "runner_id": o["SelectionId"], "side": "BACK" if o["Polarity"] == 1 else "LAY",
                 "price": float(o["Price"]), "remaining_size": float(o["Stake"]), "matched_size": 0.0, "matched_price": 0.0, "status": "Unmatched"}
            bump(b); bets[oid] = b
            receipts.append({"order_id": oid, "customer_reference": o["PunterReferenceNumber"], "size_remaining": float(o["Stake"]), "matched_size": 0.0, "matched_price": 0.0, "return_code": 0})
        for o in order_list:
            ref = o["PunterReferenceNumber"]
            if ref in entered:
                entered[ref].set()
            if ref in holds:
                holds[ref].wait(10)
        for o in order_list:
            if o["PunterReferenceNumber"] in refs:
                trace.append([refs[o["PunterReferenceNumber"]], "(BReceipt true)"])
        return receipts

    def update_orders(order_list):
        reports = []
        for o in order_list:
            b = bets[o["BetId"]]
            if b["status"] in ("Unmatched", "Suspended"):
                b["price"] = float(o["Price"]); b["remaining_size"] = round(b["remaining_size"] + float(o.get("DeltaStake") or 0.0), 2); bump(b)
                reports.append({"order_id": o["BetId"], "return_code": 0})
            else:
                reports.append({"order_id": o["BetId"], "return_code": 22})
            if b["customer_reference"] in refs:
                trace.append([refs[b["customer_reference"]], "(BUpdateAnswer %s)" % ("true" if reports[-1]["return_code"] else "false")])
        return reports

    def cancel_orders(order_ids):
        reports = []
        for oid in order_ids:
            b = bets[oid]
            if b["status"] in ("Unmatched", "Suspended"):
                c = b["remaining_size"]; b["remaining_size"] = 0.0; b["status"] = "Cancelled" if not b["matched_size"] else "Matched"; bump(b)
                reports.append({"order_id": oid, "cancelled_forside_stake": c})
            else:
                # nothing left to cancel (matched / cancelled meanwhile): assumed to be reported with nothing cancelled (the benign reading of the API;
                # an exchange that OMITS such an order from its answer would send flumine down its "not returned -> executable" path)
                reports.append({"order_id": oid, "cancelled_forside_stake": 0.0})
            if b["customer_reference"] in refs:
                trace.append([refs[b["customer_reference"]], "(BCancelAnswer true)"])
        return reports

    bc = mock.Mock(); bc.username = "betdaq-user"; bc.lightweight = False
    bc.betting.place_orders.side_effect = lambda order_list: place_orders(order_list)
    bc.betting.update_orders.side_effect = lambda order_list: update_orders(order_list)
    bc.betting.cancel_orders.side_effect = lambda order_ids: cancel_orders(order_ids)
    client = BetdaqClient(betting_client=bc)
    fw = Flumine(client=client)
    strategy = BaseStrategy(market_filter={}, max_order_exposure=10 ** 6, max_selection_exposure=10 ** 6, max_live_trade_count=10 ** 6, max_trade_count=10 ** 6, name="bdq")
    fw.add_strategy(strategy)
    market_book = mock.Mock(market_id=MARKET_ID, status="OPEN", bet_delay=0, publish_time=1700000000000, number_of_winners=1, number_of_active_runners=4, runners=[])
    market = fw._add_market(MARKET_ID, market_book)
    names = {}
    out = []
    # a call that gives no response (an exception inside the helper, e.g. nothing left to send): the handlers take their "reset" branch
    _orig_helper = fw.betdaq_execution._execution_helper
    def _helper(trading_function, order_package):
        r = _orig_helper(trading_function, order_package)
        if not r:
            kind = {"place": "BPlaceFailed", "update": "BUpdateFailed", "cancel": "BCancelFailed"}.get(getattr(trading_function, "__name__", ""), None)
            for o_ in order_package:
                if kind and int(o_.id) in refs:
                    trace.append([refs[int(o_.id)], kind])
        return r
    fw.betdaq_execution._execution_helper = _helper

    def blocked():
        return any(not ev.is_set() for ev in holds.values())

    def pool_idle():
        # BETDAQ execution has ONE worker: a no-op submitted now runs after everything queued before it.  While a held placement answer blocks the
        # worker nothing else can be answered (the requests queue up behind it and are answered after the release).
        if not blocked():
            try:
                fw.betdaq_execution._thread_pool.submit(lambda: None).result(timeout=5)
            except Exception:
                pass

    def dump(res):
        bl = market.blotter
        d = {"res": res, "orders": [], "exposures": {}, "exchange": [dict(b) for b in bets.values()]}
        for n, o in names.items():
            d["orders"].append({"o": n, "sel": o.selection_id, "side": o.side, "status": o.status.value if o.status else None, "log": [x.value for x in o.status_log], "complete": bool(o.complete),
                                "in_live": sum(1 for x in bl._live_orders if x is o), "in_blotter": sum(1 for x in bl if x is o), "bet": o.bet_id, "price": o.order_type.price,
                                "matched": o.size_matched, "remaining": o.size_remaining})
        for sel in sorted({o.selection_id for o in names.values()}):
            e = bl.get_exposures(strategy, (MARKET_ID, sel, 0))
            d["exposures"][str(sel)] = [e["worst_possible_profit_on_win"], e["worst_possible_profit_on_lose"], bl.selection_exposure(strategy, (MARKET_ID, sel, 0))]
        d["market_exposure"] = bl.market_exposure(strategy, market_book)
        d["outstanding"] = sorted(n for n, o in names.items() if int(o.id) in holds and not holds[int(o.id)].is_set())
        return d

    try:
        for st in case["steps"]:
            res = None
            if st[0] == "place":
                _, name, sel, side, price, size, hold = st
                tr = Trade(MARKET_ID, sel, 0, strategy)
                o = tr.create_betdaq_order(side, BetdaqLimitOrder(price=price / 100, size=size / 100, betdaq_runner_id=sel, runner_reset_count=0, withdrawal_sequence_number=0))
                names[name] = o
                ref = int(o.id)
                refs[ref] = name
                entered[ref] = threading.Event()
                if hold:
                    holds[ref] = threading.Event()
                ok = market.place_order(o)
                res = {"accepted": bool(ok)}
                if not ok:
                    del refs[ref]
                if ok:
                    if not blocked() or hold:
                        entered[ref].wait(5) if not any(not ev.is_set() for r_, ev in holds.items() if r_ != ref) else None
                    if not hold:
                        pool_idle()
            elif st[0] == "release":
                o = names.get(st[1])
                if o is not None and int(o.id) in holds:
                    holds[int(o.id)].set()
                    pool_idle()
            elif st[0] == "xmatch":
                o = names.get(st[1])
                b = next((b for b in bets.values() if o is not None and b["customer_reference"] == int(o.id)), None)
                if b is not None and b["status"] in ("Unmatched", "Suspended") and b["remaining_size"] > 0:
                    part = b["remaining_size"] if st[2] == 1 else round(b["remaining_size"] / 2, 2)
                    tot = b["matched_size"] + part
                    b["matched_price"] = b["price"]; b["matched_size"] = round(tot, 2); b["remaining_size"] = round(b["remaining_size"] - part, 2)
                    if b["remaining_size"] == 0:
                        b["status"] = "Matched"
                    bump(b)
                    res = {"matched": part}
            elif st[0] == "poll":
                rows = [dict(b) for b in bets.values() if b["sequence_number"] > polled_seq[0]]
                polled_seq[0] = seq[0]
                res = {"rows": len(rows)}
                for r_ in rows:
                    o_ = names.get(refs.get(r_["customer_reference"]))
                    if o_ is not None:
                        old_seq = (o_.current_order or {}).get("sequence_number") if isinstance(o_.current_order, dict) else None
                        trace.append([refs[r_["customer_reference"]], "(BPoll %s %s)" % ("false" if r_["status"] in ("Unmatched", "Suspended") else "true", "true" if old_seq != r_["sequence_number"] else "false")])
                if rows:
                    fw._process_current_orders(CurrentOrdersEvent(rows, exchange=ExchangeType.BETDAQ))
            elif st[0] == "update":
                o = names.get(st[1])
                if o is not None and o.bet_id and o.status is not None and o.status.value == "Executable":
                    n0 = len(o.responses.update_responses)
                    ev_ = [st[1], "BReqUpdate"]; trace.append(ev_)
                    try:
                        res = {"accepted": bool(market.update_order(o, new_price=st[2] / 100))}
                    except Exception as e:
                        res = {"exc": type(e).__name__}
                    if not res.get("accepted"):
                        ev_[1] = None
                    if res.get("accepted"):
                        pool_idle()
            elif st[0] == "cancel":
                o = names.get(st[1])
                if o is not None and o.bet_id and o.status is not None and o.status.value == "Executable":
                    ev_ = [st[1], "BReqCancel"]; trace.append(ev_)
                    try:
                        res = {"accepted": bool(market.cancel_order(o))}
                    except Exception as e:
                        res = {"exc": type(e).__name__}
                    if not res.get("accepted"):
                        ev_[1] = None
                    if res.get("accepted"):
                        pool_idle()
            out.append(dump(res))
    finally:
        for ev in holds.values():
            ev.set()
        for ex_ in (fw.betdaq_execution, fw.betfair_execution, fw.simulated_execution):
            try:
                ex_.shutdown()
            except Exception:
                pass
    return out, [t for t in trace if t[1] is not None]


def main():
    j = json.loads(sys.stdin.read())
    res = []
    for c in j["cases"]:
        try:
            steps_, trace_ = run_script(c)
            res.append({"steps": steps_, "trace": trace_, "error": None})
        except Exception as e:
            import traceback
            res.append({"steps": [], "trace": [], "error": type(e).__name__ + ":" + str(e)[:200] + traceback.format_exc()[-600:]})
    print(json.dumps({"out": res}))


if __name__ == "__main__":
    main()

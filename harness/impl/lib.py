"""Helpers shared by the implementation drivers: real flumine objects, no Mock where avoidable."""
import logging, types, datetime
logging.disable(logging.CRITICAL)
from flumine import config
from flumine.order.order import BetfairOrder, BetdaqOrder, OrderStatus
from flumine.order.ordertype import LimitOrder, LimitOnCloseOrder, MarketOnCloseOrder
from flumine.order.trade import Trade
from flumine.strategy.strategy import BaseStrategy
from flumine.markets.blotter import Blotter

STATUS = {"NONE": None, "PENDING": OrderStatus.PENDING, "CANCELLING": OrderStatus.CANCELLING, "UPDATING": OrderStatus.UPDATING,
          "REPLACING": OrderStatus.REPLACING, "EXECUTABLE": OrderStatus.EXECUTABLE, "EXECUTION_COMPLETE": OrderStatus.EXECUTION_COMPLETE,
          "EXPIRED": OrderStatus.EXPIRED, "VIOLATION": OrderStatus.VIOLATION}
STATUS_NAME = {v: k for k, v in STATUS.items()}


class S(BaseStrategy):
    pass


def c2f(c):
    return c / 100


def f2c(x):
    return int(round(x * 100))


def make_order(strategy, market_id, d, client=None):
    """d: {sel, hc, side, kind: L|LINE|LOC|MOC, status, matched, avg, rem, price, liab (cents)}; simulated buckets set directly."""
    trade = Trade(market_id, d["sel"], d.get("hc", 0), strategy)
    k = d["kind"]
    if k in ("L", "LINE"):
        size = c2f(d["matched"] + d["rem"])
        ot = LimitOrder(price=(c2f(d["price"]) if d["price"] else None), size=size,
                        price_ladder_definition="LINE_RANGE" if k == "LINE" else "CLASSIC")
    elif k == "LOC":
        ot = LimitOnCloseOrder(liability=c2f(d["liab"]), price=c2f(d["price"]) if d["price"] else 1.01)
    else:
        ot = MarketOnCloseOrder(liability=c2f(d["liab"]))
    o = trade.create_order(d["side"], ot)
    o.client = client
    o.simulated.size_matched = c2f(d["matched"])
    o.simulated.average_price_matched = c2f(d["avg"])
    if d["matched"]:
        o.simulated.matched = [[0, c2f(d["avg"]), c2f(d["matched"])]]
    o.status = STATUS[d["status"]]
    o.complete = o._is_complete()
    return o

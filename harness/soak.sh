#!/bin/sh
# multi-seed soak of the claimed checks on the unchanged tree (run from a snapshot via `vp run`)
cd "$(dirname "$0")/.."
./setup.sh || exit 1
for sd in ${SEEDS:-1 2 3 4}; do
  for c in ${CHECKS:-C04 C05 C06 C07 C09 C16 C17 C18 C19}; do
    VERIF_SEED=$sd ./check $c 2>&1 | grep -v KNOWN | tail -2 | sed "s/^/seed$sd $c: /"
  done
done

"""C11 - order-stream reconciliation converges on the exchange's view."""
import random
from common import *
import livegen, livecheck

PID = "C11"


def directed(rng):
    P = lambda size=500, asyn=False, sel=101: ["place", 0, sel, "BACK", 200, size, None, asyn]
    ok = livegen.CLEAN
    cases = []
    # sync placement answered TIMEOUT while the exchange accepted the bet
    cases.append([["book", "OPEN"], P(), ["deliver", 0, {"reports": [{"status": "TIMEOUT", "with_bet": True}], "perm": "id"}], ["stream", "full"], ["stream", "full"]])
    # partial cancel whose response arrives after the stream has shown the reduced size
    cases.append([["book", "OPEN"], P(400), ["deliver", 0, ok], ["req", "cancel", 0, 200, True], ["call", 0, ok], ["stream", "full"], ["respond", 0], ["stream", "full"]])
    # restart with live, matched and replaced bets; foreign and unknown-strategy bets; duplicated snapshots
    cases.append([["book", "OPEN"], P(), P(400, sel=202), ["deliver", 0, ok], ["deliver", 0, ok], ["req", "replace", 0, 300, True], ["deliver", 0, ok], ["xfill", 0, 1],
                  ["xforeign", 0, 901, 101], ["xforeign", 0, 903, 303], ["xforeign", "unknown-strategy", 902, 202], ["stream", "full"], ["restart"], ["book", "OPEN"], ["stream", "full"], ["stream", "full"], ["stream", "stale"], ["stream", "full"]])
    # restart where the order-stream image is processed before the first market book: the market is created by the adoption, the book arrives later
    cases.append([["book", "OPEN"], P(), P(400, sel=202), ["deliver", 0, ok], ["deliver", 0, ok], ["xfill", 0, 1], ["stream", "full"], ["restart"], ["stream", "full"], ["book", "OPEN"], P(300, sel=303), ["deliver", 0, ok],
                  ["stream", "full"], ["book", "OPEN"], ["stream", "full"]])
    cases.append([["book", "OPEN"], P(), ["deliver", 0, ok], ["stream", "full"], ["restart"], ["stream", "full"], ["stream", "full"], ["book", "SUSPENDED"], ["book", "OPEN"], ["req", "cancel", 0, None, True], ["deliver", 0, ok], ["stream", "full"]])
    # async placement: bet id from the stream before / after the response; fill while the response is on its way
    cases.append([["book", "OPEN"], P(sel=303), P(400, sel=303), ["deliver", 0, ok], ["deliver", 0, ok], ["xfill", 0, 1], ["stream", "full"], ["restart"], ["book", "OPEN"], ["stream", "full"], ["xfill", 0, 2], ["xlapse", 0], ["stream", "full"]])
    cases.append([["book", "OPEN"], P(asyn=True), ["call", 0, ok], ["stream", "full"], ["xfill", 0, 2], ["respond", 0], ["stream", "full"]])
    cases.append([["book", "OPEN"], P(asyn=True), ["deliver", 0, ok], ["stream", "full"], ["xlapse", 0], ["stream", "full"]])
    # request in flight while the bet completes at the exchange
    for kind, arg in (("cancel", None), ("update", "PERSIST"), ("replace", 300)):
        cases.append([["book", "OPEN"], P(), ["deliver", 0, ok], ["req", kind, 0, arg, True], ["call", 0, ok], ["xfill", 0, 2], ["stream", "full"], ["respond", 0], ["stream", "full"]])
        cases.append([["book", "OPEN"], P(), ["deliver", 0, ok], ["req", kind, 0, arg, True], ["xfill", 0, 2], ["stream", "full"], ["deliver", 0, ok], ["stream", "full"]])
    out = [{"strategies": 1, "steps": st + [["drain", [ok]], ["stream", "full"], ["stream", "full"]]} for st in cases]
    # config.async_place_orders = True (placements are answered PENDING and learn their bet id from the stream): cancels, updates and REPLACES are
    # still synchronous - a replacement order learns its bet id from the replace answer
    for kind, arg in (("replace", 300), ("cancel", None), ("update", "PERSIST"), ("replace", 250)):
        out.append({"strategies": 1, "async_config": True,
                    "steps": [["book", "OPEN"], P(), ["deliver", 0, ok], ["stream", "full"], ["req", kind, 0, arg, True], ["deliver", 0, ok], ["stream", "full"],
                              P(400, sel=202), ["deliver", 0, ok], ["stream", "full"], ["drain", [ok]], ["stream", "full"], ["stream", "full"]]})
    return out


def main():
    ck = Check(PID)
    rng = random.Random(seed())
    thorough = tier() == "thorough"
    if not ck.build_props(["Model/LiveCases.vo"]):
        coq_build(["Model/LiveCases.vo"])
    chk = [livecheck.c11]
    livegen.run_live_family(ck, "directed_schedules", directed(rng), chk, PID)
    # a strategy registered with the framework AFTER the first snapshots of a new connection were processed (its bets were reported as belonging
    # to an unknown strategy until then): once registered, its live bets are adopted from the next full image.  Implementation + convergence
    # checker only (the model's events fix the set of known strategies per history).
    lcases = []
    ok = livegen.CLEAN
    for k in range(24 if thorough else 8):
        sel = [101, 202][k % 2]
        steps = [["book", "OPEN"], ["xforeign", 1, 700 + k, sel], ["xforeign", 0, 800 + k, 101], ["stream", "full"]]
        if k % 3 == 0:
            steps += [["stream", "full"]]
        if k % 4 == 1:
            steps = [["book", "OPEN"], ["place", 0, 101, "BACK", 200, 500, None, False], ["deliver", 0, ok], ["xforeign", 1, 700 + k, sel], ["stream", "full"], ["restart"], ["book", "OPEN"], ["stream", "full"]]
        steps += [["register", 1], ["stream", "full"], ["stream", "full"]]
        lcases.append({"strategies": 2, "late": [1], "steps": steps})
    louts = run_impl_parallel("livelib", [{"job": "exec", "cases": ch} for ch in chunked(lcases, 8)], timeout=3600)
    lres = [r for o in louts for r in o["out"]]
    lbad = []
    for i, (c, r) in enumerate(zip(lcases, lres)):
        for key, desc in livecheck.c11(c, r):
            lbad.append((i, key, desc))
    ck.family("strategy_registered_after_first_snapshots", len(lcases), len(lcases), [], sorted({i for i, *_ in lbad}), dist={"adopted_orders": sum(1 for r in lres for o in r[-1]["orders"])})
    seenk = set()
    for i, key, desc in lbad:
        if key not in seenk:
            seenk.add(key)
            ck.fail(key, desc + " (strategy 1 registered after the first snapshots)", {"case": lcases[i], "how": "harness/impl/livelib.py job 'exec' with late registration"})
    n = 2500 if thorough else 500
    livegen.run_live_family(ck, "random_schedules_with_restarts", [livegen.gen_script(rng, {"restart": True, "max_len": 30, "p_unknown": 0.0, "p_async": 0.25}) for _ in range(n)], chk, PID)
    livegen.run_live_family(ck, "short_schedules_few_orders", [livegen.gen_script(rng, {"restart": True, "min_len": 3, "max_len": 10, "p_unknown": 0.0, "p_async": 0.3, "strategies": 1}) for _ in range(n)], chk, PID)
    # paper trading with several paper clients in one framework (outside the Coq model): the snapshots of the simulated order streams are the only
    # path that completes a matched paper order - every client's orders must be reported by exactly one stream and converge
    pcs = [{"clients": k} for k in (1, 2, 3)]
    pres = run_impl("paperlib", {"job": "clients", "cases": pcs})["out"]
    pbad = []
    for i, (c, r) in enumerate(zip(pcs, pres)):
        if r.get("error"):
            pbad.append((i, "the run raised %s" % r["error"][:200])); continue
        reported = sorted(x for s_ in r["streams"] for x in s_["orders"])
        if reported != list(range(c["clients"])) or sorted(s_["client"] for s_ in r["streams"]) != list(range(c["clients"])):
            pbad.append((i, "%d paper clients: the simulated order streams are %s (one per client, each reporting its client's orders, expected)" % (c["clients"], r["streams"])))
        elif any(not (o["complete"] and o["in_live"] == 0 and o["trade_status"] == "Complete") for o in r["orders"]):
            pbad.append((i, "%d paper clients: after the order streams' snapshots were processed a fully matched order is not complete / still in the live list / its trade not complete: %s" % (c["clients"], r["orders"])))
    ck.family("paper_trading_several_clients", len(pcs), len(pcs), [], [i for i, _ in pbad])
    for i, why in pbad[:1]:
        ck.fail("C11-paper-clients", why, {"case": pcs[i], "out": pres[i], "how": "harness/impl/paperlib.py job clients"})
    # the BETDAQ order poll (outside the Coq live model): it reports a change ONCE (diff since the last sequence number)
    import betdaqcheck
    betdaqcheck.run_family(ck, rng, 60 if thorough else 20, "betdaq_poll_convergence", ("C11",))
    return ck.finish("schedules of {requests, exchange calls, delayed responses with any outcome, exchange-side fills and lapses, bets of other instances / unknown strategies, snapshots (the cache image betfairlightweight hands over, partial, stale, duplicated), restarts} on the real process_current_orders / BetfairExecution / Blotter with an exchange double that keeps a consistent bet table; every step compared with the Coq live model; at the quiescent end of every schedule each local order is compared with the double's bet table (bet id, sizes, completeness, live list, trade) and every live bet of a known strategy must be held by exactly one local order")


def replay(path):
    print(open(path).read()); return 0

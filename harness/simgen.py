"""Scenario generator for the simulation model + conversion to (a) the JSON the real-simulation driver
(impl/simlib.py) runs and (b) Gallina terms for Model/SimLoop.v.  All numbers are integers here:
prices in bp (1/10000), sizes in cents; floats are produced only at the JSON boundary."""
import random, json
from common import z, zl, cl, cb, copt

TICKS = [101, 102, 103, 110, 120, 150, 180, 198, 199, 200, 202, 204, 206, 210, 250, 298, 300, 305, 310, 350, 400, 410, 500, 600, 620, 1000, 1050, 2000, 5000]
TICKS_BP = [t * 100 for t in TICKS]
STAT = {"NONE": "SNone", "Pending": "SPending", "Cancelling": "SCancelling", "Updating": "SUpdating", "Replacing": "SReplacing",
        "Executable": "SExecutable", "Execution complete": "SExecComplete", "Expired": "SExpired", "Violation": "SViolation", None: "SNone"}
PERS = {"LAPSE": "PLapse", "PERSIST": "PPersist", "MARKET_ON_CLOSE": "PMoc"}


def fprice(bp):
    return bp / 10000


def fsize(c):
    return c / 100


# ------------------------------------------------------------------ generation
def gen_ladders(rng, base_i, even, nlev):
    """atb (descending) / atl (ascending) around TICKS[base_i] with a 1-3 tick spread"""
    def sz():
        v = rng.choice([200, 500, 1000, 1234, 150, 2500, 50, rng.randrange(2, 5000)])
        return v - v % 2 if even else v
    lo = max(0, base_i - rng.randrange(0, 2))
    hi = min(len(TICKS) - 1, lo + rng.randrange(1, 3))
    atb = [[TICKS_BP[i], sz()] for i in range(lo, max(-1, lo - nlev), -1) if rng.random() < 0.85]
    atl = [[TICKS_BP[i], sz()] for i in range(hi, min(len(TICKS), hi + nlev)) if rng.random() < 0.85]
    return atb, atl


def gen_market(rng, mid, opts):
    even = opts.get("even", rng.random() < 0.6)
    nrun = rng.choice(opts["nrun"]) if opts.get("nrun") else rng.randrange(2, 4)
    nupd = rng.randrange(opts.get("min_upd", 5), opts.get("max_upd", 13))
    pt = 1_700_000_000_000 + mid * 3_600_000 * (0 if opts.get("same_time") else 1)
    mtype = rng.choice(opts.get("types", ["WIN", "WIN", "PLACE", "OTHER_PLACE", "EACH_WAY"]))
    m = {"id": "1.10000%04d" % mid, "event": "2000%04d" % (mid if not opts.get("group") else 0), "group": bool(opts.get("group")),
         "type": mtype, "bsp": rng.random() < opts.get("p_bsp", 0.85), "persist": rng.random() < 0.85, "winners": 1, "updates": []}
    if mtype == "EACH_WAY":
        m["ew_divisor"] = rng.choice([4.0, 5.0])
    base = [rng.randrange(3, len(TICKS) - 6) for _ in range(nrun)]
    cum = [dict() for _ in range(nrun)]          # price bp -> cumulative traded cents
    status, version, inplay, bsp_rec, delay = "OPEN", 1, False, False, 0
    removed = {}
    sps = {}
    p_susp = opts.get("p_susp", 0.12); p_inplay = opts.get("p_inplay", 0.08); p_remove = opts.get("p_remove", 0.06)
    steps = opts.get("steps", [1, 50, 100, 119, 120, 121, 169, 170, 171, 280, 281, 500, 1000, 1000, 1120, 1121, 5000])
    for u in range(nupd):
        if u > 0:
            pt += rng.choice(steps)
            r = rng.random()
            if status == "OPEN" and r < p_susp:
                status = "SUSPENDED"
                if rng.random() < 0.7:
                    version += 1
            elif status == "SUSPENDED" and r < 0.6:
                status = "OPEN"
                if rng.random() < 0.3:
                    version += 1
            elif not inplay and r > 1 - p_inplay and u > 1:
                inplay = True; delay = rng.choice([0, 1, 5]); version += 1
                if m["bsp"]:
                    bsp_rec = True
                    for i in range(nrun):
                        sps[i] = rng.choice([rng.choice(TICKS_BP), rng.randrange(10100, 200000)]) if rng.random() < 0.9 else None
            elif nrun - len(removed) > 2 and rng.random() < p_remove and not opts.get("no_remove"):
                i = rng.choice([k for k in range(nrun) if k not in removed])
                removed[i] = rng.choice(opts.get("adjs", [None, 0, 249, 250, 251, 1000, 3300, 150]))
                version += 1
                if opts.get("rescale_adj") and removed[i] and u > 0:
                    # the exchange rescales the adjustment factors of the remaining runners after a non-runner
                    for rid in list(adj0):
                        if adj0[rid] is not None and rid - 1 not in removed:
                            adj0[rid] = min(9900, int(round(adj0[rid] * 10000 / (10000 - removed[i]))))
        runners = []
        for i in range(nrun):
            if i in removed:
                runners.append({"id": i + 1, "status": "REMOVED", "adj": removed[i], "atb": [], "atl": [], "trd": sorted([[p, s] for p, s in cum[i].items()])})
                continue
            base[i] = min(len(TICKS) - 6, max(3, base[i] + rng.choice([-1, 0, 0, 0, 1])))
            atb, atl = gen_ladders(rng, base[i], even, rng.randrange(1, 4))
            if rng.random() < opts.get("p_trade", 0.6) and status == "OPEN" and u > 0:
                for _ in range(rng.randrange(1, 3)):
                    p = TICKS_BP[min(len(TICKS) - 1, max(0, base[i] + rng.choice([-2, -1, 0, 0, 1, 2])))]
                    inc = rng.choice([100, 200, 400, 1000, 3, 50, 2468, rng.randrange(1, 3000)])
                    if even:
                        inc -= inc % 4       # halves stay on the even-cent grid
                    cum[i][p] = cum[i].get(p, 0) + inc
            if rng.random() < 0.03 and cum[i]:
                k = rng.choice(list(cum[i])); cum[i][k] = max(0, cum[i][k] - 100)    # volume going down: ignored by the analytics
            runners.append({"id": i + 1, "status": "ACTIVE", "adj": rng.choice([None, 500, 1234, 2500, 4000]) if u == 0 else None,
                            "atb": atb, "atl": atl, "trd": sorted([[p, s] for p, s in cum[i].items()]), "sp": sps.get(i)})
        if u == 0:
            adj0 = {r["id"]: r["adj"] for r in runners}
        for r in runners:
            if r["status"] == "ACTIVE":
                r["adj"] = adj0.get(r["id"])
        m["updates"].append({"pt": pt, "status": status, "version": version, "inplay": inplay, "bsp_rec": bsp_rec, "delay": delay, "runners": runners})
    if rng.random() < opts.get("p_close", 0.5):
        pt += rng.choice(steps)
        runners = [{"id": i + 1, "status": "REMOVED" if i in removed else ("WINNER" if i == min(k for k in range(nrun) if k not in removed) else "LOSER"),
                    "adj": removed.get(i), "atb": [], "atl": [], "trd": []} for i in range(nrun)]
        m["updates"].append({"pt": pt, "status": "CLOSED", "version": version + 1, "inplay": inplay, "bsp_rec": bsp_rec, "delay": delay, "runners": runners})
        if rng.random() < opts.get("p_reopen", 0.0):
            # the exchange takes the result back: the same market is OPEN again (removed runners stay removed), then closes again
            version += 2
            for _ in range(rng.randrange(1, 4)):
                pt += rng.choice(steps)
                runners = []
                for i in range(nrun):
                    if i in removed:
                        runners.append({"id": i + 1, "status": "REMOVED", "adj": removed[i], "atb": [], "atl": [], "trd": sorted([[p, s] for p, s in cum[i].items()])})
                        continue
                    atb, atl = gen_ladders(rng, base[i], even, rng.randrange(1, 4))
                    runners.append({"id": i + 1, "status": "ACTIVE", "adj": adj0.get(i + 1), "atb": atb, "atl": atl,
                                    "trd": sorted([[p, s] for p, s in cum[i].items()]), "sp": sps.get(i)})
                m["updates"].append({"pt": pt, "status": "OPEN", "version": version, "inplay": inplay, "bsp_rec": bsp_rec, "delay": delay, "runners": runners})
            pt += rng.choice(steps)
            runners = [{"id": i + 1, "status": "REMOVED" if i in removed else ("WINNER" if i == min(k for k in range(nrun) if k not in removed) else "LOSER"),
                        "adj": removed.get(i), "atb": [], "atl": [], "trd": []} for i in range(nrun)]
            m["updates"].append({"pt": pt, "status": "CLOSED", "version": version + 1, "inplay": inplay, "bsp_rec": bsp_rec, "delay": delay, "runners": runners})
    return m


def gen_script(rng, sc, opts):
    """actions for every strategy; order names are integers (unique over the scenario)"""
    script = []
    nxt = [1]
    nstrat = len(sc["strategies"])
    for s in range(nstrat):
        for mi, m in enumerate(sc["markets"]):
            orders = []      # (name, type, placed_at)
            bursts = []
            nu = len(m["updates"])
            for u in range(nu):
                upd = m["updates"][u]
                if upd["status"] == "CLOSED":
                    continue
                acts = []
                if rng.random() < opts.get("p_place", 0.45):
                    for _ in range(rng.choice([1, 1, 1, 2, 3])):
                        act = [r for r in upd["runners"] if r["status"] == "ACTIVE"] or upd["runners"]
                        r = rng.choice(upd["runners"] if rng.random() < 0.05 else act)
                        side = rng.choice(["BACK", "LAY"])
                        kind = rng.choice(opts.get("kinds", ["L"] * 8 + ["LOC", "MOC"]))
                        name = nxt[0]; nxt[0] += 1
                        even = opts.get("even", False)
                        def amt():
                            v = rng.choice([200, 500, 1000, 300, 50, 1234, 2, rng.randrange(1, 3000)])
                            return max(2, v - v % 2) if even else v
                        if kind == "L":
                            ref = (r["atb"] or r["atl"] or [[TICKS_BP[8], 0]])[0][0]
                            ri = TICKS_BP.index(ref) if ref in TICKS_BP else 8
                            price = TICKS_BP[min(len(TICKS) - 1, max(0, ri + rng.choice([-3, -2, -1, 0, 0, 1, 1, 2, 3, 4])))]
                            size = amt()
                            tif = rng.random() < opts.get("p_fok", 0.2)
                            mf = rng.choice([None, None, max(1, size // 2), size, size + 100, 1]) if tif else None
                            t = {"t": "L", "p": price, "s": size, "pt": rng.choice(["LAPSE", "LAPSE", "PERSIST", "MARKET_ON_CLOSE"]), "tif": "FILL_OR_KILL" if tif else None, "mf": mf}
                        elif kind == "LOC":
                            t = {"t": "LOC", "l": amt() + 1000, "p": rng.choice(TICKS_BP[2:20])}
                        else:
                            t = {"t": "MOC", "l": amt() + 1000}
                        mv = rng.choice([None, None, None, upd["version"], upd["version"] + 1, 0])
                        acts.append(["place", name, r["id"], side, t, {"mv": mv}])
                        orders.append((name, kind, u))
                had_removal = any(r["status"] == "REMOVED" for uu in m["updates"] for r in uu["runners"])
                live = [o for o in orders if o[2] < u and (o[1] == "L" or not had_removal)]
                if live and rng.random() < opts.get("p_manage", 0.4):
                    for _ in range(rng.choice([1, 1, 2])):
                        name, kind, _ = rng.choice(live)
                        k = rng.random()
                        if k < 0.45:
                            acts.append(["cancel", name, rng.choice([None, None, None, 100, 50, 1, 100000, 0]), {}])
                        elif k < 0.65:
                            acts.append(["update", name, rng.choice(["PERSIST", "LAPSE", "MARKET_ON_CLOSE"]), {}])
                        else:
                            acts.append(["replace", name, rng.choice(TICKS_BP[2:24]), {"mv": rng.choice([None, None, upd["version"], upd["version"] + 1])}])
                # bursts: the same order managed again at consecutive updates (partial cancels / re-cancels while one is in flight)
                for (name, kind, pu, left) in list(bursts):
                    if kind == "L" and u > pu and left > 0:
                        acts.append(["cancel", name, rng.choice([50, 100, 200, 300, 400, 500, None]), {}])
                        bursts[bursts.index((name, kind, pu, left))] = (name, kind, pu, left - 1)
                for a in acts:
                    if a[0] == "place" and a[4]["t"] == "L" and rng.random() < opts.get("p_burst", 0.15):
                        bursts.append((a[1], "L", u, rng.randrange(2, 5)))
                if acts:
                    script.append({"s": s, "m": mi, "u": u, "acts": acts})
    return script


def add_cross_market(rng, sc, p_cross):
    """requests issued from the callback of ANOTHER market of the run (a strategy hedging in market A when market B moves): appended to
    existing script entries; the target market must already have been seen (an update strictly earlier than the current one)"""
    P = TICKS_BP
    nxt = 1 + max([a[1] for e in sc["script"] for a in e["acts"] if a[0] == "place"] + [0])
    placed = {}      # (s, mj) -> [(name, kind, pt of the update it was requested at)]
    for e in sc["script"]:
        for a in e["acts"]:
            if a[0] == "place":
                placed.setdefault((e["s"], e["m"]), []).append((a[1], a[4]["t"], sc["markets"][e["m"]]["updates"][e["u"]]["pt"]))
    entries = {(e["s"], e["m"], e["u"]): e for e in sc["script"]}
    for s in range(len(sc["strategies"])):
        for mi, m in enumerate(sc["markets"]):
            for u, upd in enumerate(m["updates"]):
                if upd["status"] == "CLOSED" or rng.random() >= p_cross:
                    continue
                others = [j for j in range(len(sc["markets"])) if j != mi]
                if not others:
                    continue
                mj = rng.choice(others)
                ups = sc["markets"][mj]["updates"]
                k = max([i for i, x in enumerate(ups) if x["pt"] < upd["pt"]] + [-1])
                if k < 0 or any(x["status"] == "CLOSED" for x in ups[:k + 1]):
                    continue
                acts = []
                mine = [x for x in placed.get((s, mj), []) if x[2] < upd["pt"] and x[1] == "L"]
                if mine and rng.random() < 0.5:
                    name = rng.choice(mine)[0]
                    kk = rng.random()
                    if kk < 0.5:
                        acts.append(["cancel", name, rng.choice([None, None, 100, 50]), {"on": mj}])
                    elif kk < 0.7:
                        acts.append(["update", name, rng.choice(["PERSIST", "LAPSE"]), {"on": mj}])
                    else:
                        acts.append(["replace", name, rng.choice(P[4:22]), {"on": mj, "mv": None}])
                else:
                    act = [r for r in ups[k]["runners"] if r["status"] == "ACTIVE"]
                    if not act:
                        continue
                    r = rng.choice(act)
                    ref = (r["atb"] or r["atl"] or [[P[8], 0]])[0][0]
                    ri = P.index(ref) if ref in P else 8
                    price = P[min(len(P) - 1, max(0, ri + rng.choice([-2, -1, 0, 1, 2, 3])))]
                    name = nxt; nxt += 1
                    t = {"t": "L", "p": price, "s": rng.choice([200, 500, 1000, 300]), "pt": rng.choice(["LAPSE", "PERSIST"]), "tif": None, "mf": None}
                    acts.append(["place", name, r["id"], rng.choice(["BACK", "LAY"]), t, {"mv": None, "on": mj}])
                    placed.setdefault((s, mj), []).append((name, "L", upd["pt"]))
                e = entries.get((s, mi, u))
                if e is None:
                    e = {"s": s, "m": mi, "u": u, "acts": []}
                    entries[(s, mi, u)] = e
                    sc["script"].append(e)
                e["acts"].extend(acts)
    return sc


def gen_scenario(rng, opts=None):
    opts = dict(opts or {})
    nm = rng.choice(opts.get("nmarkets", [1, 1, 1, 2]))
    ns = rng.choice(opts.get("nstrats", [1, 1, 2, 3]))
    sc = {"config": {"place_latency": 0.12, "cancel_latency": 0.17, "update_latency": 0.15, "replace_latency": 0.28,
                     "isolation": rng.random() < opts.get("p_iso", 0.7)},
          "clients": [{"bpe": rng.random() < 0.8, "full_match": rng.random() < opts.get("p_full", 0.1), "limit": None, "min_val": False}],
          "strategies": [{"name": "s%d" % i, "client": 0} for i in range(ns)],
          "markets": [gen_market(rng, i + 1, opts) for i in range(nm)]}
    sc["script"] = gen_script(rng, sc, opts)
    if opts.get("p_cross"):
        add_cross_market(rng, sc, opts["p_cross"])
    return sc


# ------------------------------------------------------------------ conversion: JSON for the implementation
def to_impl(sc):
    def conv_t(t):
        t = dict(t)
        for k in ("p",):
            if k in t and t[k] is not None:
                t[k] = fprice(t[k])
        for k in ("s", "l", "mf"):
            if k in t and t[k] is not None:
                t[k] = fsize(t[k])
        return t
    out = dict(sc)
    out["markets"] = []
    for m in sc["markets"]:
        mm = dict(m); mm["updates"] = []
        for u in m["updates"]:
            uu = dict(u); uu["runners"] = []
            for r in u["runners"]:
                rr = dict(r)
                rr["adj"] = None if r.get("adj") is None else r["adj"] / 100
                rr["sp"] = None if r.get("sp") is None else fprice(r["sp"])
                for k in ("atb", "atl", "trd"):
                    rr[k] = [[fprice(p), fsize(s)] for p, s in r.get(k, [])]
                uu["runners"].append(rr)
            mm["updates"].append(uu)
        out["markets"].append(mm)
    out["script"] = []
    for e in sc["script"]:
        acts = []
        for a in e["acts"]:
            if a[0] == "place":
                acts.append(["place", "o%d" % a[1], a[2], a[3], conv_t(a[4]), a[5]])
            elif a[0] == "cancel":
                acts.append(["cancel", "o%d" % a[1], None if a[2] is None else fsize(a[2]), a[3]])
            elif a[0] == "update":
                acts.append(["update", "o%d" % a[1], a[2], a[3]])
            elif a[0] == "replace":
                acts.append(["replace", "o%d" % a[1], fprice(a[2]), a[3]])
            else:
                acts.append(a)
        # the driver counts the books its strategy is given: CLOSED updates are not among them
        ups = sc["markets"][e["m"]]["updates"]
        u_seen = sum(1 for k in range(e["u"]) if ups[k]["status"] != "CLOSED")
        out["script"].append({"s": e["s"], "m": e["m"], "u": u_seen, "acts": acts})
    return out


# ------------------------------------------------------------------ conversion: Gallina
def coq_pairs(l):
    return cl("(%s, %s)" % (z(p), z(s)) for p, s in l)


RST = {"ACTIVE": "RActive", "REMOVED": "RRemoved", "WINNER": "RWinner", "LOSER": "RLoser", "PLACED": "RPlaced"}
MST = {"OPEN": "MOpen", "SUSPENDED": "MSuspended", "CLOSED": "MClosed", "INACTIVE": "MInactive"}
MTY = {"WIN": "MWin", "PLACE": "MPlace", "OTHER_PLACE": "MOtherPlace", "EACH_WAY": "MEachWay"}


def coq_book(u):
    rs = cl("{| r_sel := %s; r_status := %s; r_adj := %s; r_atb := %s; r_atl := %s; r_trd := %s; r_sp := %s |}" % (
        z(r["id"]), RST.get(r.get("status", "ACTIVE"), "ROther"), copt(r.get("adj")), coq_pairs(r.get("atb", [])), coq_pairs(r.get("atl", [])),
        coq_pairs(r.get("trd", [])), copt(r.get("sp"))) for r in u["runners"])
    return "{| b_pt := %s; b_status := %s; b_version := %s; b_inplay := %s; b_bsp_rec := %s; b_delay := %s; b_runners := %s |}" % (
        z(u["pt"]), MST[u.get("status", "OPEN")], z(u.get("version", 1)), cb(u.get("inplay", False)), cb(u.get("bsp_rec", False)), z(u.get("delay", 0)), rs)


def coq_action(a):
    opt = (a[5] if a[0] == "place" else (a[3] if len(a) > 3 else None)) or {}
    if opt.get("on") is not None:
        inner = list(a)
        inner[5 if a[0] == "place" else 3] = {k: v for k, v in opt.items() if k != "on"}
        return "(AOn %s %s)" % (z(opt["on"]), coq_action(inner))
    if a[0] == "place":
        t = a[4]
        if t["t"] == "L":
            ts = "(OLimit %s %s %s %s %s)" % (z(t["p"]), z(t["s"]), PERS[t.get("pt", "LAPSE")], cb(t.get("tif") == "FILL_OR_KILL"), copt(t.get("mf")))
        elif t["t"] == "LOC":
            ts = "(OLoc %s %s)" % (z(t["l"]), z(t["p"]))
        else:
            ts = "(OMoc %s)" % z(t["l"])
        return "(APlace %s %s %s %s %s)" % (z(a[1]), z(a[2]), "Back" if a[3] == "BACK" else "Lay", ts, copt((a[5] or {}).get("mv")))
    if a[0] == "cancel":
        return "(ACancel %s %s)" % (z(a[1]), copt(a[2]))
    if a[0] == "update":
        return "(AUpdate %s %s)" % (z(a[1]), PERS[a[2]])
    if a[0] == "replace":
        return "(AReplace %s %s %s)" % (z(a[1]), z(a[2]), copt((a[3] or {}).get("mv")))
    raise ValueError(a)


def event_order(sc):
    """the order in which FlumineSimulation processes the books: per event group a k-way merge by
    publish time (stable; the popped stream is re-appended at the end), otherwise market after market."""
    groups = {}
    for mi, m in enumerate(sc["markets"]):
        key = m["event"] if m.get("group") else None
        groups.setdefault(key, []).append(mi)
    ev = []
    for key, mis in groups.items():
        if key is not None and len(mis) > 1:
            cycles = [[sc["markets"][mi]["updates"][0]["pt"], mi, 0] for mi in mis]
            while cycles:
                cycles.sort(key=lambda c: c[0])
                _, mi, u = cycles.pop(0)
                ev.append((mi, u))
                if u + 1 < len(sc["markets"][mi]["updates"]):
                    cycles.append([sc["markets"][mi]["updates"][u + 1]["pt"], mi, u + 1])
        else:
            for mi in mis:
                for u in range(len(sc["markets"][mi]["updates"])):
                    ev.append((mi, u))
    return ev


def name_num(n, rmap):
    if n.startswith("o"):
        return int(n[1:])
    if n not in rmap:
        rmap[n] = 1000 + len(rmap)
    return rmap[n]


def coq_obs_order(o, rmap):
    bp = lambda x: int(round(x * 10000))
    c = lambda x: int(round(x * 100))
    fr = cl("(%s, %s, %s)" % (z(f[0]), z(bp(f[1])), z(c(f[2]))) for f in o["frags"])
    return "(%s, %s, %s, %s, %s, %s, %s, %s)" % (
        z(name_num(o["o"], rmap)), STAT[o["status"]], cl(STAT[s] for s in o["log"]),
        zl([c(o["matched"]), bp(o["avg"]), c(o["remaining"]), c(o["cancelled"]), c(o["lapsed"]), c(o["voided"])]),
        fr, z(int(round(o["piq"] * 200))), copt(o["placed"]), cb(o["in_live"]))


def to_coq(sc, impl_out):
    """scenario + the implementation's observations -> Gallina term of type scen"""
    cfg = sc["config"]
    lat = lambda k: int(round(cfg[k] * 1000))
    cli = sc["clients"][0]
    clients = cl("{| c_bpe := %s; c_full := %s; c_min_bsp := 1000 |}" % (cb(cli.get("bpe", True)), cb(cli.get("full_match", False))) for _ in sc["strategies"])
    script = cl("(%s, %s, %s, %s)" % (z(e["s"]), z(e["m"]), z(e["u"]), cl(coq_action(a) for a in e["acts"])) for e in sc["script"])
    markets = cl("(mkmarket %s {| ms_bsp := %s; ms_persist := %s; ms_type := %s |})" % (
        z(mi), cb(m.get("bsp", True)), cb(m.get("persist", True)), MTY.get(m.get("type", "WIN"), "MOtherType")) for mi, m in enumerate(sc["markets"]))
    evs = event_order(sc)
    events = cl("{| ev_market := %s; ev_idx := %s; ev_book := %s |}" % (z(mi), z(u), coq_book(sc["markets"][mi]["updates"][u])) for mi, u in evs)
    # implementation observations: snapshots taken by strategy 0 ("book" and "closed" callbacks), one per event
    rmap = {}
    snaps = [o for o in impl_out["obs"] if o["s"] == 0]
    exp = []
    for o in snaps:
        live = set(o["live"])
        exp.append("(%s, %s)" % (cl(coq_obs_order(dict(x, in_live=(x["o"] in live)), rmap) for x in o["orders"]), z(sum(c[1] for c in o["tx"]))))      # the model has one counter: all clients of the framework together
    tx = [sum(c[0] for c in impl_out["tx"]), sum(c[1] for c in impl_out["tx"])]
    aborted = impl_out["error"] is not None
    return ("{| sc_cfg := mkcfg %s %s %s %s %s %s; sc_nstrat := %s; sc_script := %s; sc_markets := %s; sc_events := %s; sc_expect := %s; sc_abort := %s; sc_tx := (%s, %s) |}"
            % (z(lat("place_latency")), z(lat("cancel_latency")), z(lat("update_latency")), z(lat("replace_latency")), cb(cfg.get("isolation", True)), clients,
               z(len(sc["strategies"])), script, markets, events, cl(exp), cb(aborted), z(tx[1] - 0), z(0))), len(snaps), len(evs)

#!/usr/bin/env python3
"""Confirm a sub-agent's mutant and run our checks against it.
usage: mutants.py confirm <Cxx> <a|b>     - apply in a scratch worktree: tests still 976 pass? demo fails with / passes without?
                                            -> copies into /verif/seeded/<Cxx>-<v>/ with meta.json
       mutants.py run <seeded-name> [<check ids>...]  - git -C /repo apply, ./check ..., git checkout
"""
import sys, os, subprocess, json, shutil, re, time
V = os.path.dirname(os.path.dirname(os.path.abspath(__file__)))


def sh(cmd, cwd=None, env=None, timeout=3600):
    p = subprocess.run(cmd, shell=True, cwd=cwd, env=env, stdout=subprocess.PIPE, stderr=subprocess.STDOUT, timeout=timeout)
    return p.returncode, p.stdout.decode(errors="replace")


def confirm(pid, v):
    src = "/tmp/mut/%s/_mutants/%s" % (pid, v)
    wt = "/tmp/mutconfirm_%s_%s" % (pid, v)
    sh("git -C /repo worktree remove --force %s" % wt)
    rc, out = sh("git -C /repo worktree add -q --detach %s HEAD" % wt)
    assert rc == 0, out
    env = dict(os.environ, PYTHONPATH=wt, PYTHONHASHSEED="0", PYTHONDONTWRITEBYTECODE="1")
    meta = {"property": pid, "variant": v, "source": "independent sub-agent (given only the property text and a scratch worktree)"}
    try:
        rc0, o0 = sh("/venv/bin/python %s/demo.py" % src, cwd=wt, env=env, timeout=900)
        meta["demo_on_pristine_rc"] = rc0
        rc, out = sh("git apply %s/patch.diff" % src, cwd=wt)
        meta["applies"] = rc == 0
        rct, ot = sh("/venv/bin/python -m pytest -q -p no:cacheprovider -x -q 2>&1 | tail -3", cwd=wt, env=env)
        rct, ot = sh("/venv/bin/python -m pytest -q -p no:cacheprovider 2>&1 | tail -1", cwd=wt, env=env)
        meta["tests_with_patch"] = ot.strip()
        meta["tests_ok"] = bool(re.search(r"\b5 failed, 976 passed", ot))
        rc1, o1 = sh("/venv/bin/python %s/demo.py" % src, cwd=wt, env=env, timeout=900)
        meta["demo_with_patch_rc"] = rc1
        meta["demo_with_patch_tail"] = o1[-600:]
        meta["confirmed"] = meta["applies"] and meta["tests_ok"] and rc0 == 0 and rc1 != 0
        meta["what_i_ran"] = ["git worktree add (scratch)", "demo.py on pristine tree (rc %d)" % rc0, "git apply patch.diff", "pytest (976 must pass)", "demo.py with patch (rc %d)" % rc1]
        try:
            notes = open(src + "/notes.md").read()
            meta["needs_to_manifest"] = notes[:1500]
        except OSError:
            pass
    finally:
        sh("git -C /repo worktree remove --force %s" % wt)
        sh("rm -rf %s" % wt)
    if meta.get("confirmed"):
        dst = os.path.join(V, "seeded", "%s-%s" % (pid, v))
        os.makedirs(dst, exist_ok=True)
        for f in ("patch.diff", "demo.py", "notes.md"):
            if os.path.exists(os.path.join(src, f)):
                shutil.copy(os.path.join(src, f), dst)
        json.dump(meta, open(os.path.join(dst, "meta.json"), "w"), indent=1)
    print(json.dumps({k: meta[k] for k in ("property", "variant", "confirmed", "tests_with_patch", "demo_on_pristine_rc", "demo_with_patch_rc") if k in meta}))
    return meta


def run(name, checks):
    d = os.path.join(V, "seeded", name)
    meta = json.load(open(os.path.join(d, "meta.json")))
    checks = checks or [meta["property"]]
    rc, out = sh("git -C /repo status --porcelain")
    assert out.strip() == "", "/repo not clean: " + out
    rc, out = sh("git -C /repo apply %s/patch.diff" % d)
    assert rc == 0, out
    res = {}
    try:
        for c in checks:
            t0 = time.time()
            rc, out = sh("./check %s --tier quick" % c, cwd=V, timeout=3000)
            viol = [l for l in out.splitlines() if l.startswith("VIOLATION")]
            res[c] = {"rc": rc, "violation_lines": viol[:3], "wall_s": round(time.time() - t0)}
            print(name, c, "rc=%d" % rc, viol[:1])
    finally:
        sh("git -C /repo checkout -- .")
    meta.setdefault("checks_run", {}).update(res)
    meta["caught_by"] = sorted(c for c, r in meta["checks_run"].items() if r["rc"] == 1 and r["violation_lines"])
    json.dump(meta, open(os.path.join(d, "meta.json"), "w"), indent=1)
    return res


if __name__ == "__main__":
    if sys.argv[1] == "confirm":
        confirm(sys.argv[2], sys.argv[3])
    elif sys.argv[1] == "run":
        run(sys.argv[2], sys.argv[3:])

"""Run scenarios on the real simulation and on the Coq model; classify each (0 equal, 1 ambiguous, >=1000 mismatch)."""
import json, sys, os
from common import *
import simgen

HDR = "From V Require Import Model.Num Model.Status Model.Sim Model.SimLoop Gen.StatusC Model.SimCases.\nOpen Scope Z_scope.\n"


def run_batch(scs, name="sim", per_file=25, observe="all", hyp=False):
    """returns (codes, impl_outs); with hyp=True also the side conditions of the whole-run theorem (scen_hyp) as a third value"""
    impl_in = [simgen.to_impl(s) for s in scs]
    outs = run_impl_parallel("simlib", [{"scenarios": ch, "observe": observe} for ch in chunked(impl_in, 40)], timeout=3600)
    impl = [r for o in outs for r in o["out"]]
    terms = [simgen.to_coq(s, io)[0] for s, io in zip(scs, impl)]
    extra = "Eval vm_compute in (map scen_hyp cases).\n" if hyp else ""
    chunks = ["Definition cases : list scen := %s.\nEval vm_compute in (map scen_cmp cases).\n%s" % (cl(ch), extra) for ch in chunked(terms, per_file)]
    codes, hyps = [], []
    for o in coq_eval(name, HDR, chunks, timeout=1800):
        ev = parse_evals(o)
        codes += parse_nlist(ev[0])
        if hyp:
            hyps += parse_nlist(ev[1])
    if hyp:
        return codes, impl, hyps
    return codes, impl


def debug(sc, io, ev_idx, name="simdbg"):
    term = simgen.to_coq(sc, io)[0]
    body = ("Definition sc : scen := %s.\nEval vm_compute in (nth %d (fst (fst (model_run tb_up sc))) ([], 0)).\nEval vm_compute in (nth %d (sc_expect sc) ([], 0)).\n"
            % (term, ev_idx, ev_idx))
    o = coq_eval(name, HDR, [body])[0]
    v = parse_evals(o)
    return v


if __name__ == "__main__":
    import random
    n = int(sys.argv[1]) if len(sys.argv) > 1 else 20
    sd = int(sys.argv[2]) if len(sys.argv) > 2 else 0
    opts = json.loads(sys.argv[3]) if len(sys.argv) > 3 else {}
    rng = random.Random(sd)
    scs = [simgen.gen_scenario(rng, opts) for _ in range(n)]
    codes, impl = run_batch(scs)
    from collections import Counter
    print(Counter(0 if c == 0 else 1 if c == 1 else 2 for c in codes), "errors:", sum(1 for i in impl if i["error"]))
    for i, c in enumerate(codes):
        if c >= 1000:
            print("scenario", i, "code", c, "impl error:", impl[i]["error"])
            if c < 2000000:
                ev = c - 1000
                v = debug(scs[i], impl[i], ev)
                print(" event", ev, simgen.event_order(scs[i])[ev] if ev < len(simgen.event_order(scs[i])) else None)
                print(" MODEL:", v[0][:3000]); print(" IMPL :", v[1][:3000])
                json.dump({"sc": scs[i], "impl": impl[i]}, open("/tmp/w/mismatch.json", "w"))
            else:
                print(impl[i].get("tb", "")[-800:])
            break

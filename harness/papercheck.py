"""Paper trading (a live Flumine with a paper_trade client): orders placed at one book, a second book processed while they are on their way to the
simulated exchange (inside the place latency).  Outside the Coq model (real threads, real sleeps): implementation + independent checker only.
What is checked: an order is matched against the book in force when it ARRIVES - fills come from levels of that book at the limit or better, never
more than a level offers; with best-price execution off an order priced through that book's best price lapses; an order on a runner that was removed
meanwhile is voided in full and takes nothing."""
import random
from common import *
import propcheck

P = [101, 105, 110, 120, 150, 180, 190, 200, 204, 210, 250, 300, 310, 350, 400, 470, 480, 500, 600]


def gen_case(rng, force_removed=False):
    runners = [201, 202, 203]
    book1, book2, orders = {}, {}, []
    for k, sel in enumerate(runners):
        i = rng.randrange(3, len(P) - 4)
        atb1 = [[P[i] / 100, rng.choice([10, 40, 100])], [P[i - 1] / 100, rng.choice([20, 100])]]
        atl1 = [[P[i + 1] / 100, rng.choice([10, 40, 100])], [P[i + 2] / 100, rng.choice([20, 100])]]
        book1[str(sel)] = {"atb": atb1, "atl": atl1}
        side = rng.choice(["BACK", "LAY"])
        # priced to cross book1: at its best price or one tick through
        price = (P[i] if rng.random() < 0.6 else P[i - 1]) if side == "BACK" else (P[i + 1] if rng.random() < 0.6 else P[i + 2])
        orders.append({"name": "o%d" % k, "sel": sel, "side": side, "price": price / 100, "size": float(rng.choice([5, 20, 40, 60]))})
        move = rng.choice(["same", "away", "thin", "towards", "removed" if k == 2 else "away"])
        if force_removed and k == 2:
            move = "removed"
        if move == "removed":
            book2[str(sel)] = {"removed": rng.choice([12.5, 20.0, 2.0])}
        elif move == "same":
            book2[str(sel)] = {"atb": atb1, "atl": atl1}
        elif move == "away":      # the crossed level is gone: best back lower / best lay higher
            book2[str(sel)] = {"atb": [[P[i - 2] / 100, 100]], "atl": [[P[i + 3] / 100, 100]]}
        elif move == "thin":      # less size at the same prices
            book2[str(sel)] = {"atb": [[atb1[0][0], 5], [atb1[1][0], 5]], "atl": [[atl1[0][0], 5], [atl1[1][0], 5]]}
        else:                     # the market moved towards the order: better prices on arrival
            book2[str(sel)] = {"atb": [[P[i + 1] / 100, 30], [P[i] / 100, 30]], "atl": [[P[i] / 100, 30], [P[i + 1] / 100, 30]]} if side == "BACK" else \
                              {"atb": [[P[i + 1] / 100, 30], [P[i] / 100, 30]], "atl": [[P[i + 1] / 100, 30], [P[i + 2] / 100, 30]]}
            if side == "BACK":
                book2[str(sel)]["atl"] = [[P[i + 2] / 100, 30]]
            else:
                book2[str(sel)]["atb"] = [[P[i - 1] / 100, 30]]
    return {"bpe": rng.random() < 0.5, "runners": runners, "book1": book1, "book2": book2, "orders": orders, "gap_ms": rng.choice([20, 30, 40])}


def check_case(case, out):
    """-> [(key, description)]"""
    bad = []
    if out.get("error"):
        return [("C05-paper-run", "the paper-trading run raised %s" % out["error"])]
    for o in out["orders"]:
        spec = next(x for x in case["orders"] if x["name"] == o["name"])
        b2 = case["book2"][str(spec["sel"])]
        if not o["accepted"]:
            continue
        if o["arrival_book_pt"] != out.get("book2_pt"):
            continue          # the second book was not yet in force when the order arrived (scheduling): nothing to compare
        side, limit, size = spec["side"], int(round(spec["price"] * 10000)), int(round(spec["size"] * 100))
        fills = [(int(round(m[1] * 10000)), int(round(m[2] * 100))) for m in o["matched"] if m[2]]
        if "removed" in b2:
            if fills or int(round(o["voided"] * 100)) != size or int(round(o["remaining"] * 100)) != 0:
                bad.append(("C09-paper-removed-runner", "paper trading: order %s on a runner removed while it was on its way has fills %s, voided %s, remaining %s (must be voided in full and take nothing)"
                            % (o["name"], o["matched"], o["voided"], o["remaining"])))
            continue
        lad = [(int(round(p * 10000)), int(round(s * 100))) for p, s in (b2["atb"] if side == "BACK" else b2["atl"])]
        lad.sort(reverse=(side == "BACK"))
        through = bool(lad) and ((side == "BACK" and lad[0][0] > limit) or (side == "LAY" and lad[0][0] < limit))
        if not case["bpe"] and through:
            if fills or int(round(o["lapsed"] * 100)) != size:
                bad.append(("C05-bpe", "paper trading: best-price execution is off and %s is priced through the best price %s of the book in force on arrival, yet matched %s lapsed %s"
                            % (o["name"], lad[0][0], o["matched"], o["lapsed"])))
            continue
        exp = propcheck.expected_fills(side, limit, size, [list(x) for x in lad])
        if [tuple(x) for x in exp] != fills:
            bad.append(("C05-availability", "paper trading: %s %s %s @ %s took %s, the book in force when it arrived offers %s at its limit or better (book at submission: %s)"
                        % (o["name"], side, size, limit, fills, exp, case["book1"][str(spec["sel"])])))
    return bad


def run_family(ck, rng, n, fname, keys):
    cases = [gen_case(rng, force_removed=("C09" in keys)) for _ in range(n)]
    outs = run_impl_parallel("paperlib", [{"job": "arrival", "cases": ch} for ch in chunked(cases, 4)], timeout=1800)
    res = [r for o in outs for r in o["out"]]
    bad = []
    compared = 0
    for i, (c, r) in enumerate(zip(cases, res)):
        compared += sum(1 for o in r.get("orders", []) if o.get("arrival_book_pt") == r.get("book2_pt"))
        for key, why in check_case(c, r):
            if key.split("-")[0] in keys:
                bad.append((i, key, why))
    ck.family(fname, len(cases), len(cases), [], sorted({i for i, _, _ in bad}),
              dist={"orders": sum(len(c["orders"]) for c in cases), "orders_arrived_under_the_second_book": compared,
                    "runner_removed_meanwhile": sum(1 for c in cases for b in c["book2"].values() if "removed" in b), "best_price_execution_off": sum(1 for c in cases if not c["bpe"])})
    for i, key, why in bad[:2]:
        ck.fail(key, why, {"case": cases[i], "out": res[i], "how": "harness/impl/paperlib.py job arrival"})

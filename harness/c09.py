"""C09 — runner removal voids bets on the runner and reduces the others once."""
import random
from common import *
import simgen, simcheck, propcheck

PID = "C09"


def main():
    ck = Check(PID)
    rng = random.Random(seed())
    thorough = tier() == "thorough"
    if not simcheck.gen_status(ck):
        return ck.finish("generator failed")
    if not ck.build_props(["Model/SimCases.vo"]):
        coq_build(["Model/SimCases.vo"])
    n = 1200 if thorough else 240
    opts = {"kinds": ["L"] * 8 + ["MOC", "LOC"], "p_manage": 0.5, "p_remove": 0.35, "p_inplay": 0.1, "min_upd": 6, "max_upd": 12,
            "adjs": [None, 0, 249, 250, 251, 1000, 3300, 150, 9900], "p_fok": 0.05}
    scs = [simgen.gen_scenario(rng, opts) for _ in range(n)]
    simcheck.run_family(ck, "removals_single_market", scs, propcheck.c09, "C09", "removal")
    # several markets of one run sharing selection ids (sequential and event-grouped)
    scs2 = []
    for _ in range(n // 2):
        s = simgen.gen_scenario(rng, dict(opts, nmarkets=[2, 3], group=rng.random() < 0.5, same_time=True, adjs=[1000, 250, 3300]))
        scs2.append(s)
    simcheck.run_family(ck, "removals_several_markets", scs2, propcheck.c09, "C09", "removal-multi")
    # market-on-close LAY liabilities on surviving runners with small and large factors (the 2.5% threshold is for prices only)
    scs3 = [simgen.gen_scenario(rng, dict(opts, kinds=["MOC"] * 5 + ["LOC", "L"], p_place=0.7, p_remove=0.5, p_inplay=0.3, p_bsp=1.0,
                                          types=["WIN", "PLACE", "OTHER_PLACE"], adjs=[100, 150, 200, 249, 250, 1000, 3300]))
            for _ in range(n // 2)]
    simcheck.run_family(ck, "moc_lay_liability_small_and_large_factors", scs3, propcheck.c09, "C09", "removal-moc")
    # a removal, then CLOSED, then the market is OPEN again in the same run: the removal stays applied once
    scs4 = [simgen.gen_scenario(rng, dict(opts, p_remove=0.6, p_close=1.0, p_reopen=1.0, p_inplay=0.05, adjs=[1000, 2000, 3300, 250],
                                          min_upd=5, max_upd=9))
            for _ in range(n // 2)]
    simcheck.run_family(ck, "removal_then_closed_and_reopened", scs4, propcheck.c09, "C09", "removal-reopen")
    # market-on-close LAY liabilities in WIN markets: several removals in one market with the exchange rescaling the factors of the remaining runners
    # in between, and the same selection ids with different factors in two markets of one run
    scs5 = [simgen.gen_scenario(rng, dict(opts, kinds=["MOC"] * 6 + ["L"], p_place=0.8, p_remove=0.6, p_inplay=0.15, p_bsp=1.0, types=["WIN"], nrun=[4, 5],
                                          adjs=[500, 1000, 2000, 3000], rescale_adj=True, nmarkets=[1, 2], min_upd=7, max_upd=12))
            for _ in range(n // 2)]
    simcheck.run_family(ck, "moc_lay_liability_rescaled_factors_and_shared_selections", scs5, propcheck.c09, "C09", "removal-moc2")
    # paper trading: a runner removed while an order on it is on its way to the simulated exchange: voided in full, takes nothing
    import papercheck
    papercheck.run_family(ck, rng, 36 if thorough else 12, "paper_trading_runner_removed_while_the_order_is_on_its_way", ("C09",))
    return ck.finish("scenarios on the real FlumineSimulation with runner removals (factor None/0/2.49/2.5/2.51/10/33/99, before and after in-play, 1-2 removals per market) while orders rest, are partly filled, partly cancelled, lapsed, pending or have a request in flight; 1-3 markets per run sharing selection ids, sequential and event-grouped; WIN/PLACE/OTHER_PLACE/EACH_WAY; compared with the Coq model and checked by an independent re-computation of void/reduction")


def replay(path):
    print(open(path).read()); return 0

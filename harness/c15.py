"""C15 — blotter views are coherent with the orders placed."""
import json, random
from common import *
import simgen

PID = "C15"
HDR = "From V Require Import Model.Num Model.Status Model.Blotter Model.C15Cases.\nOpen Scope Z_scope.\n"
STAT = {"Pending": "SPending", "Cancelling": "SCancelling", "Updating": "SUpdating", "Replacing": "SReplacing", "Executable": "SExecutable",
        "Execution complete": "SExecComplete", "Expired": "SExpired", "Violation": "SViolation", None: "SNone"}


def row_from_views(v, num):
    """v: views dict of one blotter; num: name -> integer id"""
    os_ = cl("(mk_b %s %s %s %s %s %s %s %s)" % (z(num(o[0])), z(o[1]), z(o[2]), z(o[3]), z(o[4]), "None", STAT[o[6]], z(int(round((o[7] or 0) * 100)) if isinstance(o[7], float) else z(o[7]))) for o in v["orders"])
    # the views are defaultdicts: merely asking for a key creates an empty entry - empty entries are not content
    def vz(d):
        return cl("(%s, %s)" % (z(int(k)), zl(num(n) for n in ns)) for k, ns in d.items() if ns)
    def vzz(d):
        return cl("(%s, %s, %s)" % (z(int(k.split("/")[0])), z(int(float(k.split("/")[1]))), zl(num(n) for n in ns)) for k, ns in d.items() if ns)
    ex = v.get("executable", {}); mo = v.get("matched_only", {})
    def vf(d):
        return cl("(%s, %s)" % (z(int(k)), zl(num(n) for n in ns)) for k, ns in d.items())
    return "(%s, %s, %s, %s, %s, %s, (%s, %s))" % (os_, vz(v["strategy"]), vzz(v["selection"]), vz(v["client"]), vzz(v["client_strategy"]), vz(v["trades"]), vf(ex), vf(mo))


def main():
    ck = Check(PID)
    rng = random.Random(seed())
    thorough = tier() == "thorough"
    if not ck.build_props(["Model/C15Cases.vo"]):
        coq_build(["Model/C15Cases.vo"])
    n = 300 if thorough else 70
    # ---- simulation: all views at every strategy call
    scs = [simgen.gen_scenario(rng, {"nstrats": [2, 3], "nmarkets": [1, 2], "p_place": 0.7, "p_manage": 0.7, "max_upd": 9}) for _ in range(n)]
    for s in scs:
        if rng.random() < 0.4:
            # requests of one strategy call batched in a transaction: several orders per package (e.g. two replaces answered together)
            for e in s["script"]:
                names_managed = {a[1] for a in e["acts"] if a[0] in ("cancel", "update", "replace")}
                if len(names_managed) >= 2 and rng.random() < 0.7:
                    # every managed order of this call is replaced: one REPLACE package with several orders
                    e["acts"] = [a for a in e["acts"] if a[0] == "place"] + [["replace", nm, rng.choice(simgen.TICKS_BP[3:22]), {"mv": None}] for nm in sorted(names_managed)]
                e["acts"] = [["txn_begin"]] + e["acts"] + [["txn_end"]]
        if rng.random() < 0.4:
            s["clients"].append(dict(s["clients"][0]))
            for sp in s["strategies"][1:]:
                sp["client"] = 1
    outs = run_impl_parallel("simlib", [{"scenarios": [simgen.to_impl(s) for s in ch], "observe": "all"} for ch in chunked(scs, 10)], timeout=3600)
    impl = [r for o in outs for r in o["out"]]
    rows, meta, direct_bad = [], [], []
    for i, (sc, io) in enumerate(zip(scs, impl)):
        ids = {}
        num = lambda nme: ids.setdefault(nme, len(ids) + 1)
        placed = {}
        for ob in io["obs"]:
            if ob["s"] != 0:
                continue
            v = ob["views"]
            rows.append(row_from_views(v, num)); meta.append((i, ob["m"], ob["pt"]))
            names = [o[0] for o in v["orders"]]
            live = set(ob["live"])
            if not (v["keys_match"] and v["lookups_ok"] and v["trade_lookup_ok"]) or len(names) != len(set(names)):
                direct_bad.append((i, "lookup by order id / trade id does not return the very object placed, or an order appears twice in the blotter"))
            # live list: contains every order that is not complete; an order once seen outside it never returns (shadow over time)
            for o in ob["orders"]:
                if not o["complete"] and o["o"] not in live:
                    direct_bad.append((i, "order %s is not complete but missing from the live list" % o["o"]))
            # bet id lookup for replacement orders
            for o in v["orders"]:
                if o[0].startswith("r") and o[5] is not None and v["bet_lookup"].get(str(o[5])) != o[0]:
                    direct_bad.append((i, "replacement order %s is not found under its bet id" % o[0]))
            # orders placed earlier never disappear, never change position
            key = ob["m"]
            if names[:len(placed.get(key, []))] != placed.get(key, []):
                direct_bad.append((i, "the blotter lost or reordered orders"))
            placed[key] = names
        # accepted placements of the script are in the blotter exactly once
        acc = [r[4] for r in io["requests"] if r[3] == "place" and r[5] is True]
        allnames = [o["o"] for o in io["final"]]
        if sorted(a for a in acc) != sorted(nm for nm in allnames if not nm.startswith("r")):
            direct_bad.append((i, "orders accepted by place_order and orders in the blotter differ"))
    bad = []
    for k, o in enumerate(coq_eval("c15sim", HDR, ["Definition cases : list (list bord * vz * vzz * vz * vzz * vz * (vz * vz)) := %s.\nEval vm_compute in bad_idx views_ok cases.\n" % cl(ch) for ch in chunked(rows, 150)])):
        bad += [k * 150 + x for x in parse_nlist(parse_evals(o)[0])]
    pf = sorted({meta[b][0] for b in bad} | {i for i, _ in direct_bad})
    ck.family("simulation_views", len(rows), len(set(rows)), bad, pf, dist={"runs": len(scs), "snapshots": len(rows), "max_orders": max([r.count("mk_b") for r in rows] or [0])},
              samples=[{"family": "views", "views": impl[0]["obs"][-1]["views"] if impl[0]["obs"] else None}])
    for i in pf[:3]:
        why = [w for j, w in direct_bad if j == i][:2] or ["a view differs from 'the orders placed with that key, each once, in placement order' / a filter returns other orders"]
        ck.fail("C15-views", why[0], {"scenario": scs[i], "how": "harness/impl/simlib.py (views dumped at every strategy call)"})

    # ---- live: placements, acknowledgements, order-stream snapshots (completion, adoption, replaced bets), closures
    cases = []
    for _ in range(n * 2):
        mids = ["1.101", "1.102"][:rng.randrange(1, 3)]
        steps = [["book", m, "OPEN"] for m in mids]
        onames, bets, k = [], {}, 0
        for _ in range(rng.randrange(3, 14)):
            r = rng.random()
            if r < 0.35:
                k += 1
                nm = "o%d" % k
                steps.append(["place", rng.choice(mids), nm, rng.randrange(2), rng.choice([101, 202]), rng.choice(["BACK", "LAY"]), 200, rng.choice([500, 1000])])
                onames.append((nm, steps[-1][1]))
                if rng.random() < 0.85:
                    bets[nm] = "B%d" % k
                    steps.append(["ack", nm, bets[nm]])
            elif r < 0.75 and onames:
                rows_ = []
                for _ in range(rng.randrange(1, 4)):
                    q = rng.random()
                    if q < 0.15:
                        # the stream already shows the bet that REPLACES a known order's bet (same customer order reference, new bet id)
                        # while the answer to the replace request is still outstanding: nothing may be created or duplicated for it
                        nm, mid = rng.choice(onames)
                        if nm in bets:
                            if rng.random() < 0.6:
                                steps.append(["replace", nm, rng.choice([210, 220, 190])])
                            rows_.append({"ref": nm, "market": mid, "bet": "R" + bets[nm], "status": "EXECUTABLE", "matched": 0, "remaining": 300})
                            if rng.random() < 0.5:
                                rows_.append({"ref": nm, "market": mid, "bet": bets[nm], "status": "EXECUTION_COMPLETE", "matched": 0, "remaining": 0, "cancelled": 300})
                    elif q < 0.7:
                        nm, mid = rng.choice(onames)
                        if nm in bets:
                            done = rng.random() < 0.4
                            rows_.append({"ref": nm, "market": mid, "bet": bets[nm], "status": "EXECUTION_COMPLETE" if done else "EXECUTABLE",
                                          "matched": 500 if done else rng.choice([0, 200]), "remaining": 0 if done else 300})
                    elif q < 0.9:
                        fid = rng.randrange(50)     # one bet id per foreign order: an exchange never files two orders under one bet id
                        rows_.append({"ref": ["foreign", fid % 2, str(139000000000000000 + fid)], "market": mids[fid % len(mids)], "bet": "F%d" % fid,
                                      "status": rng.choice(["EXECUTABLE", "EXECUTION_COMPLETE"]), "matched": 0, "remaining": 400, "sel": [101, 202][fid % 2]})
                    else:
                        uid = rng.randrange(50)
                        rows_.append({"ref": ["foreign", "unknown-strategy", str(139000000000000900 + uid)], "market": mids[uid % len(mids)], "bet": "U%d" % uid,
                                      "status": "EXECUTABLE", "matched": 0, "remaining": 400})
                if rows_:
                    steps.append(["stream", rows_])
            elif r < 0.82:
                steps.append(["book", rng.choice(mids), rng.choice(["OPEN", "CLOSED", "SUSPENDED"])])
            elif r < 0.9:
                steps.append(["poll"])
            else:
                steps.append(["advance", rng.choice([1, 60, 1800])])
        cases.append({"strategies": 2, "steps": steps})
    louts = run_impl_parallel("livelib", [{"job": "orders", "cases": ch} for ch in chunked(cases, 12)], timeout=3600)
    limpl = [r for o in louts for r in o["out"]]
    lrows, lmeta, ldirect = [], [], []
    for i, (c, r) in enumerate(zip(cases, limpl)):
        ids = {}
        num = lambda nme: ids.setdefault(nme, len(ids) + 1)
        prev_names = {}
        for si, ob in enumerate(r):
            for mid, v in ob["blotters"].items():
                lrows.append(row_from_views(dict(v, executable={}, matched_only={}), num)); lmeta.append((i, si))
                names = [o[0] for o in v["orders"]]
                if not (v["keys_match"] and v["lookups_ok"]) or len(names) != len(set(names)):
                    ldirect.append((i, "lookup by order id does not return the very object placed / an order id appears twice (step %d)" % si))
                for o in v["orders"]:
                    if not o[9] and o[0] not in v["live"]:
                        ldirect.append((i, "order %s is not complete but missing from the live list (step %d)" % (o[0], si)))
                    if o[0].startswith("a") and v["bet_lookup"].get(str(o[5])) != o[0]:
                        ldirect.append((i, "adopted order %s is not found under its bet id" % o[0]))
                if names[:len(prev_names.get(mid, []))] != prev_names.get(mid, []):
                    ldirect.append((i, "the blotter lost or reordered orders (step %d)" % si))
                prev_names[mid] = names
            if isinstance(ob["res"], list) and ob["res"] and ob["res"][0] == "polled":
                want = sorted(o[0] for mid, v in ob["blotters"].items() if not v.get("closed") for o in v["orders"])
                if "closed" in next(iter(ob["blotters"].values()), {}) and ob["res"][1] != want:
                    ldirect.append((i, "a poll of the paper-trading order stream returned %s, the open markets hold %s (step %d)" % (ob["res"][1], want, si)))
            if isinstance(ob["res"], str) and ob["res"].startswith("EXC"):
                ldirect.append((i, "handler raised %s at step %d" % (ob["res"], si)))
    lbad = []
    for k, o in enumerate(coq_eval("c15live", HDR, ["Definition cases : list (list bord * vz * vzz * vz * vzz * vz * (vz * vz)) := %s.\nEval vm_compute in bad_idx views_ok cases.\n" % cl(ch) for ch in chunked(lrows, 200)])):
        lbad += [k * 200 + x for x in parse_nlist(parse_evals(o)[0])]
    lpf = sorted({lmeta[b][0] for b in lbad} | {i for i, _ in ldirect})
    ck.family("live_views", len(lrows), len(set(lrows)), lbad, lpf, dist={"scripts": len(cases), "adoptions": sum(1 for r in limpl for o in r[-1]["blotters"].values() for x in o["orders"] if x[0].startswith("a"))},
              samples=[{"family": "live_views", "steps": cases[0]["steps"][:5]}])
    for i in lpf[:3]:
        why = [w for j, w in ldirect if j == i][:2] or ["a view differs from the orders placed/adopted with that key"]
        ck.fail("C15-views", why[0], {"case": cases[i], "how": "harness/impl/livelib.py run_live_orders on a real Flumine"})
    # the BETDAQ path of a live Flumine (outside the Coq live model): placements whose answer the order poll overtakes, matches, polls, price changes, cancels
    import betdaqcheck
    betdaqcheck.run_family(ck, rng, 60 if thorough else 20, "betdaq_live_list", ("C15",))
    return ck.finish("all blotter views (by strategy, strategy+selection, client, client+strategy, trade, bet id, live list) and lookups dumped at every strategy call of simulation runs (2-3 strategies, 1-2 clients, 1-2 markets, replacements) and after every step of live scripts (placements, acknowledgements, order-stream snapshots completing/adopting orders incl. unknown strategies, polls of the paper-trading order stream, closures followed by late stream updates); compared in Coq with the model applied to the blotter's own order list; shadow list over time (nothing lost, reordered or duplicated; live list)")


def replay(path):
    print(open(path).read()); return 0

"""C10 - trade and runner accounting follows the real state of the orders."""
import random, json
from common import *
import livegen, livecheck, simgen, simcheck, propcheck
import c04

PID = "C10"


def with_limits(rng, sc):
    """a simulation scenario with trade limits: multi-order and re-used trades (trade names from a small pool), max_trade_count,
    max_live_trade_count, multi_order_trades per strategy"""
    sc = json.loads(json.dumps(sc))
    for sp in sc["strategies"]:
        sp["max_trade"] = rng.choice([0, 1, 2, 3, 10 ** 6, 10 ** 6]); sp["max_live"] = rng.choice([0, 1, 1, 2, 10 ** 6]); sp["multi"] = rng.random() < 0.5
    for ev in sc["script"]:
        for a in ev["acts"]:
            if a[0] == "place" and rng.random() < 0.6:
                a[5] = dict(a[5] or {}, trade="T%d-%d-%d-%d" % (ev["s"], ev["m"], a[2], rng.randrange(3)))     # per strategy, market and selection
    return sc


def sim_limit_decisions(sc, io):
    """every accept/refuse of a placement against a recount of the blotter at the start of the callback, updated by the callback's own earlier requests"""
    res = list(propcheck.c10(sc, io))
    snaps = {}
    for ob in io["obs"]:
        snaps.setdefault((ob["s"], ob["m"], ob["pt"]), ob)
    mids = [m["id"] for m in sc["markets"]]
    trade_of = {}        # trade name -> set of order names (to recognise the trade of a snapshot order)
    for ev in sc["script"]:
        for a in ev["acts"]:
            if a[0] == "place":
                trade_of.setdefault((ev["s"], (a[5] or {}).get("trade") or "_%s" % a[1]), set()).add("o%s" % a[1] if not str(a[1]).startswith("o") else a[1])
    by_cb = {}
    for r in io["requests"]:
        by_cb.setdefault((r[0], r[1], r[2]), []).append(r)
    for (s, mi, u), reqs in by_cb.items():
        sp = sc["strategies"][s]
        if sp.get("max_trade", 10 ** 6) >= 10 ** 6 and sp.get("max_live", 10 ** 6) >= 10 ** 6:
            continue
        pt = sc["markets"][mi]["updates"][u]["pt"]
        ob = snaps.get((s, mids[mi], pt))
        if ob is None:
            continue
        # recount per selection: trade key = the snapshot's trade id
        trades, live = {}, {}
        for o in ob["orders"]:
            if o["strategy"] != s:
                continue
            trades.setdefault(o["sel"], set()).add(o["trade"])
            if not o["complete"]:
                live.setdefault(o["sel"], set()).add(o["trade"])
        name2trade = {o["o"]: o["trade"] for o in ob["orders"]}
        script_acts = [a for ev in sc["script"] if (ev["s"], ev["m"], ev["u"]) == (s, mi, u) for a in ev["acts"]]
        places = [a for a in script_acts if a[0] == "place"]
        preqs = [r for r in reqs if r[3] == "place"]
        for a, r in zip(places, preqs):
            sel = a[2]
            tn = (a[5] or {}).get("trade")
            members = trade_of.get((s, tn or "_%s" % a[1]), set())
            tid = next((name2trade[n] for n in members if n in name2trade), "new:%s" % (tn or a[1]))
            T, L = trades.setdefault(sel, set()), live.setdefault(sel, set())
            why = None
            if sp.get("multi") and tid in L:
                why = None
            elif (len(T) == sp["max_trade"] and tid not in T) or len(T) > sp["max_trade"]:
                why = "max_trade_count %d reached (%d trades)" % (sp["max_trade"], len(T))
            elif (len(L) == sp["max_live"] and tid not in L) or len(L) > sp["max_live"]:
                why = "max_live_trade_count %d reached (%d trades with an order that is not complete)" % (sp["max_live"], len(L))
            acc = r[5] is True
            if r[5] not in (True, False):
                continue          # refused / raised by something else (market closed, validation)
            if acc and why is not None:
                res.append(("C10-limit-exceeded-sim", "placement of %s accepted although %s" % (r[4], why), {"request": r[:6], "pt": pt}))
            vmsg = (r[6] or {}).get("violation_msg") or "" if len(r) > 6 else ""
            if not acc and "strategy.validate_order" not in vmsg:
                continue          # refused by another control (market not open, order validation, exposure): not a trade-limit decision
            if not acc and why is None:
                res.append(("C10-locked-out-sim", "placement of %s refused although no trade limit applies: %d trades, %d live, limits max_trade %s max_live %s multi %s" % (r[4], len(T), len(L), sp["max_trade"], sp["max_live"], sp.get("multi")), {"request": r[:6], "pt": pt}))
            if acc:
                T.add(tid); L.add(tid); name2trade["o%s" % a[1] if not str(a[1]).startswith("o") else a[1]] = tid
    return res


def main():
    ck = Check(PID)
    rng = random.Random(seed())
    thorough = tier() == "thorough"
    if not simcheck.gen_status(ck):
        return ck.finish("generator failed")
    if not ck.build_props(["Model/LiveCases.vo", "Model/SimCases.vo"]):
        coq_build(["Model/LiveCases.vo", "Model/SimCases.vo"])
    chk = [livecheck.c10]
    n = 1500 if thorough else 300
    # directed: a completed trade re-used for an async order that completes through the stream before the response to its placement (F-C10-3)
    ok = livegen.CLEAN
    reuse = {"strategies": 1, "steps": [["book", "OPEN"], ["place", 0, 101, "BACK", 200, 500, None, False], ["deliver", 0, ok], ["xfill", 0, 2], ["stream", "full"],
                                        ["place", 0, 101, "BACK", 200, 400, 0, True], ["call", 0, ok], ["stream", "full"], ["xfill", 0, 2], ["stream", "full"], ["respond", 0],
                                        ["drain", [ok]], ["stream", "full"], ["stream", "full"]]}
    livegen.run_live_family(ck, "live_histories_unlimited", [reuse] + [livegen.gen_script(rng, {"restart": True, "max_len": 30, "p_trade": 0.5}) for _ in range(n)], chk, PID)
    livegen.run_live_family(ck, "live_histories_limits_and_cooldowns", [livegen.gen_script(rng, {"restart": True, "max_len": 34, "p_trade": 0.5, "limits": True}) for _ in range(n)], chk, PID)
    scs = [simgen.gen_scenario(rng, {"kinds": ["L"] * 8 + ["LOC", "MOC"], "p_manage": 0.75, "p_susp": 0.3, "p_inplay": 0.2, "p_remove": 0.08, "p_fok": 0.15, "nstrats": [1, 2]}) for _ in range(800 if thorough else 200)]
    simcheck.run_family(ck, "simulation_histories", scs, propcheck.c10, "C10", "sim")
    scs3 = [c04.race_scenario(rng) for _ in range(600 if thorough else 150)]
    simcheck.run_family(ck, "simulation_requests_in_flight_races", scs3, propcheck.c10, "C10", "race")
    # the strategy writes `with trade:` around its placement, and sometimes its own code fails inside that block right after the placement (the
    # framework logs the callback's exception and carries on): the trade must still complete, and free its runner, once its orders have completed
    scs4 = [simgen.gen_scenario(rng, {"kinds": ["L"], "p_manage": 0.4, "p_place": 0.7, "nstrats": [1, 2], "p_remove": 0.0, "min_upd": 8, "max_upd": 13}) for _ in range(400 if thorough else 100)]
    nblk = 0
    for sc in scs4:
        for e in sc["script"]:
            if e["acts"] and e["acts"][-1][0] == "place" and rng.random() < 0.7:
                e["acts"][-1][5] = dict(e["acts"][-1][5] or {}, trade_block=rng.choice(["raise", "raise", "ok"]))
                nblk += 1
    simcheck.run_family(ck, "exception_inside_trade_block", scs4, propcheck.c10, "C10", "tblock")
    # simulation with trade limits, multi-order and re-used trades (implementation only: the simulation model has no trade limits)
    lscs = [with_limits(rng, simgen.gen_scenario(rng, {"kinds": ["L"], "p_manage": 0.5, "p_place": 0.7, "nstrats": [1, 2], "p_remove": 0.0})) for _ in range(400 if thorough else 100)]
    louts = run_impl_parallel("simlib", [{"scenarios": [simgen.to_impl(x) for x in ch], "observe": "all"} for ch in chunked(lscs, 10)], timeout=3600)
    limpl = [r for o in louts for r in o["out"]]
    pf = []
    for i, (sc, io) in enumerate(zip(lscs, limpl)):
        for key, desc, det in sim_limit_decisions(sc, io):
            pf.append((i, key, desc, det))
    from collections import Counter
    ck.family("simulation_trade_limits", len(lscs), len(lscs), [], sorted({i for i, *_ in pf}),
              dist={"placements_accepted": sum(1 for io in limpl for r in io["requests"] if r[3] == "place" and r[5] is True),
                    "placements_refused": sum(1 for io in limpl for r in io["requests"] if r[3] == "place" and r[5] is False),
                    "limits": dict(Counter("%s/%s/%s" % (sp["max_trade"] if sp["max_trade"] < 10 ** 6 else "inf", sp["max_live"] if sp["max_live"] < 10 ** 6 else "inf", sp["multi"]) for sc in lscs for sp in sc["strategies"]))})
    seen = set()
    for i, key, desc, det in pf:
        if key not in seen:
            seen.add(key)
            ck.fail(key, desc, {"scenario": lscs[i], "detail": det, "how": "harness/impl/simlib.py run_scenario on the real FlumineSimulation"})
    return ck.finish("live: random histories (multi-order trades, re-used trades, replacements, adoption after restart; with and without max_trade_count / max_live_trade_count / multi_order_trades / reset_seconds / place_reset_seconds and a fake clock) on the real Trade / RunnerContext / validate_order / BetfairExecution / process_current_orders, compared step by step with the Coq live model; after every step the runner contexts are compared with a recount from the blotter's orders, trade completion with the orders' completeness, and every accept/refuse decision of validate_order with the decision recomputed from the recount.  simulation: the same recount at every strategy call of whole-loop scenarios")


def replay(path):
    print(open(path).read()); return 0

"""C10 - trade and runner accounting follows the real state of the orders."""
import random
from common import *
import livegen, livecheck, simgen, simcheck, propcheck
import c04

PID = "C10"


def main():
    ck = Check(PID)
    rng = random.Random(seed())
    thorough = tier() == "thorough"
    if not simcheck.gen_status(ck):
        return ck.finish("generator failed")
    if not ck.build_props(["Model/LiveCases.vo", "Model/SimCases.vo"]):
        coq_build(["Model/LiveCases.vo", "Model/SimCases.vo"])
    chk = [livecheck.c10]
    n = 1500 if thorough else 300
    livegen.run_live_family(ck, "live_histories_unlimited", [livegen.gen_script(rng, {"restart": True, "max_len": 30, "p_trade": 0.5}) for _ in range(n)], chk, PID)
    livegen.run_live_family(ck, "live_histories_limits_and_cooldowns", [livegen.gen_script(rng, {"restart": True, "max_len": 34, "p_trade": 0.5, "limits": True}) for _ in range(n)], chk, PID)
    scs = [simgen.gen_scenario(rng, {"kinds": ["L"] * 8 + ["LOC", "MOC"], "p_manage": 0.75, "p_susp": 0.3, "p_inplay": 0.2, "p_remove": 0.08, "p_fok": 0.15, "nstrats": [1, 2]}) for _ in range(800 if thorough else 200)]
    simcheck.run_family(ck, "simulation_histories", scs, propcheck.c10, "C10", "sim")
    scs3 = [c04.race_scenario(rng) for _ in range(600 if thorough else 150)]
    simcheck.run_family(ck, "simulation_requests_in_flight_races", scs3, propcheck.c10, "C10", "race")
    return ck.finish("live: random histories (multi-order trades, re-used trades, replacements, adoption after restart; with and without max_trade_count / max_live_trade_count / multi_order_trades / reset_seconds / place_reset_seconds and a fake clock) on the real Trade / RunnerContext / validate_order / BetfairExecution / process_current_orders, compared step by step with the Coq live model; after every step the runner contexts are compared with a recount from the blotter's orders, trade completion with the orders' completeness, and every accept/refuse decision of validate_order with the decision recomputed from the recount.  simulation: the same recount at every strategy call of whole-loop scenarios")


def replay(path):
    print(open(path).read()); return 0

"""C14 — simulation is deterministic, complete and chronological."""
import json, random, copy
from common import *
import simgen

PID = "C14"
HDR = "From V Require Import Model.Num Model.Merge Model.C14Cases.\nOpen Scope Z_scope.\n"
T0 = 1_700_000_000_000


def plain_market(rng, mid, event, group, n, base_pt, same_times=None, status_seq=None, market_time=None, inplay_from=None):
    ups, pt = [], base_pt
    for u in range(n):
        if u > 0:
            pt += rng.choice([0, 1, 50, 100, 1000, 1000, 5000]) if same_times is None else 0
        if same_times is not None:
            pt = same_times[u]
        st = "OPEN" if status_seq is None else status_seq[u]
        ups.append({"pt": pt, "status": st, "version": 1, "inplay": inplay_from is not None and u >= inplay_from, "bsp_rec": False, "delay": 0,
                    "runners": [{"id": 1, "status": "ACTIVE", "adj": 1000, "atb": [[20000, 500]], "atl": [[20200, 500]], "trd": []},
                                {"id": 2, "status": "ACTIVE", "adj": 2000, "atb": [[30000, 500]], "atl": [[31000, 500]], "trd": []}]})
    m = {"id": "1.10000%04d" % mid, "event": "2000%04d" % event, "group": group, "type": "WIN", "bsp": True, "persist": True, "winners": 1, "updates": ups}
    if market_time is not None:
        m["market_time"] = market_time
    return m


def base_scenario(markets, nstrat=1, script=None, cfg=None):
    return {"config": dict({"place_latency": 0.12, "cancel_latency": 0.17, "update_latency": 0.15, "replace_latency": 0.28, "isolation": True}, **(cfg or {})),
            "clients": [{"bpe": True, "full_match": False, "limit": None, "min_val": False}],
            "strategies": [{"name": "s%d" % i, "client": 0} for i in range(nstrat)], "markets": markets, "script": script or []}


def groups_of(sc):
    """insertion-ordered grouping as FlumineSimulation.run does it (dict keyed by event group; None when not event-processed)"""
    groups = {}
    for mi, m in enumerate(sc["markets"]):
        key = m["event"] if m.get("group") else None
        groups.setdefault(key, []).append(mi)
    out = []
    for key, mis in groups.items():
        if key is not None and len(mis) > 1:
            out.append(mis)
        else:
            out += [[mi] for mi in mis]
    return out


def delivered_impl(io, strat=0):
    return [(c[2], c[3]) for c in io["calls"] if c[0] == strat and c[1] in ("book", "closed")]


def main():
    ck = Check(PID)
    rng = random.Random(seed())
    thorough = tier() == "thorough"
    if not ck.build_props(["Model/C14Cases.vo"]):
        coq_build(["Model/C14Cases.vo"])
    n = 600 if thorough else 150

    # ---- family 1: event groups / merge order / completeness / clock
    scs = []
    for _ in range(n):
        nm = rng.randrange(1, 6)
        nev = rng.randrange(1, 4)
        group = rng.random() < 0.8
        lens = [rng.randrange(1, 9) for _ in range(nm)]
        same = rng.random() < 0.3
        markets = []
        for i in range(nm):
            st = [T0 + 1000 * k for k in range(lens[i])] if same else None
            markets.append(plain_market(rng, i + 1, rng.randrange(nev), group, lens[i], T0 + rng.choice([0, 0, 500, 7000]), st))
            if rng.random() < 0.4 and lens[i] > 1:
                markets[-1]["updates"][-1]["status"] = "CLOSED"
        scs.append(base_scenario(markets, nstrat=rng.choice([1, 2])))
    outs = run_impl_parallel("simlib", [{"scenarios": [simgen.to_impl(s) for s in ch], "observe": "calls"} for ch in chunked(scs, 30)])
    impl = [r for o in outs for r in o["out"]]
    rows, bad_clock, incomplete = [], [], []
    for i, (sc, io) in enumerate(zip(scs, impl)):
        mindex = {m["id"]: k for k, m in enumerate(sc["markets"])}
        dl = delivered_impl(io)
        idmap = {}
        streams = []
        for g in groups_of(sc):
            streams.append(cl(cl("(%s, %s)" % (z(u["pt"]), z(mi * 1000 + k)) for k, u in enumerate(sc["markets"][mi]["updates"])) for mi in g))
        # implementation's order as (pt, id): the k-th delivery of market mi is its k-th update
        cnt = {}
        got = []
        for mid, pt in dl:
            mi = mindex[mid]; k = cnt.get(mi, 0); cnt[mi] = k + 1
            got.append("(%s, %s)" % (z(pt), z(mi * 1000 + k)))
        rows.append("(%s, %s)" % (cl(streams), cl(got)))
        if any(c[3] != c[4] for c in io["calls"]):
            bad_clock.append(i)
        total = sum(len(m["updates"]) for m in sc["markets"])
        if len(dl) != total or not io["clock_restored"]:
            incomplete.append(i)
    bad = []
    for k, o in enumerate(coq_eval("c14ord", HDR, ["Definition cases : list (list (list stream) * list upd) := %s.\nEval vm_compute in bad_idx order_ok cases.\n" % cl(ch) for ch in chunked(rows, 50)])):
        bad += [k * 50 + x for x in parse_nlist(parse_evals(o)[0])]
    pf = sorted(set(bad) | set(bad_clock) | set(incomplete))
    ck.family("event_group_order", len(scs), len(set(rows)), bad, pf, dist={"markets": sum(len(s["markets"]) for s in scs), "grouped": sum(1 for s in scs if s["markets"][0]["group"])},
              samples=[{"family": "order", "groups": groups_of(scs[0]), "delivered": delivered_impl(impl[0])[:6]}])
    for i in pf[:3]:
        what = ("delivery order differs from the merge by publish time with each market's own order preserved" if i in bad else
                "the framework clock differs from the publish time in a callback" if i in bad_clock else "an update was not delivered exactly once / the real clock was not restored")
        ck.fail("C14-order" if i in bad else "C14-clock" if i in bad_clock else "C14-complete", what, {"scenario": scs[i], "delivered": delivered_impl(impl[i]), "clock_restored": impl[i]["clock_restored"]})

    # ---- family 2: listener filters
    fcases, fsc = [], []
    for _ in range(n):
        nupd = rng.randrange(3, 12)
        ip_from = rng.choice([None, rng.randrange(1, nupd)])
        sts = [rng.choice(["OPEN", "OPEN", "OPEN", "SUSPENDED"]) for _ in range(nupd)]
        mt_ms = T0 + rng.choice([0, 5000, 60000, 600000])
        import datetime
        mt_iso = datetime.datetime.utcfromtimestamp(mt_ms / 1000).strftime("%Y-%m-%dT%H:%M:%S.000Z")
        m = plain_market(rng, 1, 1, False, nupd, T0, None, sts, mt_iso, ip_from)
        m["img"] = False          # historic-file style: the stream cache (and the filter's state) persists across lines
        mts = [mt_ms] * nupd
        if rng.random() < 0.5:
            # the start is put back / brought forward by a later market definition (a rescheduled race)
            k0 = rng.randrange(1, nupd)
            mt2 = mt_ms + rng.choice([-600000, -60000, -5000, 5000, 60000, 600000])
            for k in range(k0, nupd):
                mts[k] = mt2
                m["updates"][k]["market_time"] = datetime.datetime.utcfromtimestamp(mt2 / 1000).strftime("%Y-%m-%dT%H:%M:%S.000Z")
        lk = {}
        r = rng.random()
        if r < 0.3:
            lk["inplay"] = rng.choice([True, False])
        elif r < 0.6:
            lk["seconds_to_start"] = rng.choice([1, 5, 60, 600])
        if rng.random() < 0.4:
            lk["max_inplay_seconds"] = rng.choice([0, 1, 5, 60])
        sc = base_scenario([m])
        sc["strategies"][0]["listener_kwargs"] = lk
        fsc.append((sc, lk, mts))
    fouts = run_impl_parallel("simlib", [{"scenarios": [simgen.to_impl(s[0]) for s in ch], "observe": "calls"} for ch in chunked(fsc, 30)])
    fimpl = [r for o in fouts for r in o["out"]]
    frows = []
    for (sc, lk, mts), io in zip(fsc, fimpl):
        lo = "{| lo_inplay := %s; lo_seconds_to_start := %s; lo_max_inplay := %s |}" % (copt(lk.get("inplay"), cb), copt(lk.get("seconds_to_start")), copt(lk.get("max_inplay_seconds")))
        us = cl("(mk_u %s %s %s %s)" % (z(u["pt"]), cb(u["status"] == "OPEN"), cb(u["inplay"]), z(mt_k)) for u, mt_k in zip(sc["markets"][0]["updates"], mts))
        frows.append("(%s, %s, %s)" % (lo, us, zl(pt for _, pt in delivered_impl(io))))
    fbad = []
    for k, o in enumerate(coq_eval("c14fil", HDR, ["Definition cases := %s.\nEval vm_compute in bad_idx filter_ok cases.\n" % cl(ch) for ch in chunked(frows, 100)])):
        fbad += [k * 100 + x for x in parse_nlist(parse_evals(o)[0])]
    # the same filtered runs in processes with other local time zones (TZ): the delivered updates do not depend on the process environment
    tzbad = []
    for tzname in ("EST5", "CET-1"):
        tz_out = []
        for ch in chunked(fsc, 30):
            tz_out += run_impl("simlib", {"scenarios": [simgen.to_impl(s[0]) for s in ch], "observe": "calls"}, extra_env={"TZ": tzname})["out"]
        tzbad += [i for i, (a, b_) in enumerate(zip(fimpl, tz_out)) if delivered_impl(a) != delivered_impl(b_)]
    fbad = sorted(set(fbad) | set(tzbad))
    ck.family("listener_filters", len(frows), len(set(frows)), fbad, fbad,
              dist={"with_inplay": sum(1 for s in fsc if "inplay" in s[1]), "with_seconds_to_start": sum(1 for s in fsc if "seconds_to_start" in s[1]), "with_max_inplay": sum(1 for s in fsc if "max_inplay_seconds" in s[1])},
              samples=[{"family": "filter", "listener_kwargs": fsc[0][1], "delivered": delivered_impl(fimpl[0])}])
    for i in fbad[:3]:
        ck.fail("C14-filter", "the updates delivered under listener filters %s are not exactly those that pass the filters, once each%s" % (fsc[i][1], " (they differ between processes with TZ unset, EST5 and CET-1)" if i in tzbad else ""), {"scenario": fsc[i][0], "delivered": delivered_impl(fimpl[i])})

    # ---- family 3: determinism across fresh processes with different PYTHONHASHSEED (several event groups, orders, carried state)
    dsc = []
    for _ in range(24 if thorough else 8):
        s = simgen.gen_scenario(rng, {"nmarkets": [3, 4], "group": True, "same_time": True, "nstrats": [1, 2], "max_upd": 7})
        for mi, m in enumerate(s["markets"]):
            m["event"] = "2000%04d" % (mi % 3)          # three event groups (two markets share one)
        dsc.append(s)
    payload = {"scenarios": [simgen.to_impl(s) for s in dsc], "observe": "all"}
    runs = [run_impl("simlib", payload, hashseed=h)["out"] for h in ("0", "1", "12345", "987")]
    def ledger(io):
        return json.dumps({"calls": [c[:4] for c in io["calls"]], "final": [{k: o[k] for k in ("o", "status", "matched", "avg", "remaining", "cancelled", "lapsed", "voided", "frags", "profit", "log")} for o in io["final"]],
                           "events": io["events"], "tx": io["tx"]}, sort_keys=True)
    dbad = [i for i in range(len(dsc)) if len({ledger(r[i]) for r in runs}) != 1]
    # and equal to the model's order
    drows = []
    for sc, io in zip(dsc, runs[0]):
        mindex = {m["id"]: k for k, m in enumerate(sc["markets"])}
        cnt, got = {}, []
        for mid, pt in delivered_impl(io):
            mi = mindex[mid]; k = cnt.get(mi, 0); cnt[mi] = k + 1
            got.append("(%s, %s)" % (z(pt), z(mi * 1000 + k)))
        streams = [cl(cl("(%s, %s)" % (z(u["pt"]), z(mi * 1000 + k)) for k, u in enumerate(sc["markets"][mi]["updates"])) for mi in g) for g in groups_of(sc)]
        drows.append("(%s, %s)" % (cl(streams), cl(got)))
    o = coq_eval("c14det", HDR, ["Definition cases : list (list (list stream) * list upd) := %s.\nEval vm_compute in bad_idx order_ok cases.\n" % cl(drows)])[0]
    dbad2 = parse_nlist(parse_evals(o)[0])
    ck.family("determinism_hash_seeds", len(dsc) * len(runs), len(dsc), dbad2, sorted(set(dbad) | set(dbad2)), dist={"hash_seeds": ["0", "1", "12345", "987"], "event_groups_per_run": 3})
    for i in sorted(set(dbad) | set(dbad2))[:3]:
        ck.fail("C14-determinism", "the same strategies over the same data give different deliveries/orders/fills under different PYTHONHASHSEED (or differ from the model's order)",
                {"scenario": dsc[i], "delivered_by_seed": {h: delivered_impl(r[i]) for h, r in zip(("0", "1", "12345", "987"), runs)}})

    # ---- family 3b: independence of the WALL clock: markets one hour apart, a client with an hourly transaction limit of 1-3, orders in every
    # market; the same run under a wall clock that never moves and under one that jumps 25 minutes at every reading
    wsc = []
    for _ in range(18 if thorough else 6):
        s = simgen.gen_scenario(rng, {"nmarkets": [3, 4], "nstrats": [1], "kinds": ["L"], "p_place": 0.9, "p_manage": 0.1, "min_upd": 5, "max_upd": 8, "p_remove": 0.0, "no_remove": True})
        for c in s["clients"]:
            c["limit"] = rng.choice([1, 2, 3, None])
        # half of the runs use placement cool-downs (measured on the framework clock, i.e. market time)
        if rng.random() < 0.5:
            for sp in s["strategies"]:
                sp.update({"max_live": 10 ** 6, "max_trade": 10 ** 6})
            for e in s["script"]:
                for a in e["acts"]:
                    if a[0] == "place":
                        a[5] = dict(a[5] or {}, place_reset=rng.choice([0.2, 1.0, 3.0]), reset=rng.choice([0.0, 1.0]))
        wsc.append(s)
    wpayload = {"scenarios": [simgen.to_impl(s) for s in wsc], "observe": "all"}
    wruns = [run_impl("simlib", wpayload, extra_env={"VERIF_WALL": w})["out"] for w in ("frozen", "fast")]
    wbad = [i for i in range(len(wsc)) if len({ledger(r[i]) for r in wruns}) != 1]
    ck.family("determinism_wall_clock", len(wsc) * 2, len(wsc), [], wbad,
              dist={"wall_clocks": ["never moves", "jumps 25 minutes at every reading"], "orders_refused_by_the_hourly_limit": sum(1 for io in wruns[0] for r in io["requests"] if r[3] == "place" and r[5] is False),
                    "orders_accepted": sum(1 for io in wruns[0] for r in io["requests"] if r[3] == "place" and r[5] is True)})
    for i in wbad[:2]:
        ck.fail("C14-wall-clock", "the same strategies over the same data give different orders under two wall clocks (one frozen, one jumping 25 minutes per reading): statuses %s vs %s"
                % ([o["status"] for o in wruns[0][i]["final"]], [o["status"] for o in wruns[1][i]["final"]]), {"scenario": wsc[i], "how": "harness/impl/simlib.py with VERIF_WALL=frozen / fast"})

    # ---- family 4: the clock - restored after the run also when it ends with an exception; still simulated after a failing real_time() block
    csc = []
    for k in range(12):
        m = plain_market(rng, 1, 1, False, 6, T0)
        act = [["real_time_raise"]] if k % 2 == 0 else [["raise"]]
        sc = base_scenario([m], script=[{"s": 0, "m": 0, "u": 2, "acts": act}], cfg={"raise_errors": k % 4 == 3})
        csc.append(sc)
    couts = run_impl("simlib", {"scenarios": [simgen.to_impl(s) for s in csc], "observe": "calls"})["out"]
    cbad = []
    for i, (sc, io) in enumerate(zip(csc, couts)):
        if not io["clock_restored"] or any(c[3] != c[4] for c in io["calls"]):
            cbad.append(i)
        if not sc["config"]["raise_errors"] and len(delivered_impl(io)) != 6:
            cbad.append(i)
    ck.family("clock_and_errors", len(csc), len(csc), [], sorted(set(cbad)), dist={"raise_errors_runs": sum(1 for s in csc if s["config"]["raise_errors"])})
    for i in sorted(set(cbad))[:2]:
        ck.fail("C14-clock", "after an exception inside a strategy callback (incl. inside simulated_datetime.real_time()) the framework clock is no longer the publish time, an update is lost, or the real clock is not restored after the run",
                {"scenario": csc[i], "calls": couts[i]["calls"], "clock_restored": couts[i]["clock_restored"], "error": couts[i]["error"]})
    ck.assumptions.append("process identity / hash seeds are runtime facts the model cannot express: determinism across PYTHONHASHSEED is sampled (4 seeds), labelled partial for 'configurations'")
    return ck.finish("runs of 1-5 market files (equal/unequal lengths, identical publish times, 1-3 events, event_processing on/off, closing updates) on the real FlumineSimulation: delivered (market, publish time) sequence compared in Coq with the model's merge; listener filters inplay/seconds_to_start/max_inplay_seconds vs the model; identical ledgers across 4 PYTHONHASHSEEDs for runs with 3 event groups; identical ledgers under a frozen and a jumping wall clock for runs spanning several hours with an hourly transaction limit; clock restored / still simulated after exceptions")


def replay(path):
    print(open(path).read()); return 0

"""C08 — settlement: simulated profit follows the exchange's rules."""
import json, random
from fractions import Fraction
from common import *

PID = "C08"
HDR = "From V Require Import Model.Num Model.Status Model.Settle Model.C08Cases.\nOpen Scope Z_scope.\n"
RES = {"WINNER": "RsWinner", "LOSER": "RsLoser", "PLACED": "RsPlaced", "REMOVED": "RsRemoved", None: "RsNone", "ACTIVE": "RsNone"}


def coq_s(c):
    dv = Fraction(str(c["div"])) if c["div"] else Fraction(1)
    return "(mk_s %s %s %s %s %s %s %s %s %s %s)" % ("Back" if c["side"] == "BACK" else "Lay", cb(c["ew"]), z(dv.numerator), z(dv.denominator), cb(c["line"]),
                                                 copt(c["lr"]), z(c["m"]), z(c["a"]), RES[c["result"]], z(c["dead"] or 1))


def spec_profit(c):
    """independent settlement calculator (exact rationals) -> set of admissible cent values (both neighbours on an exact tie)"""
    m, a = Fraction(c["m"], 100), Fraction(c["a"], 10000)
    n = c["dead"] or 1
    sgn = 1 if c["side"] == "BACK" else -1
    if c["ew"]:
        d = Fraction(str(c["div"]))
        win, place = m * (a - 1), m * (a - 1) / d
        v = {"WINNER": sgn * (win + place), "PLACED": sgn * (place - m), "LOSER": sgn * (-2 * m)}.get(c["result"], Fraction(0))
    elif c["line"]:
        if c["lr"] is None:
            v = Fraction(0)
        else:
            r = Fraction(c["lr"], 10000)
            if a == r:
                return None          # the tie of the struck line with the result: known finding, not judged here
            wins = (a > r) if c["side"] == "BACK" else (a < r)
            v = m if wins else -m
    else:
        if c["result"] == "WINNER":
            v = sgn * ((m / n) * (a - 1) - (m * (n - 1) / n if n > 1 else 0))
        elif c["result"] == "LOSER":
            v = -sgn * m
        else:
            v = Fraction(0)
    x = v * 100
    lo = x.numerator // x.denominator
    if x == lo:
        return {lo}
    if x - lo == Fraction(1, 2):
        return {lo, lo + 1}
    return {lo if x - lo < Fraction(1, 2) else lo + 1}


def main():
    ck = Check(PID)
    rng = random.Random(seed())
    thorough = tier() == "thorough"
    if not ck.build_props(["Model/C08Cases.vo"]):
        coq_build(["Model/C08Cases.vo"])
    n = 40000 if thorough else 8000
    cases = []
    for _ in range(n):
        ew = rng.random() < 0.25
        line = (not ew) and rng.random() < 0.2
        a = rng.choice([10100, 15000, 20000, 33500, 26400, 100000, 10000 + rng.randrange(1, 200000) // 100 * 100])
        lr = None
        if line:
            a = rng.randrange(1, 600) * 5000
            lr = rng.choice([None, 0, a, a + 5000, a - 5000, rng.randrange(1, 600) * 5000])
        cases.append({"side": rng.choice(["BACK", "LAY"]), "ew": ew, "div": rng.choice([4.0, 5.0, 4, 5, 1]) if ew else 1, "line": line, "lr": lr,
                      "m": rng.choice([0, 1, 200, 1000, 333, 5, 1234, rng.randrange(0, 100000)]), "a": a,
                      "result": rng.choice(["WINNER", "WINNER", "LOSER", "PLACED", "REMOVED", None]), "dead": rng.choice([None, 1, 1, 2, 3, 4, 7])})
    outs = run_impl_parallel("c08", [{"job": "profit", "cases": ch} for ch in chunked(cases, 2000)])
    res = [r for o in outs for r in o["out"]]
    rows = ["(%s, %s)" % (coq_s(c), z(r)) for c, r in zip(cases, res)]
    CH = 2000
    codes = []
    for o in coq_eval("c08p", HDR, ["Definition cases := %s.\nEval vm_compute in (map profit_cmp cases).\n" % cl(ch) for ch in chunked(rows, CH)]):
        codes += parse_nlist(parse_evals(o)[0])
    mism = [i for i, c in enumerate(codes) if c == 2]
    pf, known = [], []
    for i, (c, r) in enumerate(zip(cases, res)):
        adm = spec_profit(c)
        if adm is None:
            known.append(i)
        elif r not in adm:
            pf.append(i)
    ck.family("profit_direct", len(cases), len(set(rows)), mism, pf, ambiguous=sum(1 for c in codes if c == 1),
              dist={"each_way": sum(1 for c in cases if c["ew"]), "line": sum(1 for c in cases if c["line"]), "dead_heat": sum(1 for c in cases if (c["dead"] or 1) > 1),
                    "line_price_equals_result": len(known)},
              samples=[{"family": "profit", "case": cases[3], "impl_profit_cents": res[3]}])
    for i in pf[:3]:
        ck.fail("C08-profit", "order.simulated.profit = %s cents but the exchange's rules give %s" % (res[i], sorted(spec_profit(cases[i]))), {"call": "SimulatedOrder.profit", "case": cases[i], "impl_cents": res[i]})
    for i in known[:1]:
        if cases[i]["m"] > 0:
            flipped = dict(cases[i], side="LAY" if cases[i]["side"] == "BACK" else "BACK")
            ck.fail("C08-line-price-equals-result", "LINE_RANGE order whose average matched price equals the line result: profit %s; the opposite side loses too" % res[i],
                    {"call": "SimulatedOrder.profit", "case": cases[i], "impl_cents": res[i]})
    # back/lay antisymmetry on the implementation (identical fills), outside the known tie
    anti = []
    pairs = [(c, dict(c, side="LAY" if c["side"] == "BACK" else "BACK")) for c in cases[:3000] if not (c["line"] and c["lr"] == c["a"])]
    o2 = run_impl("c08", {"job": "profit", "cases": [p for pr in pairs for p in pr]})["out"]
    for k, (c, f) in enumerate(pairs):
        if o2[2 * k] != -o2[2 * k + 1]:
            anti.append(k)
    ck.family("back_lay_antisymmetry", len(pairs), len(pairs), [], anti)
    for k in anti[:3]:
        ck.fail("C08-antisymmetry", "identical fills: BACK profit %s, LAY profit %s are not opposite" % (o2[2 * k], o2[2 * k + 1]), {"call": "SimulatedOrder.profit", "case": pairs[k][0]})

    # ---- process_closed_market + Market.cleared on a real market
    ccases = []
    for _ in range(4000 if thorough else 800):
        nr = rng.randrange(2, 6)
        mtype = rng.choice(["WIN", "WIN", "PLACE", "EACH_WAY", "OTHER_PLACE"])
        w = rng.randrange(0, nr + 1)
        sts = ["WINNER"] * w + ["LOSER"] * (nr - w)
        rng.shuffle(sts)
        if mtype == "EACH_WAY":
            sts = [rng.choice(["WINNER", "PLACED", "LOSER"]) for _ in range(nr)]
        if rng.random() < 0.2:
            sts[rng.randrange(nr)] = "REMOVED"
        ncl = rng.choice([1, 1, 2])
        line_market = rng.random() < 0.1
        orders = [{"sel": rng.randrange(1, nr + 2), "side": rng.choice(["BACK", "LAY"]), "line": line_market, "client": rng.randrange(ncl),
                   "m": rng.choice([0, 200, 1000, 333, 1234]), "a": (rng.randrange(1, 100) * 5000 if line_market else rng.choice([15000, 20000, 33500, 26400]))} for _ in range(rng.randrange(0, 7))]
        runners = [{"sel": i + 1, "status": s} for i, s in enumerate(sts)]
        if mtype == "WIN" and not line_market and rng.random() < 0.3:
            # handicap market: the same selections listed on several lines, each line settled on its own (an order belongs to ONE (selection, handicap))
            lines = rng.sample([-2.5, -1.5, -0.5, 0, 0.5, 1.5], rng.randrange(2, 4))
            runners = [{"sel": sel, "hc": hc, "status": rng.choice(["WINNER", "LOSER", "LOSER", "REMOVED"])} for sel in (1, 2) for hc in lines]
            rng.shuffle(runners)
            for d in orders:
                d["sel"] = rng.choice([1, 2, 2, 3])
                d["hc"] = rng.choice(lines + [2.5])
        ccases.append({"nclients": ncl, "rates": [rng.choice([0.05, 0.02, 0.0, 0.065]) for _ in range(ncl)], "orders": orders,
                       "runners": runners, "declared": rng.choice([0, 1, 1, 1, 2, 3]),
                       "mtype": mtype, "div": rng.choice([4.0, 5.0]) if mtype == "EACH_WAY" else 1, "line_result": rng.choice([None, 0, rng.randrange(1, 100) * 5000]) if line_market else None})
    co = run_impl_parallel("c08", [{"job": "closed", "cases": ch} for ch in chunked(ccases, 200)])
    cres = [r for o in co for r in o["out"]]
    prow, crow, drow, meta = [], [], [], []
    krow = []
    hc10 = lambda x: z(int(round(x * 10)))
    bad_copy = []
    for ci, (c, r) in enumerate(zip(ccases, cres)):
        wn = sum(1 for x in c["runners"] if x["status"] == "WINNER")
        st = {(x["sel"], x.get("hc", 0)): x["status"] for x in c["runners"]}
        for d, po in zip(c["orders"], r["orders"]):
            exp_res = st.get((d["sel"], d.get("hc", 0)))
            if po["result"] != exp_res or (exp_res is not None and (po["mtype"] != c["mtype"] or po["div"] != c["div"])):
                bad_copy.append(ci)
            krow.append("(%s, (%s, %s), %s)" % (cl(["((%s, %s), %s)" % (z(x["sel"]), hc10(x.get("hc", 0)), RES[x["status"]]) for x in c["runners"]]), z(d["sel"]), hc10(d.get("hc", 0)), RES[po["result"]]))
            if exp_res is not None:
                drow.append("(%s, %s, %s)" % (z(wn), z(c["declared"]), copt(po["dead"])))
            case = {"side": d["side"], "ew": po["mtype"] == "EACH_WAY", "div": po["div"] or 1, "line": d["line"], "lr": po["lr"], "m": d["m"], "a": d["a"], "result": po["result"], "dead": po["dead"]}
            prow.append("(%s, %s)" % (coq_s(case), z(po["profit"])))
        for k, (cl_, rate) in enumerate(zip(r["cleared"], c["rates"])):
            ps = [po["profit"] for d, po in zip(c["orders"], r["orders"]) if d["client"] == k and d["m"] > 0]
            fr = Fraction(str(rate))
            crow.append("(%s, %s, %s, (%s, %s, %s))" % (zl(ps), z(fr.numerator), z(fr.denominator), z(cl_[0]), z(cl_[1]), z(cl_[2])))
            meta.append((ci, k))
    def ev(name, rows, fn, boolmode=False):
        out = []
        for o in coq_eval(name, HDR, ["Definition cases := %s.\nEval vm_compute in (%s cases).\n" % (cl(ch), ("bad_idx %s" % fn) if boolmode else ("map %s" % fn)) for ch in chunked(rows, 1500)]):
            out.append(parse_nlist(parse_evals(o)[0]))
        return out
    pc = [x for ch in ev("c08cp", prow, "profit_cmp") for x in ch]
    cc = [x for ch in ev("c08cc", crow, "cleared_cmp") for x in ch]
    dbad = [i * 1500 + k for i, ch in enumerate(ev("c08cd", drow, "dead_cmp", True)) for k in ch]
    kbad = [i * 1500 + k for i, ch in enumerate(ev("c08ck", krow, "closed_cmp", True)) for k in ch]
    pm = [i for i, c in enumerate(pc) if c == 2]
    cm = [i for i, c in enumerate(cc) if c == 2]
    ck.family("closed_market_results_copied", len(ccases), len(ccases), sorted(set(bad_copy)), sorted(set(bad_copy)))
    ck.family("closed_market_settling_runner", len(krow), len(set(krow)), kbad, kbad, exhaustive=False,
              dist={"orders_on_handicap_lines": sum(1 for c in ccases for d in c["orders"] if "hc" in d), "handicap_markets": sum(1 for c in ccases if any("hc" in x for x in c["runners"]))})
    for i in kbad[:2]:
        ck.fail("C08-settling-runner", "process_closed_market gave an order a result other than the one of the runner on its (selection, handicap) line (model: Settle.closed_result)", {"row": krow[i]})
    ck.family("closed_market_profit", len(prow), len(set(prow)), pm, pm, ambiguous=sum(1 for c in pc if c == 1))
    ck.family("dead_heat_count", len(drow), len(set(drow)), dbad, dbad, exhaustive=False)
    ck.family("cleared_summary", len(crow), len(set(crow)), cm, cm, ambiguous=sum(1 for c in cc if c == 1),
              samples=[{"family": "cleared", "case": ccases[0], "impl": cres[0]["cleared"]}])
    whole_runs(ck, rng, thorough)
    for i in sorted(set(bad_copy))[:2]:
        ck.fail("C08-results-copied", "process_closed_market did not give every order of the market the runner's result and the market's settlement terms", {"case": ccases[i], "impl": cres[i]})
    for i in cm[:3]:
        ci, k = meta[i]
        ck.fail("C08-cleared", "Market.cleared(client %d) = %s differs from (sum of that client's matched orders, commission only on a net win, bet count)" % (k, cres[ci]["cleared"][k]),
                {"call": "Market.cleared", "case": ccases[ci], "impl": cres[ci]})
    for i in dbad[:2]:
        ck.fail("C08-dead-heat-count", "number_of_dead_heat_winners is not (winners in the book if more than declared)", {"row": drow[i]})
    for i in pm[:2]:
        ck.fail("C08-profit", "profit after process_closed_market differs from the exchange's rules", {"row": prow[i]})
    # live / paper trading: the cleared-market summary of a client in a market counts exactly that client's matched orders of THAT market, also
    # after the paper-trading order stream has polled the client's orders over several open markets
    lcases = []
    for _ in range(60 if thorough else 20):
        mids = ["1.101", "1.102"]
        steps = [["book", m, "OPEN"] for m in mids]
        k = 0
        for _ in range(rng.randrange(4, 10)):
            k += 1
            nm = "o%d" % k
            mid = rng.choice(mids)
            steps.append(["place", mid, nm, 0, rng.choice([101, 202]), rng.choice(["BACK", "LAY"]), 200, rng.choice([500, 1000])])
            steps.append(["ack", nm, "B%d" % k])
            if rng.random() < 0.7:
                steps.append(["stream", [{"ref": nm, "market": mid, "bet": "B%d" % k, "status": rng.choice(["EXECUTABLE", "EXECUTION_COMPLETE"]), "matched": rng.choice([200, 500]), "remaining": 0}]])
            if rng.random() < 0.5:
                steps.append(["poll"])
        steps.append(["poll"])
        lcases.append({"strategies": 1, "steps": steps})
    louts = run_impl_parallel("livelib", [{"job": "orders", "cases": ch} for ch in chunked(lcases, 10)], timeout=1800)
    limpl = [r for o in louts for r in o["out"]]
    lbad = []
    for i, (c, r) in enumerate(zip(lcases, limpl)):
        for si, ob in enumerate(r):
            for mid, v in ob["blotters"].items():
                if v["cleared"][0][0] != v["matched_by_client"][0][0] or abs(v["cleared"][0][1] - v["matched_by_client"][0][1]) > 0.005:
                    lbad.append((i, "step %d: the cleared summary of market %s counts %s bets / profit %s, the client has %s matched orders there / profit %s" % (si, mid, v["cleared"][0][0], v["cleared"][0][1], v["matched_by_client"][0][0], v["matched_by_client"][0][1])))
                    break
            else:
                continue
            break
    ck.family("cleared_summary_after_order_stream_polls", len(lcases), len(lcases), [], sorted({i for i, _ in lbad}), dist={"polls": sum(1 for c in lcases for s in c["steps"] if s[0] == "poll")})
    for i, why in lbad[:2]:
        ck.fail("C08-cleared-summary", why, {"case": lcases[i], "how": "harness/impl/livelib.py job orders (poll = SimulatedOrderStream._get_current_orders)"})
    return ck.finish("whole simulated runs (1-3 strategies, 1-2 clients with different commission rates, markets closed once / repeatedly with amended results / closed-reopened-closed): order profit and per-client cleared summary re-computed at every close; SimulatedOrder.profit on real orders (both sides, plain/each-way/line, every result, dead heats 1-7, divisors, line results below/equal/above, reduced prices) vs the Coq model (both tie-breaks) and an independent exact-rational calculator; back/lay antisymmetry on identical fills; Blotter.process_closed_market + Market.cleared on real markets with 1-2 clients and commission rates; distinct = distinct case rows")


def whole_runs(ck, rng, thorough):
    """settlement inside whole simulated runs: 1-3 strategies and 1-2 clients (commission 0/2/5/6.5%) with orders in the same markets, markets
    closed once, twice in a row with an amended result, or closed - re-opened - closed: at EVERY close each order's profit is what its fills
    pay under the result of that close, and each client's cleared summary is the sum over its matched orders with commission on a net win only"""
    import copy, simgen
    n = 240 if thorough else 60
    scs = []
    for _ in range(n):
        s = simgen.gen_scenario(rng, {"nmarkets": [1, 2], "nstrats": [1, 2, 3], "p_close": 0.0, "min_upd": 5, "max_upd": 8, "no_remove": True, "p_remove": 0.0,
                                      "p_inplay": 0.0, "kinds": ["L"], "p_place": 0.7, "p_manage": 0.2, "p_fok": 0.0, "types": ["WIN", "PLACE"], "even": False})
        for c in s["clients"]:
            c["commission"] = rng.choice([0.05, 0.02, 0.0, 0.065])
        if rng.random() < 0.4:
            s["clients"].append(dict(s["clients"][0], commission=rng.choice([0.05, 0.02])))
            for i, sp in enumerate(s["strategies"]):
                sp["client"] = i % 2
        for m in s["markets"]:
            last = m["updates"][-1]
            tail = rng.choice([["CLOSED"], ["CLOSED", "CLOSED"], ["CLOSED", "CLOSED", "CLOSED"], ["CLOSED", "OPEN", "CLOSED"]])
            pt = last["pt"]
            for stt in tail:
                pt += rng.choice([100, 1000, 5000])
                u = copy.deepcopy(last); u["pt"] = pt; u["status"] = stt; u["version"] = last["version"] + 1
                if stt == "CLOSED":
                    w = rng.randrange(len(u["runners"]))
                    for i, r in enumerate(u["runners"]):
                        r["status"] = "WINNER" if i == w else "LOSER"; r["atb"] = []; r["atl"] = []
                m["updates"].append(u)
        scs.append(s)
    outs = run_impl_parallel("simlib", [{"scenarios": [simgen.to_impl(x) for x in ch], "observe": "all"} for ch in chunked(scs, 20)], timeout=3600)
    impl = [r for o in outs for r in o["out"]]
    bad, nclose, norders, multi = [], 0, 0, 0
    for i, (sc, io) in enumerate(zip(scs, impl)):
        mindex = {m["id"]: k for k, m in enumerate(sc["markets"])}
        seen = set()
        # the logging control reports in order: per close of a market one cleared-market summary per client, then closed_market
        groups, cur = {}, []
        for e in io["events"]:
            if e[0] == "cleared_market":
                cur.append(e)
            elif e[0] == "closed_market":
                groups.setdefault(e[1], []).append(cur); cur = []
        kth = {}
        for o in io["obs"]:
            if o["cb"] != "closed" or (o["m"], o["pt"]) in seen:
                continue
            seen.add((o["m"], o["pt"])); nclose += 1
            k = kth.get(o["m"], 0); kth[o["m"]] = k + 1
            upd = next(u for u in sc["markets"][mindex[o["m"]]]["updates"] if u["pt"] == o["pt"] and u["status"] == "CLOSED")
            st = {r["id"]: r["status"] for r in upd["runners"]}
            tot = {}
            strategies_with_fills = set()
            for x in o["orders"]:
                norders += 1
                m_c, a_bp = int(round(x["matched"] * 100)), int(round(x["avg"] * 10000))
                adm = spec_profit({"side": x["side"], "ew": False, "div": 1, "line": False, "lr": None, "m": m_c, "a": a_bp, "result": st.get(x["sel"]), "dead": 1}) if m_c else {0}
                got = int(round(x["profit"] * 100))
                if got not in adm:
                    bad.append((i, "C08-profit-at-close", "order %s (%s %s @ %s on %s, result %s at this close): profit %s, the exchange's rules give %s cents" % (
                        x["o"], x["side"], x["matched"], x["avg"], x["sel"], st.get(x["sel"]), x["profit"], sorted(adm)), {"close_pt": o["pt"], "order": x}))
                # ... and what the exchange pays on the FILLS themselves (the reported average is a 2-dp rounding of their volume-weighted price)
                if m_c and x["frags"] and x["otype"] == "LIMIT" and st.get(x["sel"]) in ("WINNER", "LOSER"):
                    sgn = 1 if x["side"] == "BACK" else -1
                    if st.get(x["sel"]) == "WINNER":
                        pay = sgn * sum(Fraction(str(f[2])) * (Fraction(str(f[1])) - 1) for f in x["frags"])
                    else:
                        pay = -sgn * sum(Fraction(str(f[2])) for f in x["frags"])
                    tol = Fraction(m_c, 100) * Fraction(5, 1000) + Fraction(1, 100)
                    if abs(Fraction(str(x["profit"])) - pay) > tol:
                        bad.append((i, "C08-profit-vs-fills", "order %s: profit %s, its fills %s pay %.4f on a %s (more than a 2-dp average can explain)" % (
                            x["o"], x["profit"], x["frags"], float(pay), st.get(x["sel"])), {"close_pt": o["pt"], "order": x}))
                if m_c:
                    tot.setdefault(x["client"], []).append(got)
                    strategies_with_fills.add((x["client"], x["strategy"]))
            if len(strategies_with_fills) > len({c for c, _ in strategies_with_fills}):
                multi += 1
            cms = groups.get(o["m"], [])[k] if k < len(groups.get(o["m"], [])) else []
            for ci, c in enumerate(sc["clients"]):
                if ci >= len(cms):
                    bad.append((i, "C08-cleared-missing", "no cleared-market summary for client %d at the close of %s" % (ci, o["m"]), {"close_pt": o["pt"]})); continue
                prof = sum(tot.get(ci, []))
                rate = Fraction(str(c.get("commission", 0.05)))
                comm = Fraction(prof) * rate if prof > 0 else Fraction(0)
                e = cms[ci]
                ok = int(round(e[2] * 100)) == prof and e[4] == len(tot.get(ci, [])) and abs(Fraction(int(round(e[3] * 100))) - comm) <= Fraction(1, 2)
                if not ok:
                    bad.append((i, "C08-cleared-summary", "client %d at the close of %s: summary profit %s commission %s bets %s; its matched orders sum to %s cents, commission on a net win only = %s cents, %d bets" % (
                        ci, o["m"], e[2], e[3], e[4], prof, float(comm), len(tot.get(ci, []))), {"close_pt": o["pt"], "orders": [x for x in o["orders"] if x["client"] == ci]}))
    ck.family("settlement_in_whole_runs", len(scs), len(scs), [], sorted({b[0] for b in bad}),
              dist={"closes": nclose, "orders_settled": norders, "closes_with_several_strategies_of_one_client": multi, "runs_aborted_by_impl": sum(1 for io in impl if io["error"])})
    seen = set()
    for i, key, desc, det in bad:
        if key in seen:
            continue
        seen.add(key)
        ck.fail(key, desc, {"scenario": scs[i], "detail": det, "how": "harness/impl/simlib.py run_scenario(simgen.to_impl(scenario)) on the real FlumineSimulation"})


def replay(path):
    print(open(path).read()); return 0

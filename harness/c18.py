"""C18 — the transaction-limit control counts exactly and blocks when exceeded."""
import json, random, os
from common import *

PID = "C18"
HDR = "From V Require Import Model.Num Model.TxCount Model.C18Cases.\nOpen Scope Z_scope.\n"
H = 3600000
DAY = 24 * H


def coq_ev(e):
    if e[1] == "add":
        return "(Add %s %s)" % (z(e[2]), cb(e[3]))
    return "(Req %s %s)" % (z(e[2]), cb(e[3]))


def gen_history(rng):
    ncl = rng.choice([1, 1, 2, 3])
    limits = [rng.choice([None, 0, 3, 5, 10, 5000]) for _ in range(ncl)]
    t = rng.choice([0, 1, 5]) * DAY * 365 + rng.randrange(0, 3) * DAY + rng.choice([0, H - 5000, 23 * H + H - 3000, rng.randrange(0, DAY)])
    t += 1_600_000_000_000 - (1_600_000_000_000 % DAY)
    evs = []
    for _ in range(rng.randrange(1, 40)):
        ci = rng.randrange(ncl)
        r = rng.random()
        if r < 0.45:
            evs.append([ci, "add", rng.choice([0, 1, 1, 2, 3, 7, 60, 200]), rng.random() < 0.3])
        else:
            dt = rng.choice([0, 1, 999, 1000, 5000, 60000, H - 1, H, H + 1, 2 * H, DAY - 1, DAY, rng.randrange(0, 3 * H)])
            if rng.random() < 0.08:
                dt = -rng.choice([1, 1000, H, H + 1, 5 * H])     # clock jumping backwards between simulated markets
            t += dt
            evs.append([ci, "req", t, rng.random() < 0.1, rng.choice(["place", "cancel", "update", "replace"])])
    return {"limits": limits, "events": evs, "clock": rng.choice(["sim", "sim", "patched"])}


def main():
    ck = Check(PID)
    rng = random.Random(seed())
    thorough = tier() == "thorough"
    if not ck.build_props(["Model/C18Cases.vo"]):
        coq_build(["Model/C18Cases.vo"])
    hs = [gen_history(rng) for _ in range(6000 if thorough else 1500)]
    outs = run_impl_parallel("c18", [{"job": "hist", "cases": ch} for ch in chunked(hs, 200)])
    res = [r for o in outs for r in o["out"]]
    rows, meta = [], []
    for hi, (h, r) in enumerate(zip(hs, res)):
        for ci, L in enumerate(h["limits"]):
            evs = [(e, o) for e, o in zip(h["events"], r)]
            mine = [(e, o) for e, o in evs if e[0] == ci]
            # frame: events of other clients must not change this client's counters
            frame_ok = True
            prev = [0, 0]
            for e, o in evs:
                if e[0] != ci and o[1 + ci] != prev:
                    frame_ok = False
                prev = o[1 + ci]
            es = cl(coq_ev(e) for e, _ in mine)
            ob = cl("(%s, %s, %s)" % (copt(o[0], cb), z(o[1 + ci][0]), z(o[1 + ci][1])) for _, o in mine)
            rows.append("(%s, %s, %s)" % (copt(L), es, ob))
            meta.append((hi, ci, frame_ok))
    CH = 500
    outs = coq_eval("c18hist", HDR, ["Definition cases : list (option Z * list ev * list obs) := %s.\nEval vm_compute in (bad_idx hist_ok cases, bad_idx hist_prop cases).\n" % cl(ch) for ch in chunked(rows, CH)])
    bad, pbad = [], []
    for i, o in enumerate(outs):
        m = re.match(r"\((\[.*?\]|nil), (\[.*?\]|nil)\)", parse_evals(o)[0])
        bad += [i * CH + k for k in parse_nlist(m.group(1))]
        pbad += [i * CH + k for k in parse_nlist(m.group(2))]
    frame_bad = [i for i, m in enumerate(meta) if not m[2]]
    pbad = sorted(set(pbad + frame_bad))
    nref = sum(1 for r in res for o in r if o[0] is False)
    ck.family("control_histories", len(rows), len(set(rows)), bad, pbad,
              dist={"histories": len(hs), "client_histories": len(rows), "events": sum(len(h["events"]) for h in hs), "refusals": nref,
                    "clock_sim": sum(1 for h in hs if h["clock"] == "sim"), "clock_patched": sum(1 for h in hs if h["clock"] != "sim")},
              samples=[{"family": "history", "case": hs[0], "impl": res[0][:4]}])
    for i in (pbad + bad)[:5]:
        hi, ci, fo = meta[i]
        ck.fail("C18-control", "transaction counters / blocking differ from 'totals = all adds; hourly = adds since the last restart; refuse iff hourly > limit; restart at the first request in a new clock hour'" + ("" if fo else " (another client's event changed this client's counters)"),
                {"call": "MaxTransactionCount on SimulatedClient(transaction_limit=L)", "history": hs[hi], "client": ci, "impl_observations": res[hi],
                 "failed": "property" if i in pbad else "model-mismatch"})
    # ---- count sites of the simulated execution layer, through the real simulation (model compares the client's
    #      transaction_count_total after every event; code 4000000+i = orders agree, the count differs at event i)
    import simgen, simrun
    opts = {"p_place": 0.6, "p_manage": 0.8, "p_susp": 0.3, "kinds": ["L"] * 6 + ["LOC"], "no_remove": True, "p_remove": 0.0, "max_upd": 9}
    scs = [simgen.gen_scenario(rng, opts) for _ in range(600 if thorough else 150)]
    codes, impl = simrun.run_batch(scs, name="c18sim")
    mism = [i for i, c in enumerate(codes) if c >= 1000]
    txbad = [i for i, c in enumerate(codes) if c >= 4000000]
    kinds = {}
    for io in impl:
        for p in io["packages"]:
            kinds[p["kind"]] = kinds.get(p["kind"], 0) + 1
    ck.family("simulated_execution_count_sites", len(scs), len({json.dumps(s["script"], sort_keys=True) for s in scs}), mism, txbad,
              ambiguous=sum(1 for c in codes if c == 1), dist={"packages_by_kind": kinds, "final_totals": sorted({io["tx"][0][1] for io in impl})[:20]},
              samples=[{"family": "count_sites", "packages": impl[0]["packages"][:3], "final_total": impl[0]["tx"]}])
    for i in txbad[:3]:
        ck.fail("C18-count-sites", "client.transaction_count_total differs from bets submitted (place/replace instructions) + failed instructions at event %d of the scenario" % (codes[i] - 4000000),
                {"scenario": scs[i], "impl_total_per_snapshot": [o["tx"][0][1] for o in impl[i]["obs"] if o["s"] == 0], "packages": impl[i]["packages"],
                 "how": "harness/impl/simlib.py on the real FlumineSimulation"})
    # lock (trusted) - a test, not a proof
    # ---- live count sites: packages of 1-3 placements answered per instruction (SUCCESS / FAILURE / TIMEOUT) or refused as a whole (an answer
    #      without instruction reports): the client's counters grow by the number of instructions submitted whatever the shape of the answer
    lcases, lsizes = [], []
    for _ in range(120 if thorough else 40):
        steps = [["book", "OPEN"]]
        sizes = []
        for _ in range(rng.randrange(1, 4)):
            k = rng.randrange(1, 4)
            steps.append(["txn", [["place", 0, rng.choice([101, 202]), "BACK", 200, 500, None, False] for _ in range(k)]] if k > 1 else ["place", 0, 101, "BACK", 200, 500, None, False])
            out = {"reports": [{"status": rng.choice(["SUCCESS", "SUCCESS", "FAILURE", "TIMEOUT"])} for _ in range(k)], "perm": "id"}
            if rng.random() < 0.35:
                out["place_reports"] = "none"
            steps.append(["deliver", 0, out])
            sizes.append(k)
        lcases.append({"strategies": 1, "steps": steps})
        lsizes.append(sizes)
    louts = run_impl_parallel("livelib", [{"job": "exec", "cases": ch} for ch in chunked(lcases, 10)], timeout=3600)
    lres = [r for o in louts for r in o["out"]]
    lbad = []
    for i, (c, r, sizes) in enumerate(zip(lcases, lres, lsizes)):
        want, k = 0, 0
        for ob, step in zip(r, c["steps"]):
            if step[0] == "deliver":
                want += sizes[k]; k += 1
                if ob["tx"][0] != want:
                    lbad.append((i, ob["tx"], want)); break
    ck.family("live_place_count_sites", len(lcases), len(lcases), [], [i for i, *_ in lbad], dist={"packages": sum(len(x) for x in lsizes)})
    for i, tx, want in lbad[:2]:
        ck.fail("C18-live-count", "live placement packages answered: the client's counters read %s, %d placement instructions were submitted in answered calls" % (tx, want),
                {"case": lcases[i], "counters": tx, "submitted": want, "how": "harness/impl/livelib.py job exec (real BetfairExecution against an exchange double)"})
    to = run_impl("c18", {"job": "threads", "n": 20000 if thorough else 4000, "threads": 16})["out"]
    okT = to["total"] == to["expected"]
    ck.family("threads_lock_test", to["expected"], 2, [], [] if okT else ["lost"], dist=to)
    if not okT:
        ck.fail("C18-lock", "add_transaction from 16 threads lost counts: %s" % to, {"call": "client.add_transaction from 16 threads", "observed": to})
    ck.assumptions.append("threading.Lock atomicity of add_transaction is trusted (tested with 16 threads); the model is atomic per handler")
    # two clients in one framework: an order refused by the first client's transaction limit is submitted again through the second (no limit); from
    # then on it is the second client's order: its cancel / replace is validated and counted there, and the blocked first client does not affect it
    import simgen
    P = simgen.TICKS_BP
    fcs = []
    for _ in range(30 if thorough else 10):
        i0 = rng.randrange(6, 18)
        t0 = 1_700_000_000_000
        def rn(sel):
            return {"id": sel, "status": "ACTIVE", "adj": 1000, "atb": [[P[i0 - 2], 5000]], "atl": [[P[i0 + 2], 5000]], "trd": []}
        ups = [{"pt": t0 + 400 * k, "status": "OPEN", "version": 1, "runners": [rn(1), rn(2)]} for k in range(9)]
        side = rng.choice(["BACK", "LAY"])
        px = P[i0 + 1] if side == "BACK" else P[i0 - 1]          # rests
        L = lambda: {"t": "L", "p": px, "s": 200, "pt": "LAPSE", "tif": None, "mf": None}
        second = rng.choice(["cancel", "replace"])
        script = [{"s": 0, "m": 0, "u": 0, "acts": [["place", 1, 1, side, L(), {"mv": None}]]},
                  {"s": 0, "m": 0, "u": 1, "acts": [["place", 2, 2, side, L(), {"mv": None}]]},
                  {"s": 0, "m": 0, "u": 2, "acts": [["place_again", "o2", {"client": 1}]]},
                  {"s": 0, "m": 0, "u": 5, "acts": [["cancel", 2, None, {}]] if second == "cancel" else [["replace", 2, P[i0 + 2] if side == "BACK" else P[i0 - 2], {"mv": None}]]}]
        fcs.append({"config": {"place_latency": 0.12, "cancel_latency": 0.17, "update_latency": 0.15, "replace_latency": 0.28, "isolation": True},
                    "clients": [{"bpe": True, "full_match": False, "limit": 0, "min_val": False}, {"bpe": True, "full_match": False, "limit": None, "min_val": False}],
                    "strategies": [{"name": "s0", "client": 0, "max_live": 10 ** 6, "max_trade": 10 ** 6}],
                    "markets": [{"id": "1.100000001", "event": "20000001", "group": False, "type": "WIN", "bsp": False, "persist": True, "winners": 1, "updates": ups}],
                    "script": script, "_second": second})
    fouts = run_impl_parallel("simlib", [{"scenarios": [simgen.to_impl({k: v for k, v in x.items() if not k.startswith("_")}) for x in ch], "observe": "all"} for ch in chunked(fcs, 10)], timeout=1800)
    fimpl = [r for o in fouts for r in o["out"]]
    fbad = []
    for i, (sc, io) in enumerate(zip(fcs, fimpl)):
        if io.get("error"):
            fbad.append((i, "the run aborted: %s" % str(io["error"])[:120])); continue
        reqs = {(r[3], r[4]): r[5] for r in io["requests"]}
        o2 = next((o for o in io["final"] if o["o"] == "o2"), None)
        want_tx = [1, 2 if sc["_second"] == "replace" else 1]
        why = None
        if reqs.get(("place", "o1")) is not True or reqs.get(("place", "o2")) is not False or reqs.get(("place_again", "o2")) is not True:
            why = "placements: o1 %s (accepted expected), o2 through the limited client %s (refused expected), o2 again through the second client %s (accepted expected)" % (reqs.get(("place", "o1")), reqs.get(("place", "o2")), reqs.get(("place_again", "o2")))
        elif reqs.get((sc["_second"], "o2")) is not True:
            why = "the %s of the order now held by the client WITHOUT a limit was refused: %s" % (sc["_second"], reqs.get((sc["_second"], "o2")))
        elif o2 is None or o2.get("client") != 1:
            why = "the order placed through the second client reports client %s" % (o2 and o2.get("client"))
        elif [c[1] for c in io["tx"]] != want_tx:
            why = "transaction totals per client %s, expected %s (one bet through each client%s)" % ([c[1] for c in io["tx"]], want_tx, ", plus the replacement bet through the second" if sc["_second"] == "replace" else "")
        if why:
            fbad.append((i, why))
    ck.family("order_failed_over_to_a_second_client", len(fcs), len(fcs), [], sorted({i for i, _ in fbad}))
    for i, why in fbad[:2]:
        ck.fail("C18-clients-independent", "two clients, an order refused by the first client's limit and placed through the second: " + why, {"scenario": {k: v for k, v in fcs[i].items() if not k.startswith("_")}, "how": "harness/impl/simlib.py (place_again with client)"})
    return ck.finish("random histories of add_transaction / requests over 1-3 real clients (limits None/0/3/5/10/5000), times stepping over hour/day/year boundaries and backwards, simulated clock and patched live clock; model and the state-free property checker both evaluated in Coq on the implementation's observations; distinct = distinct client histories")


def replay(path):
    print(open(path).read()); return 0

"""C07 — simulated latency and bet delay: no look-ahead and no free speed."""
import random
from common import *
import simgen, simcheck, propcheck

PID = "C07"


def main():
    ck = Check(PID)
    rng = random.Random(seed())
    thorough = tier() == "thorough"
    if not simcheck.gen_status(ck):
        return ck.finish("generator failed")
    p = subprocess.run([PY_IMPL, os.path.join(VERIF, "harness/impl/gen_consts.py"), "delays"], env=impl_env(), stdout=subprocess.PIPE, stderr=subprocess.PIPE)
    if p.returncode != 0:
        ck.broken.append({"kind": "generator", "what": "gen_consts delays failed", "err": p.stderr.decode()[-1500:]})
        return ck.finish("generator failed")
    if not ck.build_props(["Model/SimCases.vo"]):
        coq_build(["Model/SimCases.vo"])
    n = 1200 if thorough else 260
    # spacings that hit delay-1, delay, delay+1 for the four kinds and bet delays 0/1/5
    steps = [1, 2, 50, 119, 120, 121, 149, 150, 151, 169, 170, 171, 279, 280, 281, 1119, 1120, 1121, 1279, 1280, 1281, 5119, 5120, 5121, 5280, 5281, 60000]
    opts = {"steps": steps, "p_place": 0.6, "p_manage": 0.6, "p_inplay": 0.2, "no_remove": True, "p_remove": 0.0, "kinds": ["L"] * 9 + ["LOC"], "min_upd": 7, "max_upd": 14, "p_fok": 0.1}
    scs = [simgen.gen_scenario(rng, opts) for _ in range(n)]
    simcheck.run_family(ck, "timing_single_market", scs, propcheck.c07, "C07", "timing", hyp=True)
    # event-grouped runs: updates of other markets of the same event in between
    scs2 = [simgen.gen_scenario(rng, dict(opts, nmarkets=[2, 3], group=True, same_time=True, p_close=0.3)) for _ in range(n // 2)]
    simcheck.run_family(ck, "timing_event_groups", scs2, propcheck.c07, "C07", "timing-groups", hyp=True)
    # requests for ANOTHER market of the event than the one whose update is being processed (placements and cancels/updates/replaces of orders
    # resting there): the request time is the time of the update being processed, the bet delay that of the target market
    scs5 = [simgen.gen_scenario(rng, dict(opts, nmarkets=[2, 3], group=True, same_time=True, p_close=0.3, p_cross=0.3)) for _ in range(n // 2)]
    simcheck.run_family(ck, "cross_market_requests", scs5, propcheck.c07, "C07", "timing-cross", hyp=True)
    # custom latencies (whole ms), away from the exact boundary only by construction of the generator's steps
    scs3 = []
    for _ in range(n // 3):
        s = simgen.gen_scenario(rng, opts)
        s["config"].update({"place_latency": rng.choice([0.05, 0.12, 0.5, 1.0]), "cancel_latency": rng.choice([0.05, 0.17, 0.3]),
                            "update_latency": rng.choice([0.05, 0.15, 0.4]), "replace_latency": rng.choice([0.1, 0.28, 0.6])})
        scs3.append(s)
    simcheck.run_family(ck, "custom_latencies", scs3, propcheck.c07, "C07", "timing-custom", hyp=True)
    # asynchronous placement (config.async_place_orders): the simulated delay must be the same
    scs4 = []
    for _ in range(n // 3):
        s = simgen.gen_scenario(rng, dict(opts, p_inplay=0.5))
        s["config"]["async_place"] = True
        scs4.append(s)
    simcheck.run_family(ck, "async_placement", scs4, propcheck.c07, "C07", "timing-async", hyp=True)
    # historic sports data (race updates) replayed between the market updates by SimulatedSportsDataMiddleware: the clock every callback sees is
    # still the publish time of the MARKET update being processed, and requests take effect as without the sports data (compared with the model)
    scs6 = [simgen.gen_scenario(rng, {"kinds": ["L"], "p_manage": 0.5, "p_remove": 0.0, "no_remove": True, "nstrats": [1, 2], "min_upd": 7, "max_upd": 12}) for _ in range(120 if thorough else 30)]
    for sc in scs6:
        sc["config"]["race_data"] = rng.choice([1, 10, 40])
    simcheck.run_family(ck, "race_data_replayed_alongside", scs6, propcheck.c07, "C07", "timing-race", hyp=True)
    # paper trading (live Flumine, paper_trade client, real threads and sleeps; outside the Coq model): two requests on their way at once - a
    # placement that takes bet delay + place latency and a cancel of another order: the cancel is answered one cancel latency after its request
    # (not earlier), and it does not queue behind the placement (an order being cancelled stops being fillable when its cancel is due)
    pcases = [{"delay": d} for d in ((1, 2, 1, 3) if thorough else (1, 2))]
    pres = [r for o in run_impl_parallel("paperlib", [{"job": "timing", "cases": [c]} for c in pcases], timeout=600) for r in o["out"]]
    pbad = []
    for i, (c, r) in enumerate(zip(pcases, pres)):
        if r.get("error"):
            pbad.append((i, "the paper-trading run raised %s" % r["error"])); continue
        t = r["cancel_answered_after_s"]
        if t < 0.17 - 0.005:
            pbad.append((i, "the cancel was answered %.3f s after the request, before its latency of 0.17 s had passed" % t))
        elif t > 0.17 + 0.5 or r["a"]["status"] != "Execution complete" or r["a"]["cancelled"] != 2.0:
            pbad.append((i, "the cancel was answered %.3f s after the request (latency 0.17 s; a placement with a bet delay of %s s was on its way at the same time); the order ended %s" % (t, c["delay"], r["a"])))
    ck.family("paper_trading_two_requests_on_their_way", len(pcases), len(pcases), [], [i for i, _ in pbad], dist={"cancel_answered_after_s": [r.get("cancel_answered_after_s") for r in pres]})
    for i, why in pbad[:1]:
        ck.fail("C07-paper-latency", "paper trading: " + why, {"case": pcases[i], "out": pres[i], "how": "harness/impl/paperlib.py job timing"})
    return ck.finish("scenarios on the real FlumineSimulation with update spacings from 1 ms to a minute hitting delay-1/delay/delay+1 ms for all four request kinds and bet delays 0/1/5 (changing at in-play), several requests between two updates, 1-3 markets (event-grouped: updates of other markets in between), default and custom latencies; compared with the Coq model; independent checker: effect at the first update of the market later than request+delay, pending/transient until then, clock = publish time in every callback, fragment times")


def replay(path):
    print(open(path).read()); return 0

#!/bin/bash
# runs every claimed check on the current /repo tree, one after the other; prints one line per check
cd "$(dirname "$0")/.."
tier=${1:-quick}
for c in $(python3 -c "import json; print(' '.join(x['property_id'] for x in json.load(open('MANIFEST.json'))['checks']))"); do
  s=$(date +%s)
  out=$(./check $c --tier $tier 2>&1); rc=$?
  echo "$c rc=$rc $(( $(date +%s) - s ))s $(echo "$out" | grep -c '^KNOWN-FINDING') known | $(echo "$out" | grep '^VIOLATION' | head -2 | tr '\n' ' ')"
done
